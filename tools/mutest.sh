#!/bin/bash
# usage: tools/mutest.sh <patch-file> <prop> [<prop>...]
# Applies the patch to a scratch copy of /repo (outside /repo and /verif), checks that it still
# builds, runs the named checks against the copy in fresh processes, prints their verdicts and
# removes the copy. Exit 0 if at least one check reported a VIOLATION (mutant killed).
set -u
export GOFLAGS=-mod=mod GOPROXY=off GOSUMDB=off GOTOOLCHAIN=local GOWORK=off
patch=$(readlink -f "$1"); shift
scratch=$(mktemp -d /tmp/vmut.XXXXXX)
trap 'rm -rf "$scratch"' EXIT
rsync -a --exclude .git /repo/ "$scratch/repo/"
mkdir -p "$scratch/verif"
cp /verif/known_findings.json "$scratch/verif/"
if ! (cd "$scratch/repo" && patch -p1 -s < "$patch"); then echo "PATCH-FAILED $patch"; exit 3; fi
if ! (cd "$scratch/repo" && go build ./... 2>"$scratch/build.err"); then echo "BUILD-FAILED $patch"; head -5 "$scratch/build.err"; exit 3; fi
killed=1
for p in "$@"; do
  out=$(${VCHECK:-/verif/bin/vcheck} -prop "$p" -repo "$scratch/repo" -verif "$scratch/verif" 2>&1)
  if echo "$out" | grep -q "^VIOLATION property=$p"; then
    killed=0
    echo "KILLED by $p: $(echo "$out" | grep -E ': (fail|undecided): ' | head -3 | sed "s#$scratch/repo/##g")"
  else
    echo "survived $p"
  fi
done
exit $killed
