#!/usr/bin/env python3
"""Builds /verif/mutants/<name>.patch from textual edit specs in mutants/specs/*.py.
Each spec file defines MUTANTS = [dict(name=, props=[...], file=, old=, new=, note=)] or
edits=[(file, old, new), ...] for multi-file mutants. kind='break' (must be reported by one of props)
or kind='preserve' (behaviour-preserving: no check may report)."""
import sys, os, glob, json, subprocess, tempfile, shutil, difflib

def load_specs():
    out = []
    for f in sorted(glob.glob('/verif/mutants/specs/*.py')):
        ns = {}
        exec(open(f).read(), ns)
        out += ns['MUTANTS']
    return out

def main():
    index = []
    for m in load_specs():
        edits = m.get('edits') or [(m['file'], m['old'], m['new'])]
        diff = ''
        for (path, old, new) in edits:
            src = open('/repo/' + path).read()
            if src.count(old) != 1:
                print('SPEC-ERROR', m['name'], path, 'old text occurs', src.count(old), 'times')
                diff = None
                break
            dst = src.replace(old, new)
            diff += ''.join(difflib.unified_diff(src.splitlines(True), dst.splitlines(True), 'a/' + path, 'b/' + path))
        if diff is None:
            continue
        open('/verif/mutants/%s.patch' % m['name'], 'w').write(diff)
        index.append(dict(name=m['name'], props=m['props'], kind=m.get('kind', 'break'), note=m.get('note', '')))
    # entries made by tools/mkderived.sh (not described by a spec) are kept
    names = {m['name'] for m in index}
    try:
        for m in json.load(open('/verif/mutants/index.json')):
            if m['name'] not in names and m.get('note', '').startswith('breaking edit on top of') and os.path.exists('/verif/mutants/%s.patch' % m['name']):
                index.append(m)
    except FileNotFoundError:
        pass
    json.dump(index, open('/verif/mutants/index.json', 'w'), indent=1)
    print(len(index), 'mutants written')

main()
