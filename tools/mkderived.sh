#!/bin/bash
# usage: tools/mkderived.sh <preserving-id> <mutant-name> "<props>" <sed-script-file-or-expr> <file>
# Builds a breaking mutant ON TOP of a behaviour-preserving refactoring: applies the refactoring to a
# scratch copy of /repo, applies the sed expression to <file>, checks it still builds, and stores the
# diff against the ORIGINAL tree as mutants/<name>.patch (+ index entry, kind=break).
set -eu
export GOFLAGS=-mod=mod GOPROXY=off GOSUMDB=off GOTOOLCHAIN=local GOWORK=off
pid=$1; name=$2; props=$3; expr=$4; file=$5
s=$(mktemp -d /tmp/vder.XXXXXX); trap 'rm -rf "$s"' EXIT
rsync -a --exclude .git /repo/ "$s/a/"; rsync -a --exclude .git /repo/ "$s/b/"
(cd "$s/b" && patch -p1 -s < /verif/preserving/$pid/patch.diff)
cp "$s/b/$file" "$s/before"
(cd "$s/b" && perl -0pi -e "$expr" "$file")
if cmp -s "$s/before" "$s/b/$file"; then echo "NO-CHANGE $name"; exit 2; fi
(cd "$s/b" && gofmt -l . >/dev/null && go build ./... ) || { echo "BUILD-FAILED $name"; exit 3; }
(cd "$s" && diff -ruN a b > "/verif/mutants/$name.patch" || true)
sed -i 's#^--- a/#--- a/#; s#^+++ b/#+++ b/#' "/verif/mutants/$name.patch"
python3 - "$name" "$props" "$pid" <<'PY'
import json,sys
name,props,pid=sys.argv[1:4]
p='/verif/mutants/index.json'; idx=json.load(open(p))
idx=[m for m in idx if m['name']!=name]
idx.append(dict(name=name, props=props.split(), kind='break', note='breaking edit on top of preserving refactoring '+pid))
json.dump(idx, open(p,'w'), indent=1)
PY
echo "ok $name"
