#!/usr/bin/env python3
"""Cross-product robustness test: every hand-written breaking mutant is re-applied ON TOP of every
behaviour-preserving refactoring of the same property (when the patch still applies and the tree
still builds) and must still be reported. A survivor means a rule that accepted the refactored
shape passes vacuously on it. Results: /verif/cross/RESULTS.json.
usage: tools/crossrun.py [preserving-id-substring ...]"""
import json, subprocess, sys, os, tempfile, shutil, concurrent.futures as cf
ENV = dict(os.environ, GOFLAGS='-mod=mod', GOPROXY='off', GOSUMDB='off', GOTOOLCHAIN='local', GOWORK='off')
idx = [m for m in json.load(open('/verif/mutants/index.json')) if m['kind'] == 'break' and not m['name'].startswith('d_')]
pres = json.load(open('/verif/preserving/RESULTS.json'))
sel = sys.argv[1:]
pairs = []
for pid in sorted(pres):
    if pres[pid].get('status') != 'silent':
        continue
    if sel and not any(s in pid for s in sel):
        continue
    note = '/verif/preserving/%s/note.txt' % pid
    prop = open(note).read().split()[0].strip(':,') if os.path.exists(note) else ''
    if not prop.startswith('C'):
        continue
    for m in idx:
        if prop in m['props']:
            pairs.append((pid, prop, m))

def run(t):
    pid, prop, m = t
    s = tempfile.mkdtemp(prefix='vx.', dir='/tmp')
    try:
        repo = s + '/repo'
        subprocess.check_call(['rsync', '-a', '--exclude', '.git', '/repo/', repo + '/'])
        os.makedirs(s + '/verif'); shutil.copy('/verif/known_findings.json', s + '/verif/')
        r = subprocess.run('patch -p1 -s < /verif/preserving/%s/patch.diff' % pid, cwd=repo, shell=True, capture_output=True)
        if r.returncode: return pid, m['name'], 'P-FAILED'
        r = subprocess.run('patch -p1 -s -F2 --no-backup-if-mismatch < /verif/mutants/%s.patch' % m['name'], cwd=repo, shell=True, capture_output=True)
        if r.returncode or any(f.endswith(('.rej', '.orig')) for _, _, fs in os.walk(repo) for f in fs): return pid, m['name'], 'n/a'
        r = subprocess.run('go build ./...', cwd=repo, shell=True, env=ENV, capture_output=True)
        if r.returncode: return pid, m['name'], 'n/a-build'
        for p in m['props']:
            out = subprocess.run(['/verif/bin/vcheck', '-prop', p, '-repo', repo, '-verif', s + '/verif'], capture_output=True, text=True).stdout
            if 'VIOLATION property=' + p in out:
                return pid, m['name'], 'killed'
        return pid, m['name'], 'SURVIVED'
    finally:
        shutil.rmtree(s, ignore_errors=True)

res = {}
with cf.ThreadPoolExecutor(max_workers=8) as ex:
    for pid, name, v in ex.map(run, pairs):
        res.setdefault(pid, {})[name] = v
        if v == 'SURVIVED':
            print('SURVIVED', pid, name, flush=True)
os.makedirs('/verif/cross', exist_ok=True)
old = {}
if sel and os.path.exists('/verif/cross/RESULTS.json'):
    old = json.load(open('/verif/cross/RESULTS.json'))
old.update(res)
json.dump(old, open('/verif/cross/RESULTS.json', 'w'), indent=1, sort_keys=True)
tot = sum(1 for p in res.values() for v in p.values() if v in ('killed', 'SURVIVED'))
print('%d pairs tried, %d applicable, %d survived' % (len(pairs), tot, sum(1 for p in res.values() for v in p.values() if v == 'SURVIVED')))
