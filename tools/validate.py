#!/usr/bin/env python3
import json, jsonschema, glob, sys
ok = True
jsonschema.validate(json.load(open('/verif/MANIFEST.json')), json.load(open('/root/.vp/MANIFEST.schema.json')))
es = json.load(open('/root/.vp/EVIDENCE.schema.json'))
for f in sorted(glob.glob('/verif/evidence/C??.json')):
    try:
        jsonschema.validate(json.load(open(f)), es)
    except Exception as e:
        ok = False
        print('INVALID', f, str(e)[:300])
print('valid' if ok else 'INVALID')
sys.exit(0 if ok else 1)
