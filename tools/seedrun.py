#!/usr/bin/env python3
"""Runs every registered check against every confirmed seeded change (scratch copy per seed, fresh
process per check) and records which checks detect which change in /verif/seeded/RESULTS.json and
each seed's meta.json (detected_by). usage: tools/seedrun.py [id-substring ...]"""
import json, subprocess, sys, os, glob, concurrent.futures as cf
reg = [l.split()[0] for l in subprocess.check_output(['/verif/bin/vcheck', '-list'], text=True).splitlines()]
seeds = sorted(d for d in os.listdir('/verif/seeded') if os.path.isdir('/verif/seeded/' + d))
sel = sys.argv[1:]
if sel:
    seeds = [s for s in seeds if any(x in s for x in sel)]
def run(s):
    r = subprocess.run(['/verif/tools/mutest.sh', '/verif/seeded/%s/patch.diff' % s] + reg, capture_output=True, text=True)
    killed = {}
    for line in r.stdout.splitlines():
        if line.startswith('KILLED by '):
            p = line.split()[2].rstrip(':')
            killed[p] = line.split(':', 1)[1].strip()[:300]
    return s, r.returncode, killed, r.stdout
results = {}
if os.path.exists('/verif/seeded/RESULTS.json') and sel:
    results = json.load(open('/verif/seeded/RESULTS.json'))
with cf.ThreadPoolExecutor(max_workers=5) as ex:
    for s, rc, killed, out in ex.map(run, seeds):
        prop = s.split('-')[0]
        own = prop in killed
        status = 'DETECTED' if own else ('detected-by-other' if killed else ('not-registered' if prop not in reg else 'MISSED'))
        if rc == 3:
            status = 'ERROR ' + out[:200]
        results[s] = dict(status=status, detected_by=sorted(killed), reports=killed)
        print('%-18s %-8s %s' % (status, s, '; '.join('%s: %s' % (k, v[:160]) for k, v in killed.items())))
        mp = '/verif/seeded/%s/meta.json' % s
        m = json.load(open(mp)); m['detected_by'] = sorted(killed); m['checks_run'] = reg
        json.dump(m, open(mp, 'w'), indent=1)
json.dump(results, open('/verif/seeded/RESULTS.json', 'w'), indent=1, sort_keys=True)
