#!/usr/bin/env python3
"""Regenerates /verif/MANIFEST.json from the table below and the properties the
checker binary registers. Run from /verif after changing which properties are claimed."""
import json, subprocess, sys, os

ENV = "GOFLAGS=-mod=mod GOPROXY=off GOSUMDB=off GOTOOLCHAIN=local GOWORK=off"
SETUP = f"cd /verif/checker && {ENV} go build -o /verif/bin/vcheck . && /verif/bin/vcheck -list >/dev/null"

# property id -> (design_ref, technique, level text, level note)
CLAIMS = json.load(open(os.path.join(os.path.dirname(__file__), "claims.json")))
PENDING = json.load(open(os.path.join(os.path.dirname(__file__), "not_applicable.json")))

props = [json.loads(l) for l in open("/verif/properties.jsonl")]
checks = []
for p in props:
    pid = p["id"]
    if pid not in CLAIMS:
        continue
    c = CLAIMS[pid]
    checks.append({
        "property_id": pid,
        "quick_cmd": f"/verif/bin/vcheck -prop {pid} -tier quick",
        "thorough_cmd": f"/verif/bin/vcheck -prop {pid} -tier thorough",
        "evidence_file": f"/verif/evidence/{pid}.json",
        "replay_cmd_template": "cat {path}",
        "engine": "vcheck",
        "level_claimed": {"category": "other", "text": c["text"], "design_ref": c["design_ref"]},
        "level_note": c["note"],
        "technique": c["technique"],
    })
na = [{"property_id": k, "reason": v} for k, v in sorted(PENDING.items()) if k not in CLAIMS]
claimed = {c["property_id"] for c in checks}
for p in props:
    assert p["id"] in claimed or p["id"] in PENDING, p["id"]
m = {
    "version": 1,
    "setup_cmd": SETUP,
    "hooks": {
        "guard": "verif",
        "enable": "none needed: static analysis reads /repo's source; no instrumentation is compiled in",
        "baseline_off_cmd": "cd /repo && GOFLAGS=-mod=mod GOPROXY=off go test -vet=off -count=1 ./...",
        "source_commits": [],
        "add_only": True,
    },
    "engines": [{
        "name": "vcheck",
        "path": "/verif/checker",
        "serves_properties": sorted(claimed),
        "kind_free_text": "repository-specific static analyser: go/packages + go/types + go/ssa (x/tools v0.29.0); dominance, lockset, borrow-taint, table-agreement and field-exhaustiveness rules; never executes vegeta code",
    }],
    "checks": checks,
    "not_applicable": na,
    "notes": "Every check loads and type-checks /repo's current working tree on every run (quick: linux/amd64; thorough: + windows/amd64 and linux/386) and reports obligations keyed rule:construct. Level is 'other' throughout: structural necessary conditions decided for all paths; the behavioural clauses that quantify over run-time values are listed as NOT DECIDED in each evidence file and in DESIGN.md section 3. Genuine defects found by the rules were repaired in /repo with fix: commits and are listed in /verif/known_findings.json.",
}
json.dump(m, open("/verif/MANIFEST.json", "w"), indent=1)
print("claimed:", sorted(claimed), "not_applicable:", [x["property_id"] for x in na])
