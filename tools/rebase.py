#!/usr/bin/env python3
"""After a fix: commit in /repo, patches of the corpora (mutants, preserving, seeded) written against
the previous tree may no longer apply. This re-creates each such patch on top of the fix: in a scratch
clone, check out the commit before the fix, apply the patch, commit, cherry-pick the fix, and store
the diff against the fix commit. Conflicts are reported and left for hand editing.
usage: tools/rebase.py <commit-before-fix> <fix-commit>"""
import sys, os, glob, subprocess, tempfile, shutil
before, fix = sys.argv[1:3]
files = sorted(glob.glob('/verif/mutants/*.patch') + glob.glob('/verif/preserving/*/patch.diff') + glob.glob('/verif/seeded/*/patch.diff'))
def sh(cmd, cwd):
    return subprocess.run(cmd, cwd=cwd, shell=True, capture_output=True, text=True)
s = tempfile.mkdtemp(prefix='vreb.', dir='/tmp')
try:
    subprocess.check_call(['git', 'clone', '-q', '/repo', s + '/g'])
    g = s + '/g'
    sh('git config user.email x@x; git config user.name x', g)
    n = 0
    for f in files:
        if os.path.basename(f).startswith('revert_'):
            continue
        sh('git checkout -q -f %s; git clean -qfd' % fix, g)
        if sh('patch -p1 -s --dry-run -F0 < %s' % f, g).returncode == 0:
            continue
        sh('git checkout -q -f %s; git clean -qfd' % before, g)
        r = sh('patch -p1 -s < %s' % f, g)
        if r.returncode != 0:
            print('NOT-APPLICABLE-BEFORE', f, r.stdout[:200]); continue
        sh('git add -A; git commit -qm variant', g)
        r = sh('git cherry-pick %s' % fix, g)
        if r.returncode != 0:
            print('CONFLICT', f); sh('git cherry-pick --abort', g); continue
        d = sh('git diff %s HEAD' % fix, g).stdout
        open(f, 'w').write(d)
        n += 1
        print('rebased', f)
    print(n, 'patches rebased')
finally:
    shutil.rmtree(s)
