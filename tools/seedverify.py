#!/usr/bin/env python3
"""Independently confirms a seeded change produced by a sub-agent and, if confirmed, stores it as
/verif/seeded/<id>/ (patch.diff, the demonstration, README.md, meta.json).
usage: tools/seedverify.py /tmp/seed_C04/SEED_A C04-A
Steps, all in a scratch copy of /repo outside /repo and /verif, removed afterwards:
 1. apply patch; go build ./...; existing suite (go test -vet=off -count=1 ./...) must pass
 2. demonstration with the change must FAIL
 3. reverse the patch; demonstration must PASS
"""
import sys, os, re, json, shutil, subprocess, tempfile

ENV = dict(os.environ, GOFLAGS='-mod=mod', GOPROXY='off', GOSUMDB='off', GOTOOLCHAIN='local', GOWORK='off')

def run(cmd, cwd, timeout=600):
    try:
        r = subprocess.run(cmd, cwd=cwd, env=ENV, shell=True, capture_output=True, text=True, timeout=timeout)
        return r.returncode, (r.stdout + r.stderr)[-3000:]
    except subprocess.TimeoutExpired:
        return 124, 'timeout'

PKGDIR = {'vegeta': 'lib', 'vegeta_test': 'lib', 'main': '.', 'main_test': '.', 'plot': 'lib/plot', 'plot_test': 'lib/plot', 'prom': 'lib/prom',
          'prom_test': 'lib/prom', 'lttb': 'lib/lttb', 'lttb_test': 'lib/lttb', 'resolver': 'internal/resolver', 'resolver_test': 'internal/resolver'}

def main():
    src, sid = sys.argv[1].rstrip('/'), sys.argv[2]
    prop = sid.split('-')[0]
    scratch = tempfile.mkdtemp(prefix='vseed.', dir='/tmp')
    try:
        repo = os.path.join(scratch, 'repo')
        subprocess.check_call(['rsync', '-a', '--exclude', '.git', '/repo/', repo + '/'])
        patch = os.path.join(src, 'patch.diff')
        files = sorted(os.listdir(src))
        demo_cmd = None
        race = ''
        readme = open(os.path.join(src, 'README.md')).read() if 'README.md' in files else ''
        if '-race' in readme:
            race = '-race '
        tests = [f for f in files if f.endswith('_test.go')]
        mains = [f for f in files if f.endswith('.go') and not f.endswith('_test.go')]
        placed = []
        if tests:
            t = tests[0]
            pkg = re.search(r'^package\s+(\w+)', open(os.path.join(src, t)).read(), re.M).group(1)
            if pkg in PKGDIR:
                d = PKGDIR[pkg]
                dst = os.path.join(repo, d, 'zz_seed_demo_test.go')
                shutil.copy(os.path.join(src, t), dst)
                placed.append(dst)
                names = re.findall(r'^func (Test\w+)\(', open(dst).read(), re.M)
                demo_cmd = 'go test -vet=off -count=1 %s-run "^(%s)$" ./%s' % (race, '|'.join(names), d)
            else:
                # external test package: run in its own directory inside the module
                d = os.path.join(repo, 'zz_seed_demo')
                os.makedirs(d)
                shutil.copy(os.path.join(src, t), os.path.join(d, 'demo_test.go'))
                placed.append(d)
                demo_cmd = 'go test -vet=off -count=1 %s./zz_seed_demo/' % race
        elif mains:
            d = os.path.join(repo, 'zz_seed_demo')
            os.makedirs(d)
            for m in mains:
                shutil.copy(os.path.join(src, m), os.path.join(d, m))
            placed.append(d)
            demo_cmd = 'go run %s./zz_seed_demo' % race
        else:
            print('NO-DEMO'); return 2
        log = {}
        # step 1 (demo moved aside)
        aside = os.path.join(scratch, 'aside'); os.makedirs(aside)
        for p in placed:
            shutil.move(p, os.path.join(aside, os.path.basename(p)))
        rc, out = run('git init -q . && git apply --whitespace=nowarn %s' % patch, repo)
        if rc != 0:
            rc, out = run('patch -p1 -s < %s' % patch, repo)
            if rc != 0:
                print('PATCH-FAILED', out); return 2
        rc, out = run('go build ./... && go test -vet=off -count=1 ./...', repo, 900)
        log['suite_with_change'] = 'pass' if rc == 0 else 'FAIL: ' + out[-800:]
        for p in placed:
            shutil.move(os.path.join(aside, os.path.basename(p)), p)
        # step 2
        rc2, out2 = run(demo_cmd, repo, 600)
        log['demo_with_change'] = 'fails (rc=%d)' % rc2 if rc2 != 0 else 'PASSES'
        log['demo_with_change_tail'] = out2[-600:]
        # step 3
        rc, out = run('git apply -R --whitespace=nowarn %s || patch -R -p1 -s < %s' % (patch, patch), repo)
        rc3, out3 = run(demo_cmd, repo, 600)
        log['demo_without_change'] = 'passes' if rc3 == 0 else 'FAILS: ' + out3[-600:]
        ok = log['suite_with_change'] == 'pass' and rc2 != 0 and rc3 == 0
        log['confirmed'] = ok
        log['demo_cmd'] = demo_cmd
        print(json.dumps(log, indent=1))
        if ok:
            dst = os.path.join('/verif/seeded', sid)
            os.makedirs(dst, exist_ok=True)
            for f in files:
                if f in ('go.mod', 'go.sum') or os.path.isdir(os.path.join(src, f)):
                    continue
                shutil.copy(os.path.join(src, f), os.path.join(dst, f if not f.endswith('_test.go') else f + '.txt'))
            meta = dict(id=sid, property=prop, source='independent sub-agent given only the property text and a scratch worktree',
                        needs=None, confirmed_by='tools/seedverify.py in a scratch copy of /repo (removed afterwards)',
                        ran=dict(step1='go build ./... && go test -vet=off -count=1 ./...  (with change): pass',
                                 step2=demo_cmd + '  (with change): fails',
                                 step3=demo_cmd + '  (without change): passes'),
                        demo_placement='copied as zz_seed_demo_test.go into the package directory named by its package clause, or as ./zz_seed_demo for main programs / external test packages',
                        detected_by=None)
            json.dump(meta, open(os.path.join(dst, 'meta.json'), 'w'), indent=1)
        return 0 if ok else 1
    finally:
        shutil.rmtree(scratch, ignore_errors=True)

sys.exit(main())
