#!/usr/bin/env python3
"""Imports behaviour-preserving refactorings produced by sub-agents (/tmp/pres_X/REF_NN) into
/verif/preserving/<group><nn>/ and runs every registered check against each (scratch copy, fresh
process). A check that reports is a FALSE ALARM to be investigated. Results: preserving/RESULTS.json.
usage: tools/presrun.py [import <dir>...] | [run [id-substring...]]"""
import json, subprocess, sys, os, glob, shutil, concurrent.futures as cf
ENV = dict(os.environ, GOFLAGS='-mod=mod', GOPROXY='off', GOSUMDB='off', GOTOOLCHAIN='local', GOWORK='off')
def imp(dirs):
    for d in dirs:
        g = os.path.basename(d.rstrip('/')).split('_')[-1]
        for r in sorted(glob.glob(d + '/REF_*')):
            nn = r.split('_')[-1]
            dst = '/verif/preserving/%s%s' % (g, nn)
            if not os.path.exists(r + '/patch.diff'):
                continue
            os.makedirs(dst, exist_ok=True)
            shutil.copy(r + '/patch.diff', dst + '/patch.diff')
            if os.path.exists(r + '/note.txt'):
                shutil.copy(r + '/note.txt', dst + '/note.txt')
            print('imported', dst)
def run(sel):
    reg = [l.split()[0] for l in subprocess.check_output(['/verif/bin/vcheck', '-list'], text=True).splitlines()]
    ids = sorted(d for d in os.listdir('/verif/preserving') if os.path.isdir('/verif/preserving/' + d))
    if sel:
        # an argument "file:<path>" selects the variants whose patch touches that path
        files = [s[5:] for s in sel if s.startswith('file:')]
        names = [s for s in sel if not s.startswith('file:')]
        def touches(i):
            try:
                t = open('/verif/preserving/%s/patch.diff' % i).read()
            except OSError:
                return False
            return any(('+++ b/' + f) in t for f in files)
        ids = [i for i in ids if any(s in i for s in names) or (files and touches(i))]
    def one(i):
        r = subprocess.run(['/verif/tools/mutest.sh', '/verif/preserving/%s/patch.diff' % i] + reg, capture_output=True, text=True)
        killed = {}
        for line in r.stdout.splitlines():
            if line.startswith('KILLED by '):
                killed[line.split()[2].rstrip(':')] = line.split(':', 1)[1].strip()[:400]
        return i, r.returncode, killed, r.stdout
    results = {}
    if os.path.exists('/verif/preserving/RESULTS.json') and sel:
        results = json.load(open('/verif/preserving/RESULTS.json'))
    with cf.ThreadPoolExecutor(max_workers=5) as ex:
        for i, rc, killed, out in ex.map(one, ids):
            status = 'silent' if rc == 1 and not killed else ('ERROR ' + out[:200] if rc == 3 else 'ALARM')
            results[i] = dict(status=status, reports=killed)
            note = open('/verif/preserving/%s/note.txt' % i).read().splitlines()[0] if os.path.exists('/verif/preserving/%s/note.txt' % i) else ''
            print('%-8s %-6s %-5s %s' % (status, i, note[:5], '; '.join('%s: %s' % (k, v[:200]) for k, v in killed.items())))
    json.dump(results, open('/verif/preserving/RESULTS.json', 'w'), indent=1, sort_keys=True)
if sys.argv[1] == 'import':
    imp(sys.argv[2:])
else:
    run(sys.argv[2:])
