#!/usr/bin/env python3
"""Runs every mutant in /verif/mutants/index.json (and revert_F*.patch) against the checks it names,
each in a scratch copy of /repo and a fresh checker process. kind=break must be KILLED by at least
one named check; kind=preserve must be reported by none. Writes /verif/selftest.json.
usage: tools/selftest.py [name-substring ...]"""
import json, subprocess, sys, os, concurrent.futures as cf

idx = json.load(open('/verif/mutants/index.json'))
reverts = {'revert_F1': ['C01'], 'revert_F2': ['C02'], 'revert_F3': ['C10'], 'revert_F4': ['C12'], 'revert_F5': ['C14'],
           'revert_F6ab': ['C18'], 'revert_F6c': ['C18'], 'revert_F6d': ['C18'], 'revert_F7': ['C19'], 'revert_F8': ['C20'], 'revert_F9': ['C14']}
for n, p in reverts.items():
    idx.append(dict(name=n, props=p, kind='break', note='reverse of the fix: commit'))
registered = set(subprocess.check_output(['/verif/bin/vcheck', '-list'], text=True).split()[0::1])
reg = set(l.split()[0] for l in subprocess.check_output(['/verif/bin/vcheck', '-list'], text=True).splitlines())
sel = sys.argv[1:]
if sel:
    # an argument "prop:Cnn" selects the mutants that name that property
    props = [s[5:] for s in sel if s.startswith('prop:')]
    names = [s for s in sel if not s.startswith('prop:')]
    idx = [m for m in idx if any(s in m['name'] for s in names) or any(p in m['props'] for p in props)]

def run(m):
    props = [p for p in m['props'] if p in reg]
    if not props:
        return m, 'SKIP (checks not registered)', ''
    r = subprocess.run(['/verif/tools/mutest.sh', '/verif/mutants/%s.patch' % m['name']] + props, capture_output=True, text=True)
    return m, r.returncode, r.stdout.strip()

res = []
with cf.ThreadPoolExecutor(max_workers=6) as ex:
    for m, rc, out in ex.map(run, idx):
        if isinstance(rc, str):
            verdict = rc
        elif rc == 3:
            verdict = 'ERROR'
        elif m['kind'] == 'break':
            verdict = 'ok-killed' if rc == 0 else 'MISSED'
        else:
            verdict = 'ok-silent' if rc == 1 else 'FALSE-ALARM'
        res.append(dict(name=m['name'], kind=m['kind'], props=m['props'], verdict=verdict, output=out.splitlines()[:6], note=m.get('note','')))
        print('%-14s %-45s %s' % (verdict, m['name'], '' if verdict.startswith('ok') else out.replace('\n', ' | ')[:400]))
if not sel:
    json.dump(res, open('/verif/selftest.json', 'w'), indent=1)
bad = [r for r in res if not (r['verdict'].startswith('ok') or r['verdict'].startswith('SKIP'))]
print('%d mutants, %d problems' % (len(res), len(bad)))
