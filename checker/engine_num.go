package main

import (
	"go/token"
	"go/types"
	"strings"

	"golang.org/x/tools/go/ssa"
)

// stablePath reports whether path p denotes a cell that is written only once
// in fn (the spill of a value receiver / parameter), so two loads with the
// same path yield the same value.
func stablePath(fn *ssa.Function, v ssa.Value) (string, bool) {
	p := path(v)
	if strings.HasPrefix(p, "%") || strings.Contains(p, "%") {
		return p, false
	}
	// find the root alloc, if any
	var root ssa.Value = v
	for {
		switch x := root.(type) {
		case *ssa.UnOp:
			root = x.X
			continue
		case *ssa.FieldAddr:
			root = x.X
			continue
		case *ssa.Field:
			root = x.X
			continue
		case *ssa.ChangeType:
			root = x.X
			continue
		case *ssa.Convert:
			root = x.X
			continue
		}
		break
	}
	switch r := root.(type) {
	case *ssa.Parameter:
		// a value parameter; a pointer parameter's pointee may change — only
		// accept non-pointer access (Field chains), which path() renders without '*'.
		return p, !strings.Contains(p, "*")
	case *ssa.Alloc:
		// every store whose address is rooted at this alloc must be the single
		// initial spill of a parameter into the whole cell.
		n := 0
		ok := true
		var visit func(addr ssa.Value)
		seen := map[ssa.Value]bool{}
		visit = func(addr ssa.Value) {
			if seen[addr] {
				return
			}
			seen[addr] = true
			for _, ref := range refs(addr) {
				switch y := ref.(type) {
				case *ssa.Store:
					if y.Addr == addr {
						n++
						if _, isParam := y.Val.(*ssa.Parameter); !isParam || addr != ssa.Value(r) {
							ok = false
						}
					}
				case *ssa.FieldAddr:
					visit(y)
				case *ssa.IndexAddr:
					visit(y)
				case *ssa.UnOp:
					// load: fine
				case *ssa.Call, *ssa.Go, *ssa.Defer:
					// address escapes to a callee (pointer-receiver method on a spilled value): unknown writes
					ok = false
				case *ssa.MakeClosure:
					ok = false
				}
			}
		}
		visit(r)
		return p, ok && n == 1
	}
	return p, false
}

// sameValue: a and b are provably the same run-time value inside fn.
func sameValue(fn *ssa.Function, a, b ssa.Value) bool {
	if a == b {
		return true
	}
	pa, oka := stablePath(fn, a)
	pb, okb := stablePath(fn, b)
	return oka && okb && pa == pb
}

// widening reports whether a numeric conversion preserves "is zero" both ways
// and cannot turn a non-zero value into zero (no truncation).
func widening(c *ssa.Convert) bool {
	from, to := c.X.Type(), c.Type()
	if !isInteger(from) || !isInteger(to) {
		return false
	}
	fs, ts := intSizeExact(from), intSizeExact(to)
	if fs == 0 || ts == 0 {
		// int/uint: 32 or 64. int→int64/uint64 is safe; int64→int is not.
		if fs == 0 && ts == 64 {
			return true
		}
		if fs == 0 && ts == 0 {
			return true
		}
		return false
	}
	return ts >= fs
}

func intSizeExact(t types.Type) int {
	b, ok := t.Underlying().(*types.Basic)
	if !ok {
		return 0
	}
	switch b.Kind() {
	case types.Int8, types.Uint8:
		return 8
	case types.Int16, types.Uint16:
		return 16
	case types.Int32, types.Uint32:
		return 32
	case types.Int64, types.Uint64:
		return 64
	}
	return 0 // int, uint, uintptr: platform dependent
}

// identityCalls are total functions returning their argument's numeric value unchanged.
var identityCalls = map[string]bool{
	"(time.Duration).Nanoseconds": true,
}

// peelSame strips conversions and identity calls that preserve zero-ness.
func peelSame(v ssa.Value) ssa.Value {
	for {
		switch x := v.(type) {
		case *ssa.Convert:
			if widening(x) {
				v = x.X
				continue
			}
		case *ssa.ChangeType:
			v = x.X
			continue
		case *ssa.Call:
			if identityCalls[callName(&x.Call)] && len(x.Call.Args) == 1 {
				v = x.Call.Args[0]
				continue
			}
		}
		return v
	}
}

// nonZeroAt proves that integer value v is non-zero whenever block b executes.
// Returns the reason on success.
func nonZeroAt(fn *ssa.Function, v ssa.Value, b *ssa.BasicBlock) (string, bool) {
	if n, ok := constInt(v); ok {
		if n != 0 {
			return "non-zero constant", true
		}
		return "", false
	}
	core := peelSame(v)
	if n, ok := constInt(core); ok && n != 0 {
		return "non-zero constant", true
	}
	// len(array) etc. are not attempted.
	for _, f := range factsAt(b) {
		if ex, isEx := f.Cond.(*ssa.Extract); isEx && !f.Val {
			if why, ok := helperSaysNonZero(ex, core); ok {
				return why, true
			}
		}
		bo, ok := f.Cond.(*ssa.BinOp)
		if !ok {
			continue
		}
		x, y := bo.X, bo.Y
		zx, isZx := constInt(x)
		zy, isZy := constInt(y)
		var subj ssa.Value
		var op token.Token
		switch {
		case isZy && zy == 0:
			subj, op = x, bo.Op
		case isZx && zx == 0:
			subj, op = y, flipOp(bo.Op)
		default:
			continue
		}
		if !sameValue(fn, peelSame(subj), core) {
			// a fact established by the caller of a single-site helper about the same receiver field
			cross := false
			if inlineAware {
				si, ok1 := peelSame(subj).(ssa.Instruction)
				ci, ok2 := core.(ssa.Instruction)
				if ok1 && ok2 && si.Parent() != ci.Parent() {
					if d := describeVal(subj); d == describeVal(core) && (strings.HasPrefix(d, "recv.") || strings.HasPrefix(d, "arg")) {
						cross = true
					}
				}
			}
			if !cross {
				continue
			}
		}
		// subj op 0 holds with polarity f.Val
		switch {
		case op == token.EQL && !f.Val,
			op == token.NEQ && f.Val,
			op == token.GTR && f.Val,
			op == token.LSS && f.Val:
			return "guarded by " + bo.String(), true
		}
	}
	return "", false
}

func flipOp(op token.Token) token.Token {
	switch op {
	case token.LSS:
		return token.GTR
	case token.GTR:
		return token.LSS
	case token.LEQ:
		return token.GEQ
	case token.GEQ:
		return token.LEQ
	}
	return op
}

// intDivisions lists integer / and % instructions of fn.
func intDivisions(fn *ssa.Function) []*ssa.BinOp {
	var out []*ssa.BinOp
	eachInstr(fn, func(i ssa.Instruction) {
		if bo, ok := i.(*ssa.BinOp); ok && (bo.Op == token.QUO || bo.Op == token.REM) && isInteger(bo.Type()) {
			out = append(out, bo)
		}
	})
	return out
}

// inPackageCallees returns the transitive closure of statically-called
// functions (and closures) of the same package, starting from roots.
func inPackageCallees(roots []*ssa.Function) []*ssa.Function {
	seen := map[*ssa.Function]bool{}
	var out []*ssa.Function
	var visit func(fn *ssa.Function)
	visit = func(fn *ssa.Function) {
		if fn == nil || seen[fn] || len(fn.Blocks) == 0 {
			return
		}
		seen[fn] = true
		out = append(out, fn)
		eachInstr(fn, func(i ssa.Instruction) {
			if c, ok := asCall(i); ok {
				if f := c.Common().StaticCallee(); f != nil && f.Pkg != nil && fn.Pkg != nil && f.Pkg == fn.Pkg {
					visit(f)
				}
			}
			if mc, ok := i.(*ssa.MakeClosure); ok {
				if f, ok := mc.Fn.(*ssa.Function); ok {
					visit(f)
				}
			}
		})
	}
	for _, r := range roots {
		visit(r)
	}
	return out
}

// helperSaysNonZero: ex is result k of a call h(x) known to be false here; h returns true in
// position k on the true edge of every `x.F == 0` test it makes, so false means x.F != 0.
func helperSaysNonZero(ex *ssa.Extract, core ssa.Value) (string, bool) {
	call, ok := ex.Tuple.(*ssa.Call)
	if !ok || len(call.Call.Args) == 0 {
		return "", false
	}
	h := call.Call.StaticCallee()
	if h == nil || len(h.Blocks) == 0 || h.Pkg == nil || call.Parent().Pkg != h.Pkg || len(h.Params) == 0 {
		return "", false
	}
	want := describeVal(core)
	argDesc := describeVal(call.Call.Args[0])
	found := false
	eachInstr(h, func(i ssa.Instruction) {
		bo, isBo := i.(*ssa.BinOp)
		if !isBo || bo.Op != token.EQL || found {
			return
		}
		if z, isZ := constInt(bo.Y); !isZ || z != 0 {
			return
		}
		gd := describeVal(bo.X)
		if !strings.HasPrefix(gd, "recv") && !strings.HasPrefix(gd, "arg0") {
			return
		}
		if argDesc+gd[4:] != want {
			return
		}
		ifi := implIf(bo, true, 0)
		if ifi == nil {
			return
		}
		okAll := true
		n := 0
		// the helper's own returns only (not continued into the caller)
		withoutInline(func() {
			for j := range exploreBlock(ifi.Block().Succs[0], nil) {
				if r, isR := j.(*ssa.Return); isR {
					n++
					if v, isC := constBool(r.Results[ex.Index]); !isC || !v {
						okAll = false
					}
				}
			}
		})
		if okAll && n > 0 {
			found = true
		}
	})
	if found {
		return "helper " + shortFn(h) + " reports true whenever " + want + " == 0, and it reported false", true
	}
	return "", false
}
