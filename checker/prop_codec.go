package main

import (
	"fmt"
	"go/constant"
	"go/token"
	"go/types"
	"sort"
	"strings"

	"golang.org/x/tools/go/ssa"
)

func init() {
	register(&propSpec{
		ID:    "C08",
		Title: "Format auto-detection and transcoding never lose, duplicate or alter results",
		Explanation: "DECIDED (typestate and path rules): sniff-and-replay (in DecoderFor the source reader is used only as the source of an io.TeeReader into the one local buffer placed after a reader over the buffer's current contents, or as the element following the buffer in the MultiReader given to the selected factory; never handed to a factory directly; the buffer is never reset) so every byte consumed while sniffing is replayed exactly once; the decoder is returned only on the err == nil edge of the trial decode and built by the same factory that succeeded; fall-through returns nil; the factory list is the fixed literal {gob, JSON, CSV}; decoder(files) appends exactly one decoder and closer per file or returns an error, and a nil from DecoderFor takes the error path; decode loops of encode/report/plot use a fresh zero Result per iteration (gob omits zero fields, the CSV decoder leaves Headers untouched, so a reused struct carries fields over), consume it exactly once on the err == nil edge, end on io.EOF with nil and return any other error; the -to table maps csv/gob/json to their encoders and rejects anything else; gob closures encode/decode their argument directly; transcoding-agreement (shared with C07/C09): the JSON writer/reader tables and the CSV column tables of Result agree field by field with inverse conversions, and the JSON decoder parses only whole, copied, newline-terminated lines. " +
			"NOT DECIDED: that a trial decoder rejects foreign input is library behaviour.",
		Assumptions: []string{"io.TeeReader/io.MultiReader/bytes.Buffer semantics", "gob/CSV/JSON decoders fail on input in another format"},
		MinObs:      30,
		Run:         runC08,
	})
	register(&propSpec{
		ID:    "C09",
		Title: "A truncated result stream decodes to a clean prefix",
		Explanation: "DECIDED (path rules): one whole record per Encode call (CSV: every nil-returning path passes one csv.Writer.Write then Flush and returns the writer's Error; JSON: the only write to the underlying writer is one DumpTo after the record and its '\\n' were appended in memory, nothing is dumped on the error path and the sticky error is never cleared; gob: one Encoder.Encode of the argument); the JSON decoder unmarshals only a line obtained from a copying, newline-terminated read (ReadBytes/ReadString('\\n')) on the err == nil edge; gob decoder decodes straight into the caller's Result (no retained scratch value); callers (encode, report, plot, round-robin) use a decoded Result only on the err == nil edge of the Decode that filled it, with a fresh Result per iteration; the attack command writes each result as it arrives (C02 cli-pump). " +
			"NOT DECIDED: behaviour at each byte offset inside gob length prefixes, CSV quoting and base64 runs is encoding/* behaviour.",
		Assumptions: []string{"encoding/gob frames messages atomically; bufio.Reader.ReadBytes returns an error for an unterminated final line"},
		MinObs:      9,
		Run:         runC09,
	})
	register(&propSpec{
		ID:    "C13",
		Title: "Reports over several files equal the report over their union",
		Explanation: "DECIDED (path rules): round-robin (the closure makes exactly len(dec) attempts per call by ranging over the decoder slice, selects index seq % len(dec), increments seq exactly once per attempt, returns nil immediately on the first successful Decode so no second Decode into the same Result is reachable, returns an error only after the loop i.e. when every input failed in this call, never modifies the decoder slice; the single-decoder shortcut returns that decoder); decoder(files) builds one auto-detected decoder per file and hands exactly that slice to the round-robin; the command loops end only on io.EOF and consume each decoded record exactly once (C08 loop rules); with C10's commutative accumulators the metrics of a union do not depend on the split. " +
			"NOT DECIDED: equality of whole reports for concrete splits; a failed attempt that partly filled the Result before the next decoder's gob decode is a residual risk.",
		Assumptions: []string{"a decoder that returned io.EOF keeps returning io.EOF"},
		MinObs:      17,
		Run:         runC13,
	})
}

// ---------------------------------------------------------------- shared

// decodeSites: the three command loops are not the only place a command may decode. Any other
// function of package main that calls a Decoder (a helper for -every, a background reader) gets
// the same obligations: a reader that hands records over a channel and signals the end of input
// on another one lets the end overtake records still queued.
func decodeSites(c *Ctx, prop string) {
	known := map[*ssa.Function]bool{c.P.Func("", "encode"): true, c.P.Func("", "report"): true, c.P.Func("", "plotRun"): true}
	for _, fn := range c.P.RepoFuncs("") {
		if known[fn] || len(callsNamed(fn, "(lib.Decoder).Decode")) == 0 {
			continue
		}
		decodeLoop(c, prop, fn, "(lib.Encoder).Encode", "invoke:lib.Report.Add", "(*lib/plot.Plot).Add")
	}
}

// decodeLoop checks the generic decode-loop obligations in fn. consumers are the
// call names that take the decoded Result.
func decodeLoop(c *Ctx, prop string, fn *ssa.Function, consumers ...string) {
	const rule = "a decode loop uses a fresh zero Result per iteration, consumes it exactly once and only on the err == nil edge of the Decode that filled it, ends on io.EOF without error and returns any other error"
	key := "decode-loop:" + shortFn(fn)
	if fn == nil {
		c.Undecided(key, rule, "function not found")
		return
	}
	c.Saw("function " + shortFn(fn))
	decs := callsNamed(fn, "(lib.Decoder).Decode")
	if len(decs) != 1 {
		c.Fail(key, rule, fmt.Sprintf("%d Decode calls, want exactly 1", len(decs)), c.fnAt(fn))
		return
	}
	d := decs[0].(*ssa.Call)
	header := loopHeaderOf(d.Block())
	if header == nil {
		c.Fail(key, rule, "Decode is not inside a loop", c.at(d))
		return
	}
	rec := d.Call.Args[1]
	al, ok := rec.(*ssa.Alloc)
	if !ok {
		c.Fail(key, rule, "the Result passed to Decode is not a local variable", c.at(d))
		return
	}
	if loopHeaderOf(al.Block()) != header && !header.Dominates(al.Block()) || loopHeaderOf(al.Block()) == nil {
		c.Fail(key, rule, "the Result is declared outside the loop and reused across records: gob omits zero fields and the CSV/JSON decoders leave absent headers/body untouched, so fields of the previous record leak into the next", c.at(al))
		return
	}
	// the fresh alloc must not be pre-filled
	for _, r := range refs(al) {
		if st, isSt := r.(*ssa.Store); isSt && st.Addr == ssa.Value(al) {
			c.Fail(key, rule, "the Result is pre-filled before Decode", c.at(st))
			return
		}
	}
	// the values that denote this Decode's error
	errVals := errValuesOf(d)
	isErrV := func(v ssa.Value) bool {
		for _, e := range errVals {
			if e == v {
				return true
			}
		}
		return false
	}
	// block classification from dominating facts
	const (
		unknown = iota
		okBlk
		eofBlk
		otherErrBlk
		errBlk
	)
	classify := func(b *ssa.BasicBlock) int {
		nonNil, isNil, isEOF, notEOF := false, false, false, false
		for _, f := range factsAt(b) {
			bo, ok := f.Cond.(*ssa.BinOp)
			if !ok || (bo.Op != token.EQL && bo.Op != token.NEQ) {
				continue
			}
			var other ssa.Value
			switch {
			case isErrV(bo.X):
				other = bo.Y
			case isErrV(bo.Y):
				other = bo.X
			default:
				continue
			}
			eq := (bo.Op == token.EQL) == f.Val
			if k, isC := other.(*ssa.Const); isC && k.Value == nil {
				if eq {
					isNil = true
				} else {
					nonNil = true
				}
				continue
			}
			if ld, isL := isLoad(other); isL {
				if g, isG := ld.X.(*ssa.Global); isG && g.Name() == "EOF" && g.Pkg.Pkg.Path() == "io" {
					if eq {
						isEOF = true
					} else {
						notEOF = true
					}
				}
			}
		}
		switch {
		case isNil:
			return okBlk
		case isEOF:
			return eofBlk
		case nonNil && notEOF:
			return otherErrBlk
		case nonNil:
			return errBlk
		}
		return unknown
	}
	// uses of the record
	var uses []*ssa.Call
	for _, r := range refs(al) {
		call, isCall := r.(*ssa.Call)
		if !isCall || call == d {
			if _, isFA := r.(*ssa.FieldAddr); isFA && classify(r.Block()) != okBlk {
				c.Fail(key, rule, "a field of the record is read before the Decode error is known to be nil", c.at(r))
				return
			}
			continue
		}
		uses = append(uses, call)
	}
	isConsumer := func(i ssa.Instruction) bool {
		for _, u := range uses {
			if i == ssa.Instruction(u) {
				for _, n := range consumers {
					if isCallTo(i, n) {
						return true
					}
				}
			}
		}
		return false
	}
	nCons := 0
	for _, u := range uses {
		if classify(u.Block()) != okBlk {
			c.Fail(key, rule, "the record is used although Decode may have failed (partly filled record)", c.at(u))
			return
		}
		if isConsumer(u) {
			nCons++
		}
	}
	if nCons != 1 {
		c.Fail(key, rule, fmt.Sprintf("the decoded record is consumed at %d sites, want exactly 1 (%v)", nCons, consumers), c.at(d))
		return
	}
	// walking on from the Decode without passing the consumer: the next Decode must be unreachable
	// (a record dropped, or an error swallowed), and every return reached must be on an error path
	set := explore(d, false, isConsumer)
	if set[ssa.Instruction(d)] {
		// which kind?
		why := "a successfully decoded record can be dropped, or a decode error is swallowed and the loop continues (the next Decode is reachable without consuming the record)"
		c.Fail(key, rule, why, c.at(d))
		return
	}
	sawEOF := false
	for i := range set {
		if bo, isBo := i.(*ssa.BinOp); isBo && bo.Op == token.EQL {
			for k, side := range []ssa.Value{bo.X, bo.Y} {
				other := []ssa.Value{bo.Y, bo.X}[k]
				if ld, isL := isLoad(side); isL && isErrV(other) {
					if g, isG := ld.X.(*ssa.Global); isG && g.Name() == "EOF" && g.Pkg.Pkg.Path() == "io" {
						if ifi := trueImpliesIf(bo); ifi != nil && !exploreBlock(ifi.Block().Succs[0], nil)[ssa.Instruction(d)] {
							sawEOF = true
						}
					}
				}
			}
		}
		if r, isR := i.(*ssa.Return); isR {
			switch classify(r.Block()) {
			case okBlk, unknown:
				// the spilled-return blocks after `break` are unknown: accept only if reached through an EOF block
				if !reachedOnlyVia(d, r, func(b *ssa.BasicBlock) bool { k := classify(b); return k == eofBlk || k == otherErrBlk || k == errBlk }, isConsumer) && !onlyViaErrEdges(d, r, isErrV, isConsumer) {
					c.Fail(key, rule, "the loop can end without consuming a successfully decoded record", c.at(r))
					return
				}
			}
		}
	}
	if !sawEOF {
		c.Fail(key, rule, "the loop does not distinguish io.EOF from other errors", c.at(d))
		return
	}
	// a non-EOF error must end the command: from blocks classified otherErr, a return is reached
	for i := range set {
		if classify(i.Block()) == otherErrBlk {
			sub := exploreBlock(i.Block(), nil)
			if len(returnsIn(sub)) == 0 {
				c.Fail(key, rule, "a decode error other than io.EOF does not end the command", c.at(i))
				return
			}
			break
		}
	}
	c.Pass(key, rule, "fresh Result per iteration; one consumer on the ok edge; EOF ends; other errors return", c.at(al), c.at(d))
}

func gobDirect(c *Ctx) {
	const rGob = "the gob encoder/decoder closures encode/decode their argument directly: one gob Encode/Decode per call, its error returned, no retained scratch value"
	for _, w := range []struct{ fn, call string }{{"NewEncoder", "(*encoding/gob.Encoder).Encode"}, {"NewDecoder", "(*encoding/gob.Decoder).Decode"}} {
		f := c.P.Func("lib", w.fn)
		key := "gob-direct:lib." + w.fn
		if returnedClosure(f) == nil {
			c.Undecided(key, rGob, "closure not found")
			continue
		}
		cl := returnedClosure(f)
		c.Saw("function " + shortFn(cl))
		calls := callsNamed(cl, w.call)
		ok := len(calls) == 1
		if ok {
			call := calls[0].(*ssa.Call)
			mi, isMI := call.Call.Args[1].(*ssa.MakeInterface)
			ok = isMI && mi.X == ssa.Value(userParam(cl, 0))
			okRet := false
			eachInstr(cl, func(i ssa.Instruction) {
				if r, isR := i.(*ssa.Return); isR && r.Results[0] == ssa.Value(call) {
					okRet = true
				}
			})
			ok = ok && okRet
			n := 0
			eachInstr(cl, func(i ssa.Instruction) {
				if _, isC := i.(ssa.CallInstruction); isC {
					n++
				}
				if _, isS := i.(*ssa.Store); isS {
					n += 100
				}
			})
			ok = ok && n == 1
		}
		c.Check(ok, key, rGob, "one "+w.call+"(r), result returned", "the gob closure does more than encode/decode its argument (e.g. decodes into a retained scratch value and copies it)", c.fnAt(cl))
	}
}

// errValuesOf returns the SSA values that denote the error result of call:
// the call / its error extract, and loads of a cell it was stored to (before
// the next store to that cell in the same block chain).
func errValuesOf(call *ssa.Call) []ssa.Value {
	errT := types.Universe.Lookup("error").Type()
	var out []ssa.Value
	if types.Identical(call.Type(), errT) {
		out = append(out, call)
	}
	for _, r := range refs(call) {
		if ex, ok := r.(*ssa.Extract); ok && types.Identical(ex.Type(), errT) {
			out = append(out, ex)
		}
	}
	base := append([]ssa.Value{}, out...)
	for _, ev := range base {
		for _, r := range refs(ev) {
			st, ok := r.(*ssa.Store)
			if !ok || st.Val != ev {
				continue
			}
			reach := explore(st, false, func(i ssa.Instruction) bool {
				s2, ok := i.(*ssa.Store)
				return ok && s2.Addr == st.Addr
			})
			for i := range reach {
				if ld, ok := i.(*ssa.UnOp); ok && ld.Op == token.MUL && ld.X == st.Addr {
					out = append(out, ld)
				}
			}
		}
		// φ carrying the error forward
		for _, r := range refs(ev) {
			if phi, ok := r.(*ssa.Phi); ok {
				out = append(out, phi)
			}
		}
	}
	return out
}

// onlyViaErrEdges: every path from the Decode to the return (avoiding consumers)
// takes the true edge of an `err != nil` / `err == io.EOF` test on this error.
func onlyViaErrEdges(d *ssa.Call, to ssa.Instruction, isErrV func(ssa.Value) bool, stop func(ssa.Instruction) bool) bool {
	// remove the error edges: explore where an If on the error is only followed along its "no error" successor
	reached := map[ssa.Instruction]bool{}
	visited := map[*ssa.BasicBlock]bool{}
	var walk func(b *ssa.BasicBlock, from int)
	walk = func(b *ssa.BasicBlock, from int) {
		for k := from; k < len(b.Instrs); k++ {
			i := b.Instrs[k]
			if stop != nil && stop(i) {
				return
			}
			reached[i] = true
		}
		succs := b.Succs
		if len(b.Instrs) > 0 {
			if ifi, ok := b.Instrs[len(b.Instrs)-1].(*ssa.If); ok {
				if bo, ok := ifi.Cond.(*ssa.BinOp); ok && (isErrV(bo.X) || isErrV(bo.Y)) {
					switch bo.Op {
					case token.NEQ: // err != nil / err != io.EOF : follow only the false edge for nil tests
						if k, isC := bo.Y.(*ssa.Const); isC && k.Value == nil {
							succs = b.Succs[1:]
						}
					case token.EQL:
						if k, isC := bo.Y.(*ssa.Const); isC && k.Value == nil {
							succs = b.Succs[:1]
						} else {
							succs = b.Succs[1:] // err == io.EOF: the true edge is an error edge
						}
					}
				}
			}
		}
		for _, s := range succs {
			if !visited[s] {
				visited[s] = true
				walk(s, 0)
			}
		}
	}
	walk(d.Block(), indexIn(d)+1)
	return !reached[to]
}

// reachedOnlyVia: every path from `from` to `to` that avoids `stop` passes a block satisfying via.
func reachedOnlyVia(from, to ssa.Instruction, via func(*ssa.BasicBlock) bool, stop func(ssa.Instruction) bool) bool {
	set := explore(from, false, func(i ssa.Instruction) bool {
		if stop != nil && stop(i) {
			return true
		}
		return via(i.Block()) && i == i.Block().Instrs[0]
	})
	return !set[to]
}

// ---------------------------------------------------------------- C08

func runC08(c *Ctx) {
	c08DecoderFor(c)
	c08DecoderFiles(c)
	decodeLoop(c, "C08", c.P.Func("", "encode"), "(lib.Encoder).Encode")
	decodeLoop(c, "C08", c.P.Func("", "report"), "invoke:lib.Report.Add")
	decodeLoop(c, "C08", c.P.Func("", "plotRun"), "(*lib/plot.Plot).Add")
	decodeSites(c, "C08")
	c08EncodingTable(c)
	c08OutputTruncated(c)
	gobDirect(c)
	// a transcoding chain reproduces the sequence only if each codec pair agrees field by field
	// and the line decoders hand whole, unaliased records to the parser (shared with C07/C09)
	if res := c.P.Named("lib", "Result"); res != nil {
		jsonTables(c, "lib.Result", res, "jsonResult", nil)
		c07CSV(c, res)
	}
	c09JSONDecoder(c)
}

func c08DecoderFor(c *Ctx) {
	withInline(func() { c08DecoderForIn(c) }, c.P.Func("lib", "DecoderFor"))
}

func c08DecoderForIn(c *Ctx) {
	const rule = "DecoderFor uses its reader only as the source of io.TeeReader(r, &buf) placed after a reader over buf's contents, or after buf itself in the MultiReader handed to the chosen factory; buf is never reset; the decoder is returned only when the trial decode succeeded and is built by the factory that succeeded"
	fn := c.P.Func("lib", "DecoderFor")
	key := "sniff-replay:lib.DecoderFor"
	if fn == nil {
		c.Undecided(key, rule, "lib.DecoderFor not found")
		return
	}
	c.Saw("function " + shortFn(fn))
	r := fn.Params[0]
	var buf *ssa.Alloc
	eachInstr(fn, func(i ssa.Instruction) {
		if al, ok := i.(*ssa.Alloc); ok && isNamedType(al.Type(), "bytes", "Buffer") {
			buf = al
		}
	})
	if buf == nil {
		c.Undecided(key, rule, "no local bytes.Buffer: unrecognised sniffing mechanism (a hand-written rewindable reader must be re-verified by hand)", c.fnAt(fn))
		return
	}
	isBufIface := func(v ssa.Value) bool {
		mi, ok := v.(*ssa.MakeInterface)
		return ok && rootVal(mi.X) == ssa.Value(buf)
	}
	isBufBytesReader := func(v ssa.Value) bool {
		mi, ok := v.(*ssa.MakeInterface)
		if !ok {
			return false
		}
		call, ok := mi.X.(*ssa.Call)
		if !ok || callName(&call.Call) != "bytes.NewReader" {
			return false
		}
		b, ok := call.Call.Args[0].(*ssa.Call)
		return ok && callName(&b.Call) == "(*bytes.Buffer).Bytes" && rootVal(b.Call.Args[0]) == ssa.Value(buf)
	}
	// classify every use of r
	type mr struct {
		call  *ssa.Call
		elems []ssa.Value
	}
	var multis []mr
	eachInstrI(fn, func(i ssa.Instruction) {
		if call, ok := i.(*ssa.Call); ok && callName(&call.Call) == "io.MultiReader" {
			if el, ok := sliceElems(call.Call.Args[0]); ok {
				multis = append(multis, mr{call, el})
			} else {
				multis = append(multis, mr{call, nil})
			}
		}
	})
	var tees []*ssa.Call
	problems := []string{}
	// usesOf: the instructions that use v, followed into helpers with a single call site (the
	// helper's parameter stands for v there)
	var usesOf func(v ssa.Value, depth int) []ssa.Instruction
	usesOf = func(v ssa.Value, depth int) []ssa.Instruction {
		var out []ssa.Instruction
		for _, ref := range refs(v) {
			if call, isCall := ref.(*ssa.Call); isCall && depth < 3 {
				if h := call.Call.StaticCallee(); h != nil && singleSite(c.P, h) == call {
					followed := false
					for k, a := range call.Call.Args {
						if a == v && k < len(h.Params) {
							out = append(out, usesOf(h.Params[k], depth+1)...)
							followed = true
						}
					}
					if followed {
						c.Saw("function " + shortFn(h))
						continue
					}
				}
			}
			out = append(out, ref)
		}
		return out
	}
	for _, ref := range usesOf(r, 0) {
		switch x := ref.(type) {
		case *ssa.Call:
			if callName(&x.Call) == "io.TeeReader" && rootVal(x.Call.Args[0]) == ssa.Value(r) && isBufIface(x.Call.Args[1]) {
				tees = append(tees, x)
				continue
			}
			problems = append(problems, "the source reader is passed to "+callName(&x.Call)+" (bytes it consumes are not recorded for replay)")
		case *ssa.Store:
			// must be element 1 of a MultiReader whose element 0 reads the buffer
			okStore := false
			for _, m := range multis {
				if len(m.elems) == 2 && rootVal(m.elems[1]) == ssa.Value(r) && (isBufIface(m.elems[0]) || isBufBytesReader(m.elems[0])) {
					okStore = true
				}
			}
			if !okStore {
				problems = append(problems, "the source reader is stored somewhere other than behind the replay buffer in a MultiReader")
			}
		case *ssa.DebugRef:
		default:
			problems = append(problems, fmt.Sprintf("unrecognised use of the source reader (%T)", ref))
		}
	}
	if len(tees) == 0 {
		problems = append(problems, "no io.TeeReader(r, &buf): bytes consumed by a trial decoder are lost")
	}
	for _, t := range tees {
		okTee := false
		for _, m := range multis {
			if len(m.elems) == 2 && m.elems[1] == ssa.Value(t) && isBufBytesReader(m.elems[0]) {
				okTee = true
			}
		}
		if !okTee {
			problems = append(problems, "the tee is not preceded by a reader over the bytes buffered so far (earlier sniffed bytes are not replayed to the next trial)")
		}
	}
	// buf: only Bytes() and interface conversions
	for _, ref := range usesOf(buf, 0) {
		switch x := ref.(type) {
		case *ssa.Call:
			if n := callName(&x.Call); n != "(*bytes.Buffer).Bytes" {
				problems = append(problems, "the replay buffer is modified with "+n)
			}
		case *ssa.MakeInterface, *ssa.DebugRef:
		default:
			problems = append(problems, fmt.Sprintf("unrecognised use of the replay buffer (%T)", ref))
		}
	}
	// trial decode and return
	var trial *ssa.Call
	eachInstrI(fn, func(i ssa.Instruction) {
		if isCallTo(i, "(lib.Decoder).Decode") {
			trial = i.(*ssa.Call)
		}
	})
	if trial == nil {
		problems = append(problems, "no trial decode")
	} else {
		// factory used for trial
		mk, _ := trial.Call.Args[0].(*ssa.Call)
		var factory ssa.Value
		if mk != nil {
			factory = rootVal(mk.Call.Value)
		}
		// the trial may live in a helper that reports `err == nil`: its call then stands for that test
		var trialOK *ssa.Call
		if trial.Parent() != fn {
			if cs := singleSite(c.P, trial.Parent()); cs != nil && cs.Parent() == fn {
				all, n := true, 0
				eachInstr(trial.Parent(), func(j ssa.Instruction) {
					if rt, isR := j.(*ssa.Return); isR {
						n++
						bo, isBo := rt.Results[0].(*ssa.BinOp)
						if len(rt.Results) != 1 || !isBo || bo.Op != token.EQL || bo.X != ssa.Value(trial) || !isNilConst(bo.Y) {
							all = false
						}
					}
				})
				if all && n > 0 {
					trialOK = cs
				}
			}
		}
		eachInstr(fn, func(i ssa.Instruction) {
			ret, ok := i.(*ssa.Return)
			if !ok {
				return
			}
			if k, isC := ret.Results[0].(*ssa.Const); isC && k.Value == nil {
				return
			}
			// non-nil return: dominated by err == nil of the trial; built by the same factory over MultiReader(&buf, r)
			okDom := false
			for _, f := range factsAt(ret.Block()) {
				if bo, isBo := f.Cond.(*ssa.BinOp); isBo && (bo.Op == token.EQL && f.Val || bo.Op == token.NEQ && !f.Val) && bo.X == ssa.Value(trial) {
					if k, isC := bo.Y.(*ssa.Const); isC && k.Value == nil {
						okDom = true
					}
				}
				if trialOK != nil && f.Cond == ssa.Value(trialOK) && f.Val {
					okDom = true
				}
			}
			if !okDom {
				problems = append(problems, "a decoder is returned although the trial decode did not succeed")
			}
			call, isCall := ret.Results[0].(*ssa.Call)
			if !isCall || factory == nil || call.Call.Value != factory {
				problems = append(problems, "the returned decoder is not built by the factory whose trial succeeded")
				return
			}
			okArg := false
			for _, m := range multis {
				if call.Call.Args[0] == ssa.Value(m.call) && len(m.elems) == 2 && isBufIface(m.elems[0]) && rootVal(m.elems[1]) == ssa.Value(r) {
					okArg = true
				}
			}
			if !okArg {
				problems = append(problems, "the returned decoder does not read buffered-prefix-then-source")
			}
		})
		// the trial decodes into a fresh Result
		if al, isAl := trial.Call.Args[1].(*ssa.Alloc); !isAl || loopHeaderOf(liftBlock(al.Block(), fn)) == nil {
			problems = append(problems, "the trial decode does not use a fresh Result per attempt")
		}
	}
	sort.Strings(problems)
	c.Check(len(problems) == 0, key, rule, "tee-into-buffer and replay discipline holds", strings.Join(problems, "; "), c.fnAt(fn))

	// factory list
	const rF = "the formats tried are the fixed literal {NewDecoder (gob), NewJSONDecoder, NewCSVDecoder}"
	var facts []string
	eachInstr(fn, func(i ssa.Instruction) {
		if ct, ok := i.(*ssa.ChangeType); ok && isNamedType(ct.Type(), "lib", "DecoderFactory") {
			if f, ok := ct.X.(*ssa.Function); ok {
				facts = append(facts, f.Name())
			}
		}
	})
	if len(facts) == 0 {
		// the list as a package-level array or slice literal that is never reassigned
		eachInstr(fn, func(i ssa.Instruction) {
			var g *ssa.Global
			switch x := i.(type) {
			case *ssa.IndexAddr:
				g, _ = x.X.(*ssa.Global)
			case *ssa.UnOp:
				if x.Op == token.MUL {
					g, _ = x.X.(*ssa.Global)
				}
			}
			if g == nil || len(facts) > 0 {
				return
			}
			elemIsFactory := false
			switch t := g.Type().(*types.Pointer).Elem().Underlying().(type) {
			case *types.Array:
				elemIsFactory = isNamedType(t.Elem(), "lib", "DecoderFactory")
			case *types.Slice:
				elemIsFactory = isNamedType(t.Elem(), "lib", "DecoderFactory")
			}
			if !elemIsFactory {
				return
			}
			if lit := globalLiteral(c, g); lit != nil {
				for _, f := range lit.ElemFuncs {
					if f != nil {
						facts = append(facts, f.Name())
					} else {
						facts = append(facts, "?")
					}
				}
			}
		})
	}
	sort.Strings(facts)
	c.Check(strings.Join(facts, ",") == "NewCSVDecoder,NewDecoder,NewJSONDecoder", "factory-list:lib.DecoderFor", rF, strings.Join(facts, ","), "factory list is "+strings.Join(facts, ","), c.fnAt(fn))
}

func c08DecoderFiles(c *Ctx) {
	withInline(func() { c08DecoderFilesIn(c) }, c.P.Func("", "decoder"))
}

func c08DecoderFilesIn(c *Ctx) {
	const rule = "decoder(files): every file either yields an error return or appends exactly one auto-detected decoder and one closer; a nil decoder from DecoderFor takes the error path; the round-robin gets exactly the collected decoders"
	fn := c.P.Func("", "decoder")
	key := "one-decoder-per-file:main.decoder"
	if fn == nil {
		c.Undecided(key, rule, "main.decoder not found")
		return
	}
	c.Saw("function " + shortFn(fn))
	dfs := callsNamedI(fn, "lib.DecoderFor")
	if len(dfs) != 1 {
		c.Fail(key, rule, fmt.Sprintf("%d DecoderFor calls", len(dfs)), c.fnAt(fn))
		return
	}
	df := dfs[0].(*ssa.Call)
	header := loopHeaderOf(liftBlock(df.Block(), fn))
	if header == nil {
		c.Fail(key, rule, "DecoderFor is not called in the loop over files", c.at(df))
		return
	}
	// what is sniffed is the opened input itself: a reader put in between (a buffering, terminating or
	// filtering wrapper) decides what the decoders see — e.g. a final partial JSON line made complete
	{
		v := df.Call.Args[0]
		for k := 0; k < 8; k++ {
			switch x := v.(type) {
			case *ssa.ChangeInterface:
				v = x.X
				continue
			case *ssa.MakeInterface:
				v = x.X
				continue
			case *ssa.Parameter:
				if a := inlineArg(x); a != nil {
					v = a
					continue
				}
			}
			break
		}
		v = helperResult(v)
		okSrc := false
		if ex, isEx := v.(*ssa.Extract); isEx && ex.Index == 0 {
			if oc, isCall := ex.Tuple.(*ssa.Call); isCall && oc.Call.StaticCallee() != nil && oc.Call.StaticCallee() == c.P.Func("", "file") {
				okSrc = true
			}
		}
		if !okSrc {
			c.Fail(key, rule, "DecoderFor is not given the opened input itself but "+describeVal(df.Call.Args[0])+": a reader in between changes what the decoders see (truncated last record, altered bytes)", c.at(df))
			return
		}
	}
	// no input is skipped: from the top of an iteration the next iteration is reached only through DecoderFor
	{
		stopAt := func(i ssa.Instruction) bool {
			if i == ssa.Instruction(df) {
				return true
			}
			if call, isCall := i.(*ssa.Call); isCall {
				if h := call.Call.StaticCallee(); h != nil && curProgram != nil && singleSite(curProgram, h) == call {
					for _, g := range inlinedRegion(curProgram, h) {
						if g == df.Parent() {
							return true
						}
					}
				}
			}
			return false
		}
		for _, succ := range header.Succs {
			if loopHeaderOf(succ) != header && succ != header {
				continue // the loop's exit
			}
			for i := range exploreBlock(succ, stopAt) {
				if i.Block() == header && !stopAt(i) {
					c.Fail(key, rule, "an iteration can go on to the next input without detecting this one: the input is silently left out of the union", c.at(df))
					return
				}
			}
		}
	}
	// nil test
	var nilIf *ssa.If
	nilIsTrue := true
	for _, r := range refs(df) {
		if bo, ok := r.(*ssa.BinOp); ok && (bo.Op == token.EQL || bo.Op == token.NEQ) {
			if k, isC := bo.Y.(*ssa.Const); isC && k.Value == nil {
				nilIf = trueImpliesIf(bo)
				nilIsTrue = bo.Op == token.EQL
			}
		}
	}
	if nilIf == nil {
		c.Fail(key, rule, "the nil result of DecoderFor (unknown encoding) is not tested", c.at(df))
		return
	}
	nilSucc, okSucc := nilIf.Block().Succs[0], nilIf.Block().Succs[1]
	if !nilIsTrue {
		nilSucc, okSucc = okSucc, nilSucc
	}
	setNil := exploreBlock(nilSucc, nil)
	badNil := len(returnsIn(setNil)) == 0
	for i := range setNil {
		if i.Block() == header {
			badNil = true
		}
	}
	for _, ret := range returnsIn(setNil) {
		res := ret.(*ssa.Return).Results
		if k, isC := res[len(res)-1].(*ssa.Const); isC && k.Value == nil {
			badNil = true
		}
	}
	if badNil {
		c.Fail(key, rule, "an undetectable encoding does not end with an error (the file would be skipped or a nil decoder used)", c.at(nilIf))
		return
	}
	// ok edge: append(decs, df) exactly once before the next iteration
	var appendDec, notOnly *ssa.Call
	nApp := 0
	eachInstr(fn, func(i ssa.Instruction) {
		if call, ok := i.(*ssa.Call); ok && callName(&call.Call) == "builtin:append" {
			if el, ok := sliceElems(call.Call.Args[1]); ok && len(el) == 1 && (el[0] == ssa.Value(df) || flowsFrom(el[0], func(v ssa.Value) bool { return v == ssa.Value(df) })) {
				appendDec = call
				nApp++
				// and nothing but the auto-detected decoder: a decoder picked another way (by file name) on
				// some path is not the one the content calls for
				var only func(v ssa.Value, d int) bool
				only = func(v ssa.Value, d int) bool {
					if d > 8 {
						return false
					}
					v = helperResult(v)
					if v == ssa.Value(df) || isNilConst(v) {
						return true
					}
					if phi, isPhi := v.(*ssa.Phi); isPhi {
						for _, e := range phi.Edges {
							if !only(e, d+1) {
								return false
							}
						}
						return true
					}
					// result of a single-site helper: every return of it
					var hc *ssa.Call
					idx := 0
					switch x := v.(type) {
					case *ssa.Extract:
						hc, _ = x.Tuple.(*ssa.Call)
						idx = x.Index
					case *ssa.Call:
						hc = x
					}
					if hc != nil && curProgram != nil {
						if h := hc.Call.StaticCallee(); h != nil && len(h.Blocks) > 0 && singleSite(curProgram, h) == hc {
							okAll, n := true, 0
							eachInstr(h, func(i ssa.Instruction) {
								if r, isR := i.(*ssa.Return); isR && idx < len(r.Results) {
									n++
									if !only(r.Results[idx], d+1) {
										okAll = false
									}
								}
							})
							return okAll && n > 0
						}
					}
					return false
				}
				if !only(el[0], 0) {
					notOnly = call
				}
			}
		}
	})
	if notOnly != nil {
		c.Fail(key, rule, "the decoder kept for a file is not on every path the one DecoderFor detected from its content", c.at(notOnly))
		return
	}
	if nApp != 1 || setNil[ssa.Instruction(appendDec)] || !exploreBlock(okSucc, nil)[ssa.Instruction(appendDec)] {
		c.Fail(key, rule, "the detected decoder is not appended exactly once on the success edge", c.at(df))
		return
	}
	set := exploreBlock(okSucc, func(i ssa.Instruction) bool { return i == ssa.Instruction(appendDec) })
	for i := range set {
		if i.Block() == header {
			c.Fail(key, rule, "an iteration can finish without keeping the file's decoder", c.at(df))
			return
		}
	}
	// round robin gets the φ of appended slices
	rr := callsNamed(fn, "lib.NewRoundRobinDecoder")
	okRR := len(rr) == 1
	if okRR {
		arg := rr[0].(*ssa.Call).Call.Args[0]
		okRR = flowsFrom(arg, func(v ssa.Value) bool { return v == ssa.Value(appendDec) })
	}
	if !okRR {
		c.Fail(key, rule, "NewRoundRobinDecoder is not given the collected decoders", c.fnAt(fn))
		return
	}
	c.Pass(key, rule, "one decoder per file; nil → error", c.at(df), c.at(appendDec))
}

// c08OutputTruncated: `encode -output FILE` (and every other command's -output) replaces the file:
// it is created with os.Create, or opened with O_TRUNC. Without truncation a shorter stream written
// over a longer file keeps the old tail, which decodes as garbage or extra records.
func c08OutputTruncated(c *Ctx) {
	const rule = "output files are opened with os.Create or os.OpenFile(…|O_CREATE|O_TRUNC…): what a command writes is the whole content of its output file"
	fn := c.P.Func("", "file")
	key := "output-truncated:main.file"
	if fn == nil {
		c.Undecided(key, rule, "main.file not found")
		return
	}
	c.Saw("function " + shortFn(fn))
	trunc := int64(-1)
	if osPkg := c.P.SSA.ImportedPackage("os"); osPkg != nil {
		if k, ok := osPkg.Members["O_TRUNC"].(*ssa.NamedConst); ok {
			if v, isInt := constant.Int64Val(k.Value.Value); isInt {
				trunc = v
			}
		}
	}
	nCreate, nOpenFile := 0, 0
	var bad []ssa.Instruction
	eachInstr(fn, func(i ssa.Instruction) {
		call, ok := i.(*ssa.Call)
		if !ok {
			return
		}
		switch callName(&call.Call) {
		case "os.Create":
			nCreate++
		case "os.OpenFile":
			flags, isK := constInt(call.Call.Args[1])
			if !isK || trunc < 0 {
				bad = append(bad, call)
				return
			}
			writable := flags&3 != 0 // O_WRONLY or O_RDWR
			if writable {
				nOpenFile++
				if flags&trunc == 0 {
					bad = append(bad, call)
				}
			}
		}
	})
	switch {
	case len(bad) > 0:
		c.Fail(key, rule, "an output file is opened for writing without O_TRUNC: a shorter result stream written over an existing longer file keeps the old tail", c.ats(bad)...)
	case nCreate+nOpenFile == 0:
		c.Undecided(key, rule, "main.file neither calls os.Create nor os.OpenFile for writing", c.fnAt(fn))
	default:
		c.Pass(key, rule, fmt.Sprintf("%d os.Create, %d truncating os.OpenFile", nCreate, nOpenFile), c.fnAt(fn))
	}
}

func c08EncodingTable(c *Ctx) {
	const rule = "encode -to: \"csv\"→NewCSVEncoder, \"gob\"→NewEncoder, \"json\"→NewJSONEncoder, anything else → error"
	fn := c.P.Func("", "encode")
	key := "encoding-table:main.encode"
	if fn == nil {
		c.Undecided(key, rule, "main.encode not found")
		return
	}
	want := map[string]string{"csv": "lib.NewCSVEncoder", "gob": "lib.NewEncoder", "json": "lib.NewJSONEncoder"}
	got := map[string]string{}
	var lastIf *ssa.If
	toParam := ssa.Value(fn.Params[1])
	for _, f := range region(fn) {
		if f != fn && !onlyCalledFrom(c, f, fn) {
			continue
		}
		eachInstr(f, func(i ssa.Instruction) {
			bo, ok := i.(*ssa.BinOp)
			if !ok || bo.Op != token.EQL {
				return
			}
			if !paramReaches(c, bo.X, toParam) {
				return
			}
			k, isS := constString(bo.Y)
			if !isS {
				return
			}
			ifi := trueImpliesIf(bo)
			if ifi == nil {
				return
			}
			if lastIf == nil || instrDominates(lastIf, ifi) {
				lastIf = ifi
			}
			for _, ins := range ifi.Block().Succs[0].Instrs {
				if call, ok := ins.(*ssa.Call); ok && strings.HasPrefix(callName(&call.Call), "lib.New") {
					got[k] = callName(&call.Call)
				}
			}
		})
	}
	// table form: `ctor, ok := encoders[to]; if !ok { return error }; enc := ctor(out)` with a
	// package-level map literal from encoding name to constructor
	tableForm := false
	for _, tf := range region(fn) {
		if len(got) != 0 && !tableForm {
			break
		}
		if tf != fn && !onlyCalledFrom(c, tf, fn) {
			continue
		}
		eachInstr(tf, func(i ssa.Instruction) {
			lk, ok := i.(*ssa.Lookup)
			if !ok || !lk.CommaOk || !paramReaches(c, lk.Index, toParam) {
				return
			}
			lit := globalLiteral(c, loadedGlobal(lk.X))
			if lit == nil {
				return
			}
			for k, f := range lit.Funcs {
				if f.Pkg() != nil {
					got[k] = "lib." + f.Name()
					if f.Pkg().Path() != pkgPath("lib") {
						got[k] = f.Pkg().Path() + "." + f.Name()
					}
				}
			}
			// the miss is rejected, and the constructor found is the one called on the output
			var okEx, ctorEx ssa.Value
			for _, r := range refs(lk) {
				if ex, isEx := r.(*ssa.Extract); isEx {
					if ex.Index == 1 {
						okEx = ex
					} else {
						ctorEx = ex
					}
				}
			}
			if okEx == nil || ctorEx == nil {
				return
			}
			ifi := trueImpliesIf(okEx)
			if ifi == nil {
				return
			}
			miss := exploreBlock(ifi.Block().Succs[1], nil)
			rejected := len(returnsIn(miss)) > 0 && len(callsInSet(miss, "fmt.Errorf")) > 0
			called := false
			for _, r := range refs(ctorEx) {
				if call, isCall := r.(*ssa.Call); isCall && call.Call.Value == ctorEx {
					called = true
					if miss[ssa.Instruction(call)] {
						rejected = false
					}
				}
			}
			if rejected && called {
				tableForm = true
			}
		})
	}
	var diffs []string
	if len(got) > 0 && lastIf == nil && !tableForm {
		diffs = append(diffs, "an unknown encoding is not rejected (or the constructor looked up is not the one used)")
	}
	for k, w := range want {
		if got[k] != w {
			diffs = append(diffs, fmt.Sprintf("%q → %s (want %s)", k, got[k], w))
		}
	}
	for k := range got {
		if _, ok := want[k]; !ok {
			diffs = append(diffs, "unexpected encoding "+k)
		}
	}
	if lastIf != nil && len(diffs) == 0 {
		// default: the chain's final false edge returns an error
		last := lastIf
		for {
			nxt := last.Block().Succs[1]
			if ifi, ok := nxt.Instrs[len(nxt.Instrs)-1].(*ssa.If); ok && len(nxt.Instrs) <= 3 {
				last = ifi
				continue
			}
			break
		}
		set := exploreBlock(last.Block().Succs[1], nil)
		if len(returnsIn(set)) == 0 || len(callsInSet(set, "fmt.Errorf")) == 0 {
			diffs = append(diffs, "an unknown encoding is not rejected")
		}
	}
	sort.Strings(diffs)
	c.Check(len(diffs) == 0 && len(got) == 3, key, rule, "csv/gob/json mapped; default rejected", strings.Join(diffs, "; "), c.fnAt(fn))
}

func callsInSet(set map[ssa.Instruction]bool, name string) []ssa.Instruction {
	var out []ssa.Instruction
	for i := range set {
		if isCallTo(i, name) {
			out = append(out, i)
		}
	}
	return out
}

// ---------------------------------------------------------------- C09

func runC09(c *Ctx) {
	c09CSVEncoder(c)
	c09JSONEncoder(c)
	gobDirect(c)
	c09JSONDecoder(c)
	c08DecoderFor(c) // the commands reach every decoder through DecoderFor: what it replays is what gets decoded
	c08DecoderFiles(c) // and DecoderFor is given the opened input itself: no reader in between completes a cut record
	decodeLoop(c, "C09", c.P.Func("", "encode"), "(lib.Encoder).Encode")
	decodeLoop(c, "C09", c.P.Func("", "report"), "invoke:lib.Report.Add")
	decodeLoop(c, "C09", c.P.Func("", "plotRun"), "(*lib/plot.Plot).Add")
	decodeSites(c, "C09")
	c13RoundRobin(c)
	c02Pump(c)
}

func c09CSVEncoder(c *Ctx) {
	const rule = "the CSV encoder writes one record per call and flushes it before returning success: every nil-returning path passes csv.Writer.Write once, then Flush, and returns the writer's Error()"
	outer := c.P.Func("lib", "NewCSVEncoder")
	key := "one-record-per-call:lib.NewCSVEncoder"
	if returnedClosure(outer) == nil {
		c.Undecided(key, rule, "closure not found")
		return
	}
	fn := returnedClosure(outer)
	c.Saw("function " + shortFn(fn))
	ws := callsNamed(fn, "(*encoding/csv.Writer).Write")
	fl := callsNamed(fn, "(*encoding/csv.Writer).Flush")
	if len(ws) != 1 || len(fl) != 1 {
		c.Fail(key, rule, fmt.Sprintf("%d Write and %d Flush calls per Encode, want 1 and 1", len(ws), len(fl)), c.fnAt(fn))
		return
	}
	w, f := ws[0].(*ssa.Call), fl[0].(*ssa.Call)
	ifErr := errNotNilIf(w, w)
	ok := ifErr != nil && instrDominates(w, f)
	why := "the Write error is not checked before flushing"
	if ok {
		// success edge must pass Flush before returning
		set := exploreBlock(ifErr.Block().Succs[1], func(i ssa.Instruction) bool { return i == ssa.Instruction(f) })
		if len(returnsIn(set)) > 0 {
			ok, why = false, "a record can be left in the writer's buffer (return without Flush): a later kill loses or splits it"
		}
		if len(factsAt(f.Block())) > 1 {
			ok, why = false, "Flush is conditional (records are batched)"
		}
	}
	if ok {
		// returns after Flush yield enc.Error()
		set := explore(f, false, nil)
		for _, r := range returnsIn(set) {
			call, isCall := r.(*ssa.Return).Results[0].(*ssa.Call)
			if !isCall || callName(&call.Call) != "(*encoding/csv.Writer).Error" {
				ok, why = false, "a flush error is not reported"
			}
		}
	}
	// writer created once in the constructor over the destination
	c.Check(ok, key, rule, "Write → Flush → Error()", why, c.at(w), c.at(f))
}

func c09JSONEncoder(c *Ctx) {
	const rule = "the JSON encoder emits one complete line per call in a single write: the record and its '\\n' are appended to the in-memory jwriter, then exactly one DumpTo writes them; on a marshal error nothing is dumped and the sticky error is left in place (fail-stop)"
	outer := c.P.Func("lib", "NewJSONEncoder")
	key := "one-record-per-call:lib.NewJSONEncoder"
	if returnedClosure(outer) == nil {
		c.Undecided(key, rule, "closure not found")
		return
	}
	fn := returnedClosure(outer)
	c.Saw("function " + shortFn(fn))
	dumps := callsNamed(fn, "(*github.com/mailru/easyjson/jwriter.Writer).DumpTo")
	marsh := callsNamed(fn, "(lib.jsonResult).MarshalEasyJSON", "(*lib.jsonResult).MarshalEasyJSON")
	nl := findInstrs(fn, func(i ssa.Instruction) bool {
		call, ok := i.(*ssa.Call)
		if !ok || callName(&call.Call) != "(*github.com/mailru/easyjson/jwriter.Writer).RawByte" {
			return false
		}
		b, ok := constInt(call.Call.Args[1])
		return ok && b == '\n'
	})
	if len(dumps) != 1 || len(marsh) != 1 || len(nl) != 1 {
		c.Fail(key, rule, fmt.Sprintf("%d DumpTo, %d MarshalEasyJSON, %d newline appends; want 1/1/1", len(dumps), len(marsh), len(nl)), c.fnAt(fn))
		return
	}
	d, m, n := dumps[0], marsh[0], nl[0]
	ok := instrDominates(m, n) && instrDominates(n, d)
	why := "marshal, newline and dump are not in this order"
	// error edge
	var errIf *ssa.If
	eachInstr(fn, func(i ssa.Instruction) {
		if bo, isBo := i.(*ssa.BinOp); isBo && bo.Op == token.NEQ && isJWriterError(bo.X) {
			errIf = trueImpliesIf(bo)
		}
	})
	if ok && errIf == nil {
		ok, why = false, "jw.Error is not checked after marshalling"
	}
	if ok {
		set := exploreBlock(errIf.Block().Succs[0], nil)
		if set[d] {
			ok, why = false, "a partly marshalled record is dumped on the error path"
		}
		if !edgeDominates(errIf.Block(), 1, d.Block()) || !instrDominates(m, errIf) {
			ok, why = false, "DumpTo is not confined to the no-error edge"
		}
	}
	if ok {
		// no store to the jwriter's fields (clearing the sticky error leaves the broken bytes buffered)
		eachInstr(fn, func(i ssa.Instruction) {
			if st, isSt := i.(*ssa.Store); isSt {
				if fa, isFA := st.Addr.(*ssa.FieldAddr); isFA && isNamedType(fa.X.Type(), "github.com/mailru/easyjson/jwriter", "Writer") {
					ok, why = false, "the jwriter's "+fieldName(fa.X.Type(), fa.Field)+" is overwritten: a failed record's bytes stay buffered and are written with the next record"
				}
			}
		})
	}
	if ok {
		// the destination writer is used only by DumpTo
		eachInstr(fn, func(i ssa.Instruction) {
			if call, isCall := i.(ssa.CallInstruction); isCall && i != d {
				for _, a := range call.Common().Args {
					if a.Type().String() == "io.Writer" {
						ok, why = false, "the destination is written by more than the single DumpTo"
					}
				}
				if call.Common().IsInvoke() && call.Common().Method.Name() == "Write" {
					ok, why = false, "the destination is written by more than the single DumpTo"
				}
			}
		})
	}
	c.Check(ok, key, rule, "marshal → '\\n' → one DumpTo; error path dumps nothing", why, c.at(m), c.at(d))
}

func c09JSONDecoder(c *Ctx) {
	const rule = "the JSON decoder unmarshals only a complete line: the bytes come from a copying newline-terminated read (ReadBytes/ReadString('\\n'), not ReadSlice/ReadLine whose result aliases the reader's buffer) and unmarshalling happens only on that read's err == nil edge"
	outer := c.P.Func("lib", "NewJSONDecoder")
	key := "complete-lines:lib.NewJSONDecoder"
	if returnedClosure(outer) == nil {
		c.Undecided(key, rule, "closure not found")
		return
	}
	fn := returnedClosure(outer)
	c.Saw("function " + shortFn(fn))
	um := callsNamed(fn, "(*lib.jsonResult).UnmarshalEasyJSON")
	if len(um) != 1 {
		c.Fail(key, rule, fmt.Sprintf("%d UnmarshalEasyJSON calls", len(um)), c.fnAt(fn))
		return
	}
	var reads []*ssa.Call
	for _, f := range inPackageCallees([]*ssa.Function{fn}) {
		eachInstr(f, func(i ssa.Instruction) {
			if call, ok := i.(*ssa.Call); ok && strings.HasPrefix(callName(&call.Call), "(*bufio.Reader).") {
				reads = append(reads, call)
			}
		})
	}
	ok := len(reads) == 1
	why := fmt.Sprintf("%d bufio.Reader calls (a helper with several read strategies is not a recognised shape)", len(reads))
	if len(reads) == 0 {
		for _, f := range inPackageCallees([]*ssa.Function{fn}) {
			if len(callsNamed(f, "(*bufio.Scanner).Scan")) > 0 {
				why = "lines are framed with bufio.Scanner: it refuses lines above its token limit (64 KiB unless raised; records with large bodies are lost together with everything after them) and hands out an unterminated last line as if it were complete"
			}
		}
	}
	if ok {
		rd := reads[0]
		n := callName(&rd.Call)
		switch n {
		case "(*bufio.Reader).ReadBytes", "(*bufio.Reader).ReadString":
			if b, isB := constInt(rd.Call.Args[1]); !isB || b != '\n' {
				ok, why = false, "the line delimiter is not '\\n'"
			}
		default:
			ok, why = false, n+" returns a view into the reader's buffer / partial lines"
		}
		if ok {
			ifErr := errNotNilIf(rd, rd)
			if ifErr == nil || !edgeDominates(ifErr.Block(), 1, um[0].Block()) {
				ok, why = false, "an unterminated or failed line read is still unmarshalled (a cut record would be returned partly filled)"
			}
		}
		if ok && rd.Parent() != fn {
			ok, why = false, "the read happens in a helper"
		}
	}
	// the lexer is used as is: only its input is set. With UseMultipleErrors wrong token kinds and
	// out-of-range numbers become non-fatal errors that Error() does not report, so foreign JSON
	// ("[1,2,3]", "42") would decode "successfully" into a zero Result.
	if ok {
		eachInstr(fn, func(i ssa.Instruction) {
			st, isSt := i.(*ssa.Store)
			if !isSt {
				return
			}
			fa, isFA := st.Addr.(*ssa.FieldAddr)
			if !isFA || !isNamedType(fa.X.Type(), "github.com/mailru/easyjson/jlexer", "Lexer") {
				return
			}
			if f := fieldName(fa.X.Type(), fa.Field); f != "Data" {
				if cb, isC := constBool(st.Val); !(isC && !cb) {
					ok, why = false, "the lexer's "+f+" option is set: errors it downgrades to non-fatal are not returned by Error(), so input in another shape is accepted as a (zero) record"
				}
			}
		})
	}
	// returns jl.Error()
	if ok {
		okRet := false
		set := explore(um[0], false, nil)
		for _, r := range returnsIn(set) {
			if call, isCall := r.(*ssa.Return).Results[0].(*ssa.Call); isCall && strings.HasSuffix(callName(&call.Call), "jlexer.Lexer).Error") {
				okRet = true
			} else {
				okRet = false
				break
			}
		}
		if !okRet {
			ok, why = false, "the lexer's error is not returned"
		}
	}
	c.Check(ok, key, rule, "ReadBytes('\\n') ok-edge → unmarshal → lexer error", why, c.fnAt(fn))
}

// ---------------------------------------------------------------- C13

func runC13(c *Ctx) {
	c13RoundRobin(c)
	c08DecoderFiles(c)
	// "every record of every input, whatever their lengths and encodings": the per-format decoders
	// must read whole records of any size and detection must not depend on a fixed window
	c09JSONDecoder(c)
	c08DecoderFor(c)
	decodeLoop(c, "C13", c.P.Func("", "encode"), "(lib.Encoder).Encode")
	decodeLoop(c, "C13", c.P.Func("", "report"), "invoke:lib.Report.Add")
	decodeLoop(c, "C13", c.P.Func("", "plotRun"), "(*lib/plot.Plot).Add")
	decodeSites(c, "C13")
	// union independence needs commutative accumulators
	if mAdd, lAdd := c.P.Func("lib", "Metrics.Add"), c.P.Func("lib", "LatencyMetrics.Add"); mAdd != nil && lAdd != nil {
		runC10Accumulators(c)
	}
}

func runC10Accumulators(c *Ctx) {
	mAdd := c.P.Func("lib", "Metrics.Add")
	lAdd := c.P.Func("lib", "LatencyMetrics.Add")
	c10Accumulators(c, mAdd, c10MetricsTable)
	c10Accumulators(c, lAdd, c10LatencyTable)
}

func c13RoundRobin(c *Ctx) {
	const rule = "the round-robin decoder makes len(dec) attempts per call, each at index seq % len(dec) with seq incremented exactly once per attempt, returns nil at the first successful Decode (no further Decode into the same Result), returns the last error only after the loop, and never modifies the decoder slice; with one decoder it returns that decoder"
	outer := c.P.Func("lib", "NewRoundRobinDecoder")
	key := "round-robin:lib.NewRoundRobinDecoder"
	if returnedClosure(outer) == nil {
		c.Undecided(key, rule, "closure not found")
		return
	}
	fn := returnedClosure(outer)
	c.Saw("function " + shortFn(fn))
	decs := callsNamed(fn, "(lib.Decoder).Decode")
	if len(decs) != 1 {
		c.Fail(key, rule, fmt.Sprintf("%d Decode calls in the closure", len(decs)), c.fnAt(fn))
		return
	}
	d := decs[0].(*ssa.Call)
	header := loopHeaderOf(d.Block())
	ok := header != nil
	why := "Decode is not inside the attempt loop"
	isDecSlice := func(v ssa.Value) bool {
		cell := loadedCell(v)
		if fa, isFA := cell.(*ssa.FieldAddr); isFA {
			// struct form: the field the constructor fills from its decoder-list parameter
			found := false
			eachInstr(outer, func(i ssa.Instruction) {
				if st, isSt := i.(*ssa.Store); isSt {
					if f2, isF2 := st.Addr.(*ssa.FieldAddr); isF2 && f2.Field == fa.Field && types.Identical(f2.X.Type(), fa.X.Type()) {
						if p, isP := st.Val.(*ssa.Parameter); isP && p.Parent() == outer {
							found = true
						}
					}
				}
			})
			return found
		}
		al, isAl := cell.(*ssa.Alloc)
		if !isAl {
			return false
		}
		return al.Parent() == outer && paramOfCell(v) != nil || func() bool {
			for _, r := range refs(al) {
				if st, isSt := r.(*ssa.Store); isSt && st.Addr == ssa.Value(al) {
					if p, isP := st.Val.(*ssa.Parameter); isP && p.Parent() == outer {
						return true
					}
				}
			}
			return false
		}()
	}
	if ok {
		// loop bound: range index < len(dec)
		okBound := false
		for _, i := range header.Instrs {
			if bo, isBo := i.(*ssa.BinOp); isBo && bo.Op == token.LSS && isRangeIndex(bo.X) && lenOf(bo.Y, isDecSlice) {
				okBound = true
			}
		}
		if !okBound {
			ok, why = false, "the number of attempts per call is not len(dec) (the loop is not a range over the decoder slice)"
		}
	}
	if ok && d.Call.Args[len(d.Call.Args)-1] != ssa.Value(userParam(fn, 0)) {
		// gob omits zero fields and the CSV/JSON decoders leave absent ones untouched: a retained
		// scratch value carries fields over from the previous record (usually of another input)
		ok, why = false, "the selected decoder does not decode straight into the caller's Result ("+describeVal(d.Call.Args[len(d.Call.Args)-1])+"): a retained scratch value carries fields over between inputs"
	}
	var seqCell ssa.Value
	if ok {
		// decoder selected: dec[seq % len(dec)]
		sel, isL := isLoad(d.Call.Args[0])
		var ia *ssa.IndexAddr
		if isL {
			ia, _ = sel.X.(*ssa.IndexAddr)
		}
		if ia == nil || !isDecSlice(ia.X) {
			ok, why = false, "the decoder tried is not an element of the decoder slice"
		} else {
			rem, isRem := stripConv(ia.Index).(*ssa.BinOp)
			if !isRem || rem.Op != token.REM || !lenOf(stripConv(rem.Y), isDecSlice) {
				ok, why = false, "the index is not seq % len(dec)"
			} else if seqCell = loadedCell(rem.X); seqCell == nil {
				ok, why = false, "the rotation counter is not a captured variable"
			}
		}
	}
	if ok {
		// seq incremented exactly once per attempt, unconditionally in the body
		var stores []*ssa.Store
		eachInstr(fn, func(i ssa.Instruction) {
			if st, isSt := i.(*ssa.Store); isSt && rootCell(st.Addr) == seqCell {
				stores = append(stores, st)
			}
		})
		if len(stores) != 1 {
			ok, why = false, fmt.Sprintf("the rotation counter is written at %d sites, want 1", len(stores))
		} else {
			st := stores[0]
			bo, isBo := st.Val.(*ssa.BinOp)
			one := int64(0)
			if isBo {
				one, _ = constInt(bo.Y)
			}
			if !isBo || bo.Op != token.ADD || one != 1 || loadedCell(bo.X) != seqCell {
				ok, why = false, "the rotation counter is not incremented by one"
			} else if st.Block() != d.Block() && !(st.Block().Dominates(d.Block()) && loopHeaderOf(st.Block()) == header) {
				ok, why = false, "the rotation counter advances only on some outcomes (a finished input would be retried forever and block the others)"
			}
		}
	}
	if ok {
		onErr, onOK, ifErr := errEdges(d)
		if ifErr == nil {
			ok, why = false, "the Decode error is not tested"
		} else {
			// success: returns nil at once
			set := exploreBlock(onOK, nil)
			if set[ssa.Instruction(d)] {
				ok, why = false, "after a successful Decode the loop decodes again into the same Result"
			}
			for _, r := range returnsIn(set) {
				if k, isC := r.(*ssa.Return).Results[0].(*ssa.Const); !isC || k.Value != nil {
					ok, why = false, "a successful Decode does not return nil"
				}
			}
			// failure: continue to the next attempt (no return inside the loop)
			setE := exploreBlock(onErr, func(i ssa.Instruction) bool { return i.Block() == header })
			if len(returnsIn(setE)) > 0 {
				ok, why = false, "the first failing input ends the call although others may still have records"
			}
		}
	}
	if ok {
		// no modification of the decoder slice
		eachInstr(fn, func(i ssa.Instruction) {
			if st, isSt := i.(*ssa.Store); isSt {
				if fv, isFV := st.Addr.(*ssa.FreeVar); isFV && isDecSlice(&ssa.UnOp{Op: token.MUL, X: fv}) {
					ok, why = false, "the decoder slice is modified while rotating"
				}
				if ia, isIA := st.Addr.(*ssa.IndexAddr); isIA && isDecSlice(ia.X) {
					ok, why = false, "the decoder slice is modified while rotating"
				}
				if cell := rootCell(st.Addr); cell != nil && cell != seqCell {
					if al, isAl := cell.(*ssa.Alloc); isAl && al.Parent() == outer && al != seqCell {
						ok, why = false, "captured state other than the rotation counter is modified (e.g. the decoder slice shrinks while it is being ranged over)"
					}
					if fa, isFA := cell.(*ssa.FieldAddr); isFA && fa.X == ssa.Value(fn.Params[0]) && fn.Signature.Recv() != nil {
						ok, why = false, "decoder state other than the rotation counter is modified (e.g. the decoder slice shrinks while it is being ranged over)"
					}
				}
			}
		})
	}
	c.Check(ok, key, rule, "len(dec) attempts, seq%len, seq++ per attempt, nil on first success, error after the loop", why, c.at(d))

	// shortcut
	const rS = "with exactly one decoder NewRoundRobinDecoder returns that decoder unchanged"
	okS := false
	eachInstr(outer, func(i ssa.Instruction) {
		if r, isR := i.(*ssa.Return); isR {
			if ld, isL := isLoad(r.Results[0]); isL {
				if ia, isIA := ld.X.(*ssa.IndexAddr); isIA {
					if z, isZ := constInt(ia.Index); isZ && z == 0 {
						for _, f := range factsAt(r.Block()) {
							if bo, isBo := f.Cond.(*ssa.BinOp); isBo && bo.Op == token.EQL && f.Val {
								if one, isOne := constInt(bo.Y); isOne && one == 1 {
									okS = true
								}
							}
						}
					}
				}
			}
		}
	})
	c.Check(okS, "round-robin-single:lib.NewRoundRobinDecoder", rS, "len(dec) == 1 → dec[0]", "the single-decoder shortcut is missing or guarded differently", c.fnAt(outer))
	_ = types.Typ
}

func isJWriterError(v ssa.Value) bool {
	ld, ok := isLoad(v)
	if !ok {
		return false
	}
	fa, ok := ld.X.(*ssa.FieldAddr)
	return ok && isNamedType(fa.X.Type(), "github.com/mailru/easyjson/jwriter", "Writer") && fieldName(fa.X.Type(), fa.Field) == "Error"
}
