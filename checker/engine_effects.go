package main

import (
	"go/token"
	"go/types"
	"sort"

	"golang.org/x/tools/go/ssa"
)

// fieldKey identifies a struct field type-wise: "lib.Metrics.Rate".
func fieldKeyOf(structT types.Type, idx int) string {
	t := structT
	if p, ok := t.Underlying().(*types.Pointer); ok {
		t = p.Elem()
	}
	name := shortType(t)
	return name + "." + fieldName(t, idx)
}

type effects struct {
	reads, writes map[string][]ssa.Instruction
}

func newEffects() *effects {
	return &effects{reads: map[string][]ssa.Instruction{}, writes: map[string][]ssa.Instruction{}}
}

// directEffects collects the struct fields a function reads and writes
// through FieldAddr/Field (type-based, field-sensitive, flow-insensitive).
// A whole-struct load counts as reading every field unless it is only passed
// to in-package static callees (whose own effects then account for it).
func directEffects(fn *ssa.Function) *effects {
	e := newEffects()
	// addresses parked in a literal table that a loop only stores through are plain writes
	slotWrites := map[*ssa.Store][]ssa.Instruction{}
	for _, vs := range tableStores(fn) {
		slotWrites[vs.Slot] = append(slotWrites[vs.Slot], vs.Store)
	}
	eachInstr(fn, func(i ssa.Instruction) {
		switch x := i.(type) {
		case *ssa.FieldAddr:
			k := fieldKeyOf(x.X.Type(), x.Field)
			_, fresh := x.X.(*ssa.Alloc) // initialising a freshly allocated object is not an effect on shared state
			for _, r := range refs(x) {
				if st, isStore := r.(*ssa.Store); isStore && fresh && st.Addr == ssa.Value(x) {
					continue
				}
				switch y := r.(type) {
				case *ssa.Store:
					if y.Addr == ssa.Value(x) {
						e.writes[k] = append(e.writes[k], y)
					} else if ws := slotWrites[y]; len(ws) > 0 {
						e.writes[k] = append(e.writes[k], ws...)
					} else {
						e.reads[k] = append(e.reads[k], y) // address stored somewhere: treat as read+write
						e.writes[k] = append(e.writes[k], y)
					}
				case *ssa.UnOp:
					if st, ok := y.Type().Underlying().(*types.Struct); ok && onlyPassedInPackage(y, fn) {
						_ = st // nested struct handed to an in-package callee by value
					} else {
						e.reads[k] = append(e.reads[k], y)
					}
				case *ssa.FieldAddr, *ssa.IndexAddr:
					// nested access: accounted for at the inner instruction
				case ssa.CallInstruction:
					// address passed to a call (pointer receiver): callee effects apply; if
					// the callee is outside the package assume read+write
					if f := y.Common().StaticCallee(); f == nil || f.Pkg != fn.Pkg {
						e.reads[k] = append(e.reads[k], r)
						e.writes[k] = append(e.writes[k], r)
					}
				default:
					e.reads[k] = append(e.reads[k], r)
				}
			}
		case *ssa.Field:
			k := fieldKeyOf(x.X.Type(), x.Field)
			e.reads[k] = append(e.reads[k], x)
		case *ssa.MapUpdate:
			// writing through a map stored in a field mutates that field's content
			if ld, ok := isLoad(x.Map); ok {
				if fa, ok := ld.X.(*ssa.FieldAddr); ok {
					k := fieldKeyOf(fa.X.Type(), fa.Field)
					e.writes[k] = append(e.writes[k], x)
				}
			}
		}
	})
	return e
}

func onlyPassedInPackage(v ssa.Value, fn *ssa.Function) bool {
	rs := refs(v)
	if len(rs) == 0 {
		return false
	}
	for _, r := range rs {
		c, ok := r.(ssa.CallInstruction)
		if !ok {
			return false
		}
		f := c.Common().StaticCallee()
		if f == nil || f.Pkg != fn.Pkg {
			return false
		}
	}
	return true
}

// transitiveEffects unions the effects of fn and its in-package static callees.
func transitiveEffects(fn *ssa.Function) *effects {
	total := newEffects()
	for _, f := range inPackageCallees([]*ssa.Function{fn}) {
		d := directEffects(f)
		for k, v := range d.reads {
			total.reads[k] = append(total.reads[k], v...)
		}
		for k, v := range d.writes {
			total.writes[k] = append(total.writes[k], v...)
		}
	}
	return total
}

func sortedKeys(m map[string][]ssa.Instruction) []string {
	var out []string
	for k := range m {
		out = append(out, k)
	}
	sort.Strings(out)
	return out
}

// lazyInitStores finds stores `x.F = <fresh container>` that are dominated by
// the fact `x.F == nil` on the same field: the accepted idempotent overlap.
func lazyInitFields(fns []*ssa.Function) map[string]bool {
	out := map[string]bool{}
	for _, fn := range fns {
		eachInstr(fn, func(i ssa.Instruction) {
			st, ok := i.(*ssa.Store)
			if !ok {
				return
			}
			fa, ok := st.Addr.(*ssa.FieldAddr)
			if !ok {
				return
			}
			for _, f := range factsAt(st.Block()) {
				bo, ok := f.Cond.(*ssa.BinOp)
				// `F == nil` known true, or `F != nil` known false (early-return form)
				if !ok || !(bo.Op == token.EQL && f.Val || bo.Op == token.NEQ && !f.Val) {
					continue
				}
				if k, ok := bo.Y.(*ssa.Const); !ok || k.Value != nil {
					continue
				}
				if ld, ok := isLoad(bo.X); ok && path(ld.X) == path(fa) {
					out[fieldKeyOf(fa.X.Type(), fa.Field)] = true
				}
			}
		})
	}
	return out
}

// lazyInitStores returns the individual store instructions that are guarded by
// `x.F == nil` on the very field they assign.
func lazyInitStores(fns []*ssa.Function) map[ssa.Instruction]bool {
	out := map[ssa.Instruction]bool{}
	for _, fn := range fns {
		eachInstr(fn, func(i ssa.Instruction) {
			st, ok := i.(*ssa.Store)
			if !ok {
				return
			}
			fa, ok := st.Addr.(*ssa.FieldAddr)
			if !ok {
				return
			}
			for _, f := range factsAt(st.Block()) {
				bo, ok := f.Cond.(*ssa.BinOp)
				// `F == nil` known true, or `F != nil` known false (early-return form)
				if !ok || !(bo.Op == token.EQL && f.Val || bo.Op == token.NEQ && !f.Val) {
					continue
				}
				if k, ok := bo.Y.(*ssa.Const); !ok || k.Value != nil {
					continue
				}
				if ld, ok := isLoad(bo.X); ok && path(ld.X) == path(fa) {
					out[st] = true
				}
			}
		})
	}
	return out
}

// evalCodeChain decides, for a concrete integer value v of the subject, whether
// control starting at block `start` reaches block `target`, interpreting only
// branch conditions that compare the subject with integer constants (including
// short-circuit φs of such comparisons). It stops at the first branch on
// anything else. Returns (reached, decidable).
func evalCodeChain(start, target *ssa.BasicBlock, isSubject func(ssa.Value) bool, v int64) (bool, bool) {
	cur := start
	var prev *ssa.BasicBlock
	for steps := 0; steps < 64; steps++ {
		if cur == target {
			return true, true
		}
		if len(cur.Instrs) == 0 {
			return false, true
		}
		switch t := cur.Instrs[len(cur.Instrs)-1].(type) {
		case *ssa.If:
			val, ok := evalCond(t.Cond, isSubject, v, prev, cur)
			if !ok {
				return false, cur != start
			}
			prev = cur
			if val {
				cur = cur.Succs[0]
			} else {
				cur = cur.Succs[1]
			}
		case *ssa.Jump:
			// follow jumps only into short-circuit φ blocks (binop.rhs → binop.done)
			nxt := cur.Succs[0]
			if len(nxt.Instrs) > 0 {
				if _, isPhi := nxt.Instrs[0].(*ssa.Phi); isPhi && prev != nil {
					prev, cur = cur, nxt
					continue
				}
			}
			return false, true
		default:
			return false, true
		}
	}
	return false, false
}

func evalCond(cond ssa.Value, isSubject func(ssa.Value) bool, v int64, prev, cur *ssa.BasicBlock) (bool, bool) {
	switch x := cond.(type) {
	case *ssa.Const:
		return constBool(x)
	case *ssa.BinOp:
		var k int64
		var op token.Token
		if isSubject(stripConv(x.X)) {
			c, ok := constInt(x.Y)
			if !ok {
				return false, false
			}
			k, op = c, x.Op
		} else if isSubject(stripConv(x.Y)) {
			c, ok := constInt(x.X)
			if !ok {
				return false, false
			}
			k, op = c, flipOp(x.Op)
		} else {
			return false, false
		}
		switch op {
		case token.LSS:
			return v < k, true
		case token.LEQ:
			return v <= k, true
		case token.GTR:
			return v > k, true
		case token.GEQ:
			return v >= k, true
		case token.EQL:
			return v == k, true
		case token.NEQ:
			return v != k, true
		}
	case *ssa.UnOp:
		if x.Op == token.NOT {
			b, ok := evalCond(x.X, isSubject, v, prev, cur)
			return !b, ok
		}
	case *ssa.Phi:
		if prev == nil || x.Block() != cur {
			return false, false
		}
		for k, p := range cur.Preds {
			if p == prev {
				return evalCond(x.Edges[k], isSubject, v, nil, nil)
			}
		}
	}
	return false, false
}
