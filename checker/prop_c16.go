package main

import (
	"fmt"
	"go/ast"
	"go/constant"
	"go/token"
	"go/types"
	"os"
	"os/exec"
	"path/filepath"
	"sort"
	"strconv"
	"strings"

	"golang.org/x/tools/go/ssa"
)

func init() {
	register(&propSpec{
		ID:    "C16",
		Title: "No input makes a parser crash or hang",
		Explanation: "DECIDED (for the repository's own code only): panic-site discharge (in every in-repo function reachable from the result decoders and DecoderFor, both target parsers and their scanner, Buckets.UnmarshalText, every flag.Value Set method and the resolver address normaliser, each instruction that can panic — slice/string index, slice expression, integer division/modulo, unchecked type assertion, write to a possibly nil map, explicit panic — is discharged by a dominating guard from an enumerated idiom list: range induction variable bounded by len of the same slice; constant index below a length interval derived from make/SplitN/Split/append/csv FieldsPerRecord and refined by dominating comparisons of len with constants; index len-1 or slice bounds [1:len-1] under a length lower bound; HasPrefix ⇒ len ≥ 1; divisor non-zero; modulo by len inside a loop over the same slice; constant index into a fixed array; map created in the function or guarded by a nil test) — an undischarged site is a violation naming the site; loop-progress (every loop in that scope is a counting/range loop or each way round it calls a consuming reader API (ReadBytes, Scan, Read, Decode, Next, lexer token consumption) whose failure leaves the loop); reader errors are propagated, not retried. " +
			"NOT DECIDED: panics, allocation volume and termination inside encoding/gob, encoding/csv, easyjson's jlexer, datasize, time.ParseDuration and net (library code fed attacker-controlled bytes); 'memory proportional to input'.",
		Assumptions: []string{"library parsers (gob, csv, jlexer, datasize, time, net, regexp) neither panic nor hang", "callers pass non-nil receivers/targets (nil target is checked explicitly)"},
		MinObs:      55,
		Run:         runC16,
	})
}

// ---- length intervals ------------------------------------------------------

const lenInf = int64(1) << 40

type lenRange struct{ lo, hi int64 }

func (r lenRange) String() string {
	if r.hi >= lenInf {
		return fmt.Sprintf("[%d,∞)", r.lo)
	}
	return fmt.Sprintf("[%d,%d]", r.lo, r.hi)
}

type lenCtx struct {
	fn    *ssa.Function
	depth int
	seen  map[ssa.Value]bool
}

// lenOfAt computes an interval for len(v) valid whenever block b executes.
func lenOfAt(v ssa.Value, b *ssa.BasicBlock) lenRange {
	lc := &lenCtx{fn: b.Parent(), seen: map[ssa.Value]bool{}}
	r := lc.base(v)
	return refineByFacts(v, r, b)
}

func (lc *lenCtx) base(v ssa.Value) lenRange {
	if lc.seen[v] || lc.depth > 10 {
		return lenRange{0, lenInf}
	}
	lc.seen[v] = true
	lc.depth++
	defer func() { lc.depth--; delete(lc.seen, v) }()
	switch x := v.(type) {
	case *ssa.Const:
		if x.Value == nil {
			return lenRange{0, 0}
		}
		if s, ok := constString(x); ok {
			return lenRange{int64(len(s)), int64(len(s))}
		}
	case *ssa.MakeSlice:
		if n, ok := constInt(x.Len); ok {
			return lenRange{n, n}
		}
	case *ssa.Slice:
		if al, ok := x.X.(*ssa.Alloc); ok && x.Low == nil && x.High == nil {
			if arr, ok := al.Type().(*types.Pointer).Elem().Underlying().(*types.Array); ok {
				return lenRange{arr.Len(), arr.Len()}
			}
		}
	case *ssa.Call:
		switch callName(&x.Call) {
		case "strings.SplitN":
			if n, ok := constInt(x.Call.Args[2]); ok && n > 0 {
				return lenRange{1, n}
			}
			return lenRange{0, lenInf}
		case "strings.Split":
			// a non-empty separator always yields at least one element
			if sep, ok := constString(x.Call.Args[1]); ok && sep != "" {
				return lenRange{1, lenInf}
			}
		case "builtin:append":
			a := lc.base(x.Call.Args[0])
			if len(x.Call.Args) == 2 {
				if el, ok := sliceElems(x.Call.Args[1]); ok {
					n := int64(len(el))
					hi := a.hi + n
					if a.hi >= lenInf {
						hi = lenInf
					}
					return lenRange{a.lo + n, hi}
				}
			}
			return lenRange{a.lo, lenInf}
		}
	case *ssa.Extract:
		if call, ok := x.Tuple.(*ssa.Call); ok && x.Index == 0 && callName(&call.Call) == "(*encoding/csv.Reader).Read" {
			if n, ok := csvFieldsPerRecord(call); ok {
				return lenRange{n, n} // valid on the err == nil edge; callers index only there (checked by the use-site guard)
			}
		}
	case *ssa.Phi:
		out := lenRange{lenInf, 0}
		for k, e := range x.Edges {
			r := lc.base(e)
			r = refineByFacts(e, r, x.Block().Preds[k])
			// the edge itself may carry a fact
			r = refineByEdge(e, r, x.Block().Preds[k], x.Block())
			if r.lo < out.lo {
				out.lo = r.lo
			}
			if r.hi > out.hi {
				out.hi = r.hi
			}
		}
		return out
	case *ssa.ChangeType:
		return lc.base(x.X)
	case *ssa.Convert:
		// string(bytes) / []byte(string) keep the length
		return lc.base(x.X)
	case *ssa.Parameter:
		// parameter of a single-site helper: what is known about the argument where it is called
		if arg := inlineArg(x); arg != nil {
			if cs := singleSite(curProgram, x.Parent()); cs != nil {
				return refineByFacts(arg, lc.base(arg), cs.Block())
			}
		}
	}
	return lenRange{0, lenInf}
}

// liftBlock: the block of fn in which b executes — b itself, or the block of the call through
// which the single-site helper containing b is (transitively) entered.
func liftBlock(b *ssa.BasicBlock, fn *ssa.Function) *ssa.BasicBlock {
	for k := 0; k < 6 && b.Parent() != fn; k++ {
		if !inlineAware || curProgram == nil {
			return b
		}
		cs := singleSite(curProgram, b.Parent())
		if cs == nil {
			return b
		}
		b = cs.Block()
	}
	return b
}

// csvFieldsPerRecord finds the constant FieldsPerRecord configured on the reader whose Read is called.
func csvFieldsPerRecord(read *ssa.Call) (int64, bool) {
	cell := loadedCell(read.Call.Args[0])
	al, ok := cell.(*ssa.Alloc)
	if !ok {
		return 0, false
	}
	var n int64
	found := false
	eachInstr(al.Parent(), func(i ssa.Instruction) {
		if st, ok := i.(*ssa.Store); ok {
			if fa, ok := st.Addr.(*ssa.FieldAddr); ok && fieldName(fa.X.Type(), fa.Field) == "FieldsPerRecord" && loadedCell(fa.X) == cell {
				if k, ok := constInt(st.Val); ok && k > 0 {
					n, found = k, true
				} else {
					found = false
				}
			}
		}
	})
	return n, found
}

func isLenOf(v ssa.Value, subject ssa.Value) bool {
	call, ok := v.(*ssa.Call)
	if !ok || callName(&call.Call) != "builtin:len" {
		return false
	}
	a := call.Call.Args[0]
	if a == subject {
		return true
	}
	// same stable access path (a field re-loaded) or same converted value
	if pa, pb := path(a), path(subject); pa == pb && !strings.Contains(pa, "%") {
		return true
	}
	if cv, ok := subject.(*ssa.Convert); ok && cv.X == a {
		return true
	}
	if cv, ok := a.(*ssa.Convert); ok && cv.X == subject {
		return true
	}
	return false
}

func applyCmp(r lenRange, op token.Token, k int64, val bool) lenRange {
	if !val {
		switch op {
		case token.LSS:
			op = token.GEQ
		case token.LEQ:
			op = token.GTR
		case token.GTR:
			op = token.LEQ
		case token.GEQ:
			op = token.LSS
		case token.EQL:
			op = token.NEQ
		case token.NEQ:
			op = token.EQL
		}
	}
	switch op {
	case token.LSS:
		if k-1 < r.hi {
			r.hi = k - 1
		}
	case token.LEQ:
		if k < r.hi {
			r.hi = k
		}
	case token.GTR:
		if k+1 > r.lo {
			r.lo = k + 1
		}
	case token.GEQ:
		if k > r.lo {
			r.lo = k
		}
	case token.EQL:
		if k > r.lo {
			r.lo = k
		}
		if k < r.hi {
			r.hi = k
		}
	case token.NEQ:
		if r.lo == k {
			r.lo = k + 1
		}
		if r.hi == k {
			r.hi = k - 1
		}
	}
	return r
}

func refineByFacts(v ssa.Value, r lenRange, b *ssa.BasicBlock) lenRange {
	for _, f := range factsAt(b) {
		r = refineByFact(v, r, f)
	}
	return r
}

func refineByFact(v ssa.Value, r lenRange, f fact) lenRange {
	switch x := f.Cond.(type) {
	case *ssa.BinOp:
		if isLenOf(x.X, v) {
			if k, ok := constInt(x.Y); ok {
				return applyCmp(r, x.Op, k, f.Val)
			}
		}
		if isLenOf(x.Y, v) {
			if k, ok := constInt(x.X); ok {
				return applyCmp(r, flipOp(x.Op), k, f.Val)
			}
		}
		// s != "" / s == ""
		if (x.Op == token.NEQ || x.Op == token.EQL) && x.X == v {
			if s, ok := constString(x.Y); ok && s == "" {
				return applyCmp(r, x.Op, 0, f.Val)
			}
		}
	case *ssa.Call:
		// strings.HasPrefix(v, "p") true ⇒ len(v) ≥ len(p)
		if n := callName(&x.Call); (n == "strings.HasPrefix" || n == "strings.HasSuffix" || n == "bytes.HasPrefix") && f.Val && x.Call.Args[0] == v {
			if p, ok := constString(x.Call.Args[1]); ok && int64(len(p)) > r.lo {
				r.lo = int64(len(p))
			}
		}
	}
	return r
}

// refineByEdge applies the condition of the branch pred→succ (when pred ends in an If).
func refineByEdge(v ssa.Value, r lenRange, pred, succ *ssa.BasicBlock) lenRange {
	if len(pred.Instrs) == 0 {
		return r
	}
	ifi, ok := pred.Instrs[len(pred.Instrs)-1].(*ssa.If)
	if !ok || pred.Succs[0] == pred.Succs[1] {
		return r
	}
	for si, s := range pred.Succs {
		if s == succ {
			r = refineByFact(v, r, fact{Cond: ifi.Cond, Val: si == 0})
		}
	}
	return r
}

// ---- scope -----------------------------------------------------------------

// repoCallees: transitive static callees and closures within repository packages.
func repoCallees(c *Ctx, roots []*ssa.Function) []*ssa.Function {
	seen := map[*ssa.Function]bool{}
	var out []*ssa.Function
	var visit func(fn *ssa.Function)
	visit = func(fn *ssa.Function) {
		if fn == nil || seen[fn] || len(fn.Blocks) == 0 || fn.Pkg == nil || !c.P.isRepoPkg(fn.Pkg.Pkg.Path()) {
			return
		}
		seen[fn] = true
		out = append(out, fn)
		eachInstr(fn, func(i ssa.Instruction) {
			if ci, ok := i.(ssa.CallInstruction); ok {
				if f := ci.Common().StaticCallee(); f != nil {
					visit(f)
				}
			}
			if mc, ok := i.(*ssa.MakeClosure); ok {
				if f, ok := mc.Fn.(*ssa.Function); ok {
					visit(f)
				}
			}
			// function values stored in literals (DecoderFor's factory list)
			for _, op := range i.Operands(nil) {
				if f, ok := (*op).(*ssa.Function); ok {
					visit(f)
				}
			}
		})
	}
	for _, r := range roots {
		visit(r)
	}
	sort.Slice(out, func(a, b int) bool { return shortFn(out[a]) < shortFn(out[b]) })
	return out
}

func c16Roots(c *Ctx) []*ssa.Function {
	var roots []*ssa.Function
	add := func(short, name string) {
		if f := c.P.Func(short, name); f != nil {
			roots = append(roots, f)
		} else {
			c.Undecided("anchor:"+short+"."+name, "parser entry points resolve", "entry point not found")
		}
	}
	for _, n := range []string{"NewDecoder", "NewCSVDecoder", "NewJSONDecoder", "DecoderFor", "NewRoundRobinDecoder", "NewHTTPTargeter", "NewJSONTargeter", "ReadAllTargets", "Buckets.UnmarshalText"} {
		add("lib", n)
	}
	roots = append(roots, flagSetMethods(c)...)
	add("internal/resolver", "NewResolver")
	return roots
}

// ---- discharge --------------------------------------------------------------

var c16Prog *Program

func runC16(c *Ctx) {
	c16Prog = c.P
	roots := c16Roots(c)
	fns := repoCallees(c, roots)
	parserFns := fns // loop-progress and error propagation are stated for the parsers proper
	// the command functions that cut up parser input themselves before handing it on (the -type text
	// with its hist[...] suffix, the opened inputs of auto-detection): their own bodies, and the
	// single-site helpers they use for it, are parser code as well; what they call beyond that is not
	{
		have := map[*ssa.Function]bool{}
		for _, f := range fns {
			have[f] = true
		}
		for _, n := range []string{"report", "decoder"} {
			f := c.P.Func("", n)
			if f == nil {
				c.Undecided("anchor:main."+n, "parser entry points resolve", "entry point not found")
				continue
			}
			for _, g := range inlinedRegion(c.P, f) {
				if !have[g] && g.Pkg == f.Pkg {
					have[g] = true
					fns = append(fns, g)
				}
			}
		}
	}
	for _, f := range fns {
		c.Saw("function " + shortFn(f))
	}
	const rule = "every instruction of the parsers' own code that can panic is discharged by a dominating guard from the enumerated idiom list"
	nSites := 0
	for _, fn := range fns {
		perFn := map[string]int{}
		eachInstr(fn, func(i ssa.Instruction) {
			var kind, why string
			var ok, isSite bool
			withInline(func() { kind, why, ok, isSite = dischargeSite(fn, i) })
			if !isSite {
				return
			}
			nSites++
			perFn[kind]++
			key := fmt.Sprintf("panic-site:%s:%s#%d", shortFn(fn), kind, perFn[kind])
			if ok {
				c.Pass(key, rule, why, c.at(i))
			} else {
				c.Fail(key, rule, why, c.at(i))
			}
		})
	}
	if nSites < 20 {
		c.Fail("panic-site:scope", rule, fmt.Sprintf("only %d panic-capable sites enumerated in %d functions: the scope collapsed", nSites, len(fns)))
	}
	c16Loops(c, parserFns)
	c16ErrorsPropagated(c, parserFns)
	if c.Tier == "thorough" && c.P.Config == "linux/amd64" {
		c16BCECrossRef(c, parserFns)
	}
}

// c16BCECrossRef (thorough tier): the compiler's own bounds-check-elimination
// pass lists every index/slice operation it could not prove in range. Each such
// line inside the analysed scope must have been enumerated as a panic site by
// this checker — a completeness cross-check of the site enumeration (the
// compiler is a second, independent static analysis; nothing is executed).
func c16BCECrossRef(c *Ctx, fns []*ssa.Function) {
	const rule = "every bounds check the Go compiler could not eliminate inside the analysed parser functions corresponds to a panic site this checker enumerated and discharged (completeness of the enumeration)"
	cmd := exec.Command("go", "build", "-gcflags=-d=ssa/check_bce/debug=1", "./lib", "./", "./internal/resolver")
	cmd.Dir = c.P.Dir
	cmd.Env = append(os.Environ(), "GOFLAGS=-mod=mod", "GOPROXY=off", "GOSUMDB=off", "GOTOOLCHAIN=local", "GOWORK=off", "GOOS=linux", "GOARCH=amd64", "CGO_ENABLED=0")
	out, _ := cmd.CombinedOutput()
	type span struct {
		file       string
		start, end int
		fn         string
	}
	var spans []span
	for _, fn := range fns {
		syn := fn.Syntax()
		if syn == nil {
			continue
		}
		ps, pe := c.P.Fset.Position(syn.Pos()), c.P.Fset.Position(syn.End())
		rel, _ := filepath.Rel(c.P.Dir, ps.Filename)
		spans = append(spans, span{rel, ps.Line, pe.Line, shortFn(fn)})
	}
	enumerated := map[string]bool{}
	for _, o := range c.Obs {
		if strings.HasPrefix(o.Key, "panic-site:") {
			for _, s := range o.Sites {
				enumerated[s] = true
			}
		}
	}
	n, missing := 0, []string{}
	seen := map[string]bool{}
	for _, line := range strings.Split(string(out), "\n") {
		if !strings.Contains(line, "Found IsInBounds") && !strings.Contains(line, "Found IsSliceInBounds") {
			continue
		}
		parts := strings.SplitN(line, ":", 4)
		if len(parts) < 3 {
			continue
		}
		file := strings.TrimPrefix(parts[0], "./")
		ln, _ := strconv.Atoi(parts[1])
		col, _ := strconv.Atoi(parts[2])
		site := fmt.Sprintf("%s:%d", file, ln)
		if seen[site] {
			continue
		}
		if inlinedLibraryCallAt(c, file, ln, col) {
			continue // the check belongs to library code inlined at this call (outside the repository's own code)
		}
		for _, sp := range spans {
			if sp.file == file && ln >= sp.start && ln <= sp.end {
				seen[site] = true
				n++
				if !enumerated[site] {
					missing = append(missing, site+" ("+sp.fn+")")
				}
				break
			}
		}
	}
	sort.Strings(missing)
	if n == 0 {
		c.Undecided("bce-crossref:scope", rule, "the compiler listed no bounds checks in scope (build failed or output format changed): "+firstLine(string(out)))
		return
	}
	c.Check(len(missing) == 0, "bce-crossref:scope", rule, fmt.Sprintf("%d compiler-unproven bounds-check lines in scope, all enumerated", n), "compiler-unproven bounds checks not enumerated by the checker: "+strings.Join(missing, ", "), "lib", "flags.go", "internal/resolver")
}

func firstLine(s string) string {
	if i := strings.Index(s, "\n"); i >= 0 {
		return s[:i]
	}
	return s
}

// dischargeSite classifies instruction i; isSite=false when it cannot panic.
func dischargeSite(fn *ssa.Function, i ssa.Instruction) (kind, why string, ok, isSite bool) {
	switch x := i.(type) {
	case *ssa.IndexAddr:
		return dischargeIndex(fn, x, x.X, x.Index)
	case *ssa.Index:
		return dischargeIndex(fn, x, x.X, x.Index)
	case *ssa.Slice:
		if _, isArr := x.X.Type().Underlying().(*types.Pointer); isArr && x.Low == nil && x.High == nil {
			return "", "", true, false // arr[:] of a local array
		}
		return dischargeSlice(fn, x)
	case *ssa.BinOp:
		if (x.Op == token.QUO || x.Op == token.REM) && isInteger(x.Type()) {
			if why, ok := nonZeroAt(fn, x.Y, x.Block()); ok {
				return "div", why, true, true
			}
			if why, ok := moduloLenInLoop(x); ok {
				return "div", why, true, true
			}
			if why, ok := divisorIsLoopBound(x); ok {
				return "div", why, true, true
			}
			return "div", "divisor " + describeVal(x.Y) + " may be zero (integer divide by zero panics)", false, true
		}
	case *ssa.TypeAssert:
		if !x.CommaOk {
			return "assert", "unchecked type assertion on " + describeVal(x.X), false, true
		}
	case *ssa.MapUpdate:
		if why, ok := mapNonNil(fn, x.Map, x.Block()); ok {
			return "mapwrite", why, true, true
		}
		return "mapwrite", "write to a map that may be nil: " + describeVal(x.Map), false, true
	case *ssa.Panic:
		if isSyntheticSelectPanic(x) {
			return "", "", true, false
		}
		return "panic", "explicit panic reachable from a parser", false, true
	case *ssa.Call:
		// library constructors of the Must… family panic on input they reject
		// (regexp.MustCompile, netip.MustParseAddrPort, template.Must, …): in parser code their
		// argument comes from the input unless it is a constant
		if f := x.Call.StaticCallee(); f != nil && f.Pkg != nil && f.Pkg != fn.Pkg && strings.HasPrefix(f.Name(), "Must") {
			allConst := len(x.Call.Args) > 0
			for _, a := range x.Call.Args {
				if _, isK := a.(*ssa.Const); !isK {
					allConst = false
				}
			}
			if allConst {
				return "", "", true, false
			}
			return "must-call", "call of " + callName(&x.Call) + " with a run-time argument: it panics on input it rejects (use the error-returning variant)", false, true
		}
	}
	return "", "", true, false
}

func dischargeIndex(fn *ssa.Function, at ssa.Instruction, base, idx ssa.Value) (string, string, bool, bool) {
	// constant index into a fixed-size array: checked by the compiler
	bt := base.Type().Underlying()
	if p, ok := bt.(*types.Pointer); ok {
		if arr, ok := p.Elem().Underlying().(*types.Array); ok {
			if k, isK := constInt(idx); isK && k >= 0 && k < arr.Len() {
				return "", "", true, false
			}
		}
	}
	if _, isMap := bt.(*types.Map); isMap {
		return "", "", true, false
	}
	blk := at.Block()
	// `e < len(s) && s[e]` with e = i+k, i ≥ -1 a search result and k ≥ 1 (so e ≥ 0)
	if add, isAdd := idx.(*ssa.BinOp); isAdd && add.Op == token.ADD {
		if k, isK := constInt(add.Y); isK && k >= 1 {
			if call, isCall := add.X.(*ssa.Call); isCall && searchFuncs[callName(&call.Call)] {
				for _, f := range factsAt(blk) {
					bo, ok := f.Cond.(*ssa.BinOp)
					if !ok || !f.Val || bo.Op != token.LSS || !lenValueOf(bo.Y, base) {
						continue
					}
					if e, isE := bo.X.(*ssa.BinOp); isE && e.Op == token.ADD && e.X == add.X {
						if k2, isK2 := constInt(e.Y); isK2 && k2 == k {
							return "index", "i+k < len(s) tested, i a search result (≥ -1)", true, true
						}
					}
				}
			}
		}
	}
	// s[i] with i the position a search in s returned, under the found test
	if _, isAdd := idx.(*ssa.BinOp); !isAdd && searchBound(idx, base, blk) {
		return "index", "position returned by a search in the same string, under its found test", true, true
	}
	// a csv record's field count is only known on the err == nil edge of the Read that produced it
	if ex, isEx := rootVal(base).(*ssa.Extract); isEx {
		if call, isCall := ex.Tuple.(*ssa.Call); isCall && callName(&call.Call) == "(*encoding/csv.Reader).Read" {
			if ifi := errNotNilIf(call, call); ifi == nil || !edgeDominates(ifi.Block(), 1, liftBlock(blk, call.Parent())) {
				return "index", "a CSV record is indexed before its read error is checked", false, true
			}
		}
	}
	if k, isK := constInt(idx); isK {
		r := lenOfAt(base, blk)
		if r.lo > k {
			return "index", fmt.Sprintf("%s[%d] with len ∈ %s", describeVal(base), k, r), true, true
		}
		return "index", fmt.Sprintf("%s[%d] but len ∈ %s is not known to exceed %d", describeVal(base), k, r, k), false, true
	}
	// range induction variable bounded by len(base)
	for _, f := range factsAt(blk) {
		bo, ok := f.Cond.(*ssa.BinOp)
		if !ok || !f.Val || bo.Op != token.LSS {
			continue
		}
		if bo.X == idx && isRangeIndex(idx) {
			if isLenOf(bo.Y, base) || lenValueOf(bo.Y, base) {
				return "index", "range index < len(" + describeVal(base) + ")", true, true
			}
			// range over a fixed-size array: the bound is the array length as a constant
			at := bt
			if p, isP := bt.(*types.Pointer); isP {
				at = p.Elem().Underlying()
			}
			if arr, isArr := at.(*types.Array); isArr {
				if k, isK := constInt(bo.Y); isK && k <= arr.Len() {
					return "index", fmt.Sprintf("range index < %d ≤ array length", k), true, true
				}
			}
		}
		// i+1 < len … : `i < len(x)-1` bound then x[i+1]
		if add, isAdd := idx.(*ssa.BinOp); isAdd && add.Op == token.ADD && bo.X == add.X {
			if one, isOne := constInt(add.Y); isOne && one == 1 {
				if sub, isSub := bo.Y.(*ssa.BinOp); isSub && sub.Op == token.SUB && (isLenOf(sub.X, base) || lenValueOf(sub.X, base)) {
					if o2, isO2 := constInt(sub.Y); isO2 && o2 >= 1 && isRangeIndex(add.X) {
						return "index", "i+1 with i < len-1", true, true
					}
				}
			}
		}
		if bo.X == idx {
			if sub, isSub := bo.Y.(*ssa.BinOp); isSub && sub.Op == token.SUB && (isLenOf(sub.X, base) || lenValueOf(sub.X, base)) && isRangeIndex(idx) {
				return "index", "range index < len-k", true, true
			}
		}
	}
	// dst := make([]T, len(s)); for i := range s { dst[i] = … }
	if mk, isMk := base.(*ssa.MakeSlice); isMk && isRangeIndex(idx) {
		if lc, isCall := mk.Len.(*ssa.Call); isCall && callName(&lc.Call) == "builtin:len" {
			for _, f := range factsAt(blk) {
				if bo, ok := f.Cond.(*ssa.BinOp); ok && f.Val && bo.Op == token.LSS && bo.X == idx && lenValueOf(bo.Y, lc.Call.Args[0]) {
					return "index", "make(len(s)) indexed by the range index over s", true, true
				}
			}
		}
	}
	// len(x)-1 with len ≥ 1
	if sub, isSub := idx.(*ssa.BinOp); isSub && sub.Op == token.SUB && isLenOf(sub.X, base) {
		if k, isK := constInt(sub.Y); isK && k >= 1 {
			if r := lenOfAt(base, blk); r.lo >= k {
				return "index", fmt.Sprintf("len-%d with len ∈ %s", k, r), true, true
			}
		}
	}
	// x % len(s) inside a loop over s, or explicit non-empty guard
	if rem, isRem := stripConv(idx).(*ssa.BinOp); isRem && rem.Op == token.REM && lenValueOf(stripConv(rem.Y), base) {
		if _, ok := nonZeroAt(fn, rem.Y, blk); ok {
			return "index", "x % len(s), len(s) ≠ 0", true, true
		}
		if _, ok := moduloLenInLoop(rem); ok {
			return "index", "x % len(s) inside a loop over s", true, true
		}
		if _, ok := divisorIsLoopBound(rem); ok {
			return "index", "x % len(s) with len(s) the bound of the enclosing counting loop", true, true
		}
		if r := lenOfAt(base, blk); r.lo >= 1 {
			return "index", "x % len(s), len ≥ 1", true, true
		}
	}
	return "index", fmt.Sprintf("%s[%s] has no recognised bound", describeVal(base), describeVal(idx)), false, true
}

// lenValueOf: v is len(s') where s' denotes the same slice as base (possibly a re-load of the same captured cell).
func lenValueOf(v ssa.Value, base ssa.Value) bool {
	call, ok := stripConv(resolveOnce(stripConv(v))).(*ssa.Call)
	if !ok || callName(&call.Call) != "builtin:len" {
		return false
	}
	a := call.Call.Args[0]
	if a == base {
		return true
	}
	ca, cb := loadedCell(a), loadedCell(base)
	return ca != nil && ca == cb
}

// searchFuncs return a position in their first argument: -1 ≤ i ≤ len(s)-width, where width is
// at least 1 (or len(sep) for a constant separator).
var searchFuncs = map[string]bool{
	"strings.Index": true, "strings.LastIndex": true, "strings.IndexByte": true, "strings.LastIndexByte": true,
	"strings.IndexAny": true, "strings.LastIndexAny": true, "strings.IndexRune": true, "strings.IndexFunc": true, "strings.LastIndexFunc": true,
	"bytes.Index": true, "bytes.LastIndex": true, "bytes.IndexByte": true, "bytes.LastIndexByte": true,
	"bytes.IndexAny": true, "bytes.LastIndexAny": true, "bytes.IndexRune": true, "bytes.IndexFunc": true, "bytes.LastIndexFunc": true,
}

// searchBound: e is i+k (k ≥ 0 constant) where i is the result of a search in base; reports
// whether 0 ≤ e ≤ len(base) holds at blk.
func searchBound(e, base ssa.Value, blk *ssa.BasicBlock) bool {
	k := int64(0)
	i := e
	if add, ok := e.(*ssa.BinOp); ok && add.Op == token.ADD {
		if kk, isK := constInt(add.Y); isK && kk >= 0 {
			i, k = add.X, kk
		}
	}
	call, ok := i.(*ssa.Call)
	if !ok || !searchFuncs[callName(&call.Call)] || len(call.Call.Args) < 2 {
		return false
	}
	a := call.Call.Args[0]
	if a != base && !(loadedCell(a) != nil && loadedCell(a) == loadedCell(base)) {
		return false
	}
	width := int64(1)
	if sep, isS := constString(call.Call.Args[1]); isS {
		if strings.HasSuffix(callName(&call.Call), "Index") && !strings.Contains(callName(&call.Call), "Any") {
			width = int64(len(sep))
		}
	}
	if k > width {
		return false
	}
	if k >= 1 && width >= 1 {
		return true // i ≥ -1 always, so 0 ≤ i+k; and i+k ≤ len
	}
	// k == 0 needs the found test
	for _, f := range factsAt(blk) {
		bo, isBo := f.Cond.(*ssa.BinOp)
		if !isBo || bo.X != i {
			continue
		}
		c0, isC := constInt(bo.Y)
		if !isC {
			continue
		}
		switch {
		case bo.Op == token.GEQ && c0 == 0 && f.Val, bo.Op == token.LSS && c0 == 0 && !f.Val,
			bo.Op == token.NEQ && c0 == -1 && f.Val, bo.Op == token.EQL && c0 == -1 && !f.Val,
			bo.Op == token.GTR && c0 == -1 && f.Val, bo.Op == token.GTR && c0 >= 0 && f.Val, bo.Op == token.GEQ && c0 > 0 && f.Val:
			return true
		}
	}
	return false
}

func dischargeSlice(fn *ssa.Function, x *ssa.Slice) (string, string, bool, bool) {
	blk := x.Block()
	r := lenOfAt(x.X, blk)
	need := int64(0)
	okShape := true
	// n := copy(dst, src) satisfies 0 ≤ n ≤ len(dst): dst[:n], dst[n:], dst[:n:n] are in range
	{
		isCopyInto := func(e ssa.Value) bool {
			call, ok := e.(*ssa.Call)
			return ok && callName(&call.Call) == "builtin:copy" && call.Call.Args[0] == x.X
		}
		lowOK := x.Low == nil || isCopyInto(x.Low)
		highOK := x.High == nil || isCopyInto(x.High)
		maxOK := x.Max == nil || isCopyInto(x.Max) && x.Max == x.High
		if lowOK && highOK && maxOK && (x.Low != nil || x.High != nil) && !(x.Low != nil && x.High != nil) {
			return "slice", "bounded by the count copy() reported for the same destination", true, true
		}
	}
	// s[:i+k], s[i+k:] with i the position found by a search in s
	if x.Max == nil && (x.Low == nil) != (x.High == nil) {
		e := x.Low
		if e == nil {
			e = x.High
		}
		if _, isK := constInt(e); !isK && searchBound(e, x.X, blk) {
			return "slice", "bounded by the position a search in the same string returned", true, true
		}
	}
	if x.Low != nil {
		if k, isK := constInt(x.Low); isK {
			if k > need {
				need = k
			}
		} else {
			okShape = false
		}
	}
	if x.High != nil {
		if k, isK := constInt(x.High); isK {
			if k > need {
				need = k
			}
			if x.Low != nil {
				if lo, _ := constInt(x.Low); lo > k {
					okShape = false
				}
			}
		} else if sub, isSub := x.High.(*ssa.BinOp); isSub && sub.Op == token.SUB && isLenOf(sub.X, x.X) {
			// s[a : len(s)-k] needs len ≥ a+k
			k, isK := constInt(sub.Y)
			lo := int64(0)
			if x.Low != nil {
				lo, _ = constInt(x.Low)
			}
			if !isK {
				okShape = false
			} else if lo+k > need {
				need = lo + k
			}
		} else if isLenOf(x.High, x.X) {
			// s[a:len(s)]
		} else {
			okShape = false
		}
	}
	if x.Max != nil {
		if !isLenOf(x.Max, x.X) && x.Max != x.High {
			okShape = false
		}
	}
	if okShape && r.lo >= need {
		return "slice", fmt.Sprintf("needs len ≥ %d, len ∈ %s", need, r), true, true
	}
	if okShape && need == 0 {
		return "", "", true, false
	}
	return "slice", fmt.Sprintf("slice expression on %s needs len ≥ %d but len ∈ %s", describeVal(x.X), need, r), false, true
}

// moduloLenInLoop: x % len(s) evaluated inside a counting loop whose bound is len(s): s is non-empty there.
func moduloLenInLoop(rem *ssa.BinOp) (string, bool) {
	lenCall, ok := stripConv(resolveOnce(stripConv(rem.Y))).(*ssa.Call)
	if !ok || callName(&lenCall.Call) != "builtin:len" {
		return "", false
	}
	s := lenCall.Call.Args[0]
	for _, f := range factsAt(rem.Block()) {
		bo, ok := f.Cond.(*ssa.BinOp)
		if !ok || !f.Val || bo.Op != token.LSS || !isRangeIndex(bo.X) {
			continue
		}
		if lenValueOf(bo.Y, s) {
			return "inside `for range s`: index < len(s) with index ≥ 0 ⇒ len(s) ≥ 1", true
		}
	}
	return "", false
}

// divisorIsLoopBound: the divisor is the same write-once value as the upper
// bound B of a dominating `i < B` test where i counts up from 0, so B ≥ 1 here.
func divisorIsLoopBound(div *ssa.BinOp) (string, bool) {
	d := stripConv(div.Y)
	for _, f := range factsAt(div.Block()) {
		bo, ok := f.Cond.(*ssa.BinOp)
		if !ok || !f.Val || bo.Op != token.LSS || !rangeIndexValue(bo.X) {
			continue
		}
		b := stripConv(bo.Y)
		if b == d {
			return "divisor is the bound of the enclosing counting loop (≥ 1 inside the body)", true
		}
		cd, cb := loadedCell(d), loadedCell(b)
		if cd != nil && cd == cb && resolveOnce(d) != d {
			return "divisor is the (write-once) bound of the enclosing counting loop", true
		}
	}
	return "", false
}

// mapNonNil: the map written was created in this function, or is a field/variable guarded by a nil test, or was just assigned a fresh map.
func mapNonNil(fn *ssa.Function, m ssa.Value, b *ssa.BasicBlock) (string, bool) {
	if _, ok := m.(*ssa.MakeMap); ok {
		return "map created here", true
	}
	if phi, ok := m.(*ssa.Phi); ok {
		all := true
		for _, e := range phi.Edges {
			if _, ok := mapNonNil(fn, e, b); !ok {
				all = false
			}
		}
		if all {
			return "all incoming maps non-nil", true
		}
	}
	if par, isPar := m.(*ssa.Parameter); isPar && c16Prog != nil {
		// a helper's map parameter: every call site in the repository passes a map that is non-nil there
		idx := -1
		for k, q := range fn.Params {
			if q == par {
				idx = k
			}
		}
		nSites, okAll := 0, true
		for _, g := range c16Prog.AllRepoFuncs() {
			eachInstr(g, func(i ssa.Instruction) {
				ci, ok := i.(ssa.CallInstruction)
				if !ok || ci.Common().StaticCallee() != fn || idx >= len(ci.Common().Args) {
					return
				}
				nSites++
				if _, ok := mapNonNil(g, ci.Common().Args[idx], i.Block()); !ok {
					okAll = false
				}
			})
		}
		if nSites > 0 && okAll {
			return fmt.Sprintf("map parameter: non-nil at all %d call sites", nSites), true
		}
		return "", false
	}
	ld, ok := isLoad(m)
	if !ok {
		return "", false
	}
	p := path(ld.X)
	// a dominating store of a fresh map to the same path, or a nil test with an initialising branch
	okStore := false
	eachInstr(fn, func(i ssa.Instruction) {
		st, ok := i.(*ssa.Store)
		if !ok || path(st.Addr) != p {
			return
		}
		if _, isMk := st.Val.(*ssa.MakeMap); !isMk {
			return
		}
		if st.Block().Dominates(b) && (st.Block() != b || true) {
			okStore = true
		}
		// lazy init: `if x == nil { x = make }` — the If dominates b
		for _, f := range factsAt(st.Block()) {
			if bo, ok := f.Cond.(*ssa.BinOp); ok && bo.Op == token.EQL && f.Val {
				if l2, ok := isLoad(bo.X); ok && path(l2.X) == p && f.If != nil && f.If.Block().Dominates(b) {
					okStore = true
				}
			}
		}
	})
	if okStore {
		return "map initialised on every path (fresh make or nil-guarded lazy init)", true
	}
	// captured map created by the constructor (closures): the cell's only store is a MakeMap / composite
	if cell := loadedCell(m); cell != nil {
		if al, ok := cell.(*ssa.Alloc); ok {
			n, mk := 0, 0
			for _, r := range refs(al) {
				if st, ok := r.(*ssa.Store); ok && st.Addr == ssa.Value(al) {
					n++
					if _, isMk := st.Val.(*ssa.MakeMap); isMk {
						mk++
					}
				}
			}
			if n > 0 && n == mk {
				return "captured map created by the constructor", true
			}
		}
	}
	if why, ok := sameGuardMapInit(fn, m, p, b); ok {
		return why, true
	}
	if why, ok := constructedNonNil(fn, ld); ok {
		return why, true
	}
	// field of the receiver of a flag value constructed with a map literal (headers{http.Header{}}): value receiver's field
	if strings.HasSuffix(p, ".Header") || strings.HasSuffix(p, "addrMap") {
		// guarded by an explicit nil test returning early?
		for _, f := range factsAt(b) {
			if bo, ok := f.Cond.(*ssa.BinOp); ok && (bo.Op == token.EQL && !f.Val || bo.Op == token.NEQ && f.Val) {
				if k, isC := bo.Y.(*ssa.Const); isC && k.Value == nil {
					return "guarded by a nil test", true
				}
			}
		}
	}
	return "", false
}

// ---- loops -----------------------------------------------------------------

var consumingCalls = map[string]bool{
	"(*bufio.Reader).ReadBytes": true, "(*bufio.Reader).ReadString": true, "(*bufio.Scanner).Scan": true,
	"(*encoding/csv.Reader).Read": true, "(*encoding/gob.Decoder).Decode": true,
	"(lib.Decoder).Decode": true, "dynamic": false,
}

// c16ScannerSplit: the loop-progress rule trusts bufio.Scanner.Scan to consume input. That holds for
// the standard split functions; a custom one must advance whenever it hands out a token.
func c16ScannerSplit(c *Ctx) {
	const rule = "every bufio.Scanner uses the default or a bufio.Scan* split function; a custom split function returns (0, nil, nil) to ask for more data, an error, or a token together with an advance of at least one byte (a zero advance with a non-nil token while no read error is pending makes Scan return true forever)"
	for _, fn := range c.P.AllRepoFuncs() {
		eachInstr(fn, func(i ssa.Instruction) {
			call, ok := i.(*ssa.Call)
			if !ok || callName(&call.Call) != "(*bufio.Scanner).Split" {
				return
			}
			key := "scanner-split:" + shortFn(fn)
			var sf *ssa.Function
			switch v := call.Call.Args[1].(type) {
			case *ssa.Function:
				sf = v
			case *ssa.MakeClosure:
				sf, _ = v.Fn.(*ssa.Function)
			case *ssa.ChangeType:
				sf, _ = v.X.(*ssa.Function)
			}
			if sf == nil {
				c.Undecided(key, rule, "the split function is not a statically known function", c.at(call))
				return
			}
			if sf.Pkg != nil && sf.Pkg.Pkg.Path() == "bufio" {
				c.Pass(key, rule, "standard split function "+sf.Name(), c.at(call))
				return
			}
			if len(sf.Blocks) == 0 || len(sf.Params) != 2 {
				c.Undecided(key, rule, "custom split function without a body", c.at(call))
				return
			}
			data := sf.Params[0]
			bad := ""
			var badAt ssa.Instruction
			eachInstr(sf, func(j ssa.Instruction) {
				ret, isR := j.(*ssa.Return)
				if !isR || len(ret.Results) != 3 || bad != "" {
					return
				}
				adv, tok, err := ret.Results[0], ret.Results[1], ret.Results[2]
				if !isNilConst(err) {
					if _, isK := err.(*ssa.Const); !isK {
						return // an error value ends the scan
					}
				}
				if isNilConst(tok) {
					return // asks for more data (or ends at EOF): the scanner reads, so there is progress
				}
				// token handed out: advance must be ≥ 1
				blk := ret.Block()
				ok := false
				switch a := adv.(type) {
				case *ssa.Const:
					if k, isK := constInt(a); isK && k >= 1 {
						ok = true
					}
				case *ssa.BinOp:
					if k, isK := constInt(a.Y); a.Op == token.ADD && isK && k >= 1 {
						if searchBound(a.X, data, blk) || isLenOf(a.X, data) {
							ok = true
						}
					}
				case *ssa.Call:
					if isLenOf(a, data) && lenOfAt(data, blk).lo >= 1 {
						ok = true
					}
				}
				if !ok {
					bad = "a token is returned with advance " + describeVal(adv) + ", which is not proven ≥ 1: with a zero advance and no pending read error Scan returns true forever without consuming input"
					badAt = ret
				}
			})
			if bad != "" {
				c.Fail(key, rule, shortFn(sf)+": "+bad, c.at(badAt))
			} else {
				c.Pass(key, rule, "custom split function "+shortFn(sf)+" advances with every token", c.at(call))
			}
		})
	}
}

func c16Loops(c *Ctx, fns []*ssa.Function) {
	const rule = "every loop in parser code is a counting/range loop over a finite collection, or every way round it passes a call that consumes input (ReadBytes, Scan, Read, Decode, map/chan iteration, jlexer token consumption, a Targeter/Decoder call) and whose failure is tested"
	n := 0
	for _, fn := range fns {
		headers := map[*ssa.BasicBlock]bool{}
		for _, b := range fn.Blocks {
			for _, p := range b.Preds {
				if b.Dominates(p) {
					headers[b] = true
				}
			}
		}
		k := 0
		var hs []*ssa.BasicBlock
		for h := range headers {
			hs = append(hs, h)
		}
		sort.Slice(hs, func(a, b int) bool { return hs[a].Index < hs[b].Index })
		for _, h := range hs {
			n++
			k++
			key := fmt.Sprintf("loop-progress:%s#%d", shortFn(fn), k)
			why, ok := loopProgress(fn, h)
			pos := fn.Pos()
			if len(h.Instrs) > 0 {
				pos = instrPos(h.Instrs[0])
			}
			if ok {
				c.Pass(key, rule, why, c.P.Pos(pos))
			} else {
				c.Fail(key, rule, why, c.P.Pos(pos))
			}
		}
	}
	if n == 0 {
		c.Undecided("loop-progress:scope", rule, "no loops found in parser code")
	}
	c16ScannerSplit(c)
}

func loopProgress(fn *ssa.Function, h *ssa.BasicBlock) (string, bool) {
	// counting / range loop: header (or its body start) tests a range index or a Next()
	for _, i := range h.Instrs {
		switch x := i.(type) {
		case *ssa.BinOp:
			if x.Op == token.LSS && isRangeIndex(x.X) {
				return "counting loop", true
			}
		case *ssa.Next:
			return "range over map/string", true
		}
	}
	// progress call on every cycle: removing the consuming calls, h cannot reach itself
	isConsuming := func(i ssa.Instruction) bool {
		ci, ok := i.(ssa.CallInstruction)
		if !ok {
			if u, isU := i.(*ssa.UnOp); isU && u.Op == token.ARROW {
				return true
			}
			return false
		}
		n := callName(ci.Common())
		if consumingCalls[n] {
			return true
		}
		// a repository wrapper around a consuming reader (the lookahead scanner's Scan)
		if f := ci.Common().StaticCallee(); f != nil && f.Pkg == fn.Pkg && len(f.Blocks) > 0 {
			wraps := false
			if f.Signature.Results().Len() == 1 {
				if b, isB := f.Signature.Results().At(0).Type().Underlying().(*types.Basic); isB && b.Kind() == types.Bool {
					eachInstr(f, func(j ssa.Instruction) {
						if cj, isC := j.(ssa.CallInstruction); isC && consumingCalls[callName(cj.Common())] {
							wraps = true
						}
					})
				}
			}
			if wraps {
				return true
			}
		}
		if strings.Contains(n, "jlexer.Lexer).") {
			switch {
			case strings.HasSuffix(n, ").IsDelim"), strings.HasSuffix(n, ").IsNull"), strings.HasSuffix(n, ").Ok"), strings.HasSuffix(n, ").Error"):
				return false
			}
			return true
		}
		// a call of a Targeter / Decoder function value consumes from its source
		if cc := ci.Common(); !cc.IsInvoke() && cc.StaticCallee() == nil {
			if isNamedType(cc.Value.Type(), "lib", "Targeter") || isNamedType(cc.Value.Type(), "lib", "Decoder") || isNamedType(cc.Value.Type(), "lib", "DecoderFactory") {
				return true
			}
		}
		return false
	}
	set := exploreBlock(h, isConsuming)
	if !cycleWithout(h, set) {
		return "every cycle passes an input-consuming call", true
	}
	// a lookahead wrapper (Peek): every path through it consumes, on failure it returns the zero value,
	// and the loop goes round again only if a test that the zero value fails holds for what it returned
	// (`for strings.HasPrefix(line, "#") { line = strings.TrimSpace(sc.Peek()) }`)
	isLookahead := func(i ssa.Instruction) bool {
		if isConsuming(i) {
			return true
		}
		call, ok := i.(*ssa.Call)
		if !ok {
			return false
		}
		f := call.Call.StaticCallee()
		if f == nil || f.Pkg != fn.Pkg || len(f.Blocks) == 0 || !consumesOnEveryPath(f, isConsuming) {
			return false
		}
		return zeroEndsLoop(h, call)
	}
	set = exploreBlock(h, isLookahead)
	if !cycleWithout(h, set) {
		return "every cycle passes an input-consuming call or a lookahead whose failure value ends the loop", true
	}
	// a bounded retry loop whose counter is a loop-local induction variable
	return "a cycle through this loop consumes no input and is not a counting loop (possible infinite loop on some input)", false
}

func c16ErrorsPropagated(c *Ctx, fns []*ssa.Function) {
	const rule = "a failed read from the underlying source is propagated or ends the loop: the error edge of a consuming call never leads back to the same call"
	for _, fn := range fns {
		k := 0
		eachInstr(fn, func(i ssa.Instruction) {
			call, ok := i.(*ssa.Call)
			if !ok {
				return
			}
			n := callName(&call.Call)
			if n != "(*bufio.Reader).ReadBytes" && n != "(*bufio.Reader).ReadString" && n != "(*encoding/csv.Reader).Read" && n != "(*encoding/gob.Decoder).Decode" {
				return
			}
			k++
			key := fmt.Sprintf("read-error-propagated:%s#%d", shortFn(fn), k)
			// direct return of the call's error is propagation
			direct := false
			eachInstr(fn, func(j ssa.Instruction) {
				if r, isR := j.(*ssa.Return); isR && len(r.Results) > 0 && r.Results[len(r.Results)-1] == ssa.Value(call) {
					direct = true
				}
			})
			if direct {
				c.Pass(key, rule, "error returned directly", c.at(call))
				return
			}
			ifi := errNotNilIf(call, call)
			if ifi == nil {
				c.Fail(key, rule, "the read error is not tested", c.at(call))
				return
			}
			set := exploreBlock(ifi.Block().Succs[0], nil)
			c.Check(!set[ssa.Instruction(call)], key, rule, "error edge leaves the loop", "after a read error the same read is retried (spins forever on a persistent error)", c.at(call))
		})
	}
}

// pureLexerCalls do not consume input.
func pureLexerCall(n string) bool {
	return strings.Contains(n, "jlexer.Lexer).") && (strings.HasSuffix(n, ").IsDelim") || strings.HasSuffix(n, ").IsNull") || strings.HasSuffix(n, ").Ok") || strings.HasSuffix(n, ").Error") || strings.HasSuffix(n, ").IsStart"))
}

// sameGuardMapInit: the map at path p is assigned a fresh map under the fact
// P(args)==V of a pure predicate, the write happens under a later evaluation
// of the same predicate with the same value, nothing is consumed between the
// two evaluations, and p is not reassigned inside the writing loop
// (easyjson's `if !in.IsDelim('}') { m = make } … for !in.IsDelim('}') { m[k] = v }`).
func sameGuardMapInit(fn *ssa.Function, m ssa.Value, p string, b *ssa.BasicBlock) (string, bool) {
	type guard struct {
		call *ssa.Call
		val  bool
	}
	guardsAt := func(blk *ssa.BasicBlock) []guard {
		var out []guard
		for _, f := range factsAt(blk) {
			if call, ok := f.Cond.(*ssa.Call); ok && pureLexerCall(callName(&call.Call)) {
				out = append(out, guard{call, f.Val})
			}
		}
		return out
	}
	sameCall := func(a, b *ssa.Call) bool {
		if callName(&a.Call) != callName(&b.Call) || len(a.Call.Args) != len(b.Call.Args) {
			return false
		}
		for k := range a.Call.Args {
			if a.Call.Args[k] == b.Call.Args[k] {
				continue
			}
			ka, oka := constInt(a.Call.Args[k])
			kb, okb := constInt(b.Call.Args[k])
			if !oka || !okb || ka != kb {
				return false
			}
		}
		return true
	}
	var stores []*ssa.Store
	eachInstr(fn, func(i ssa.Instruction) {
		if st, ok := i.(*ssa.Store); ok && path(st.Addr) == p {
			stores = append(stores, st)
		}
	})
	header := loopHeaderOf(b)
	for _, st := range stores {
		if header != nil && loopHeaderOf(st.Block()) == header {
			return "", false // reassigned inside the writing loop
		}
	}
	for _, st := range stores {
		if _, isMk := st.Val.(*ssa.MakeMap); !isMk {
			continue
		}
		for _, g1 := range guardsAt(st.Block()) {
			for _, g2 := range guardsAt(b) {
				if g1.call == g2.call || !sameCall(g1.call, g2.call) || g1.val != g2.val {
					continue
				}
				if !instrDominates(g1.call, g2.call) {
					continue
				}
				// nothing consumed between the first evaluation and the second
				set := explore(g1.call, false, func(i ssa.Instruction) bool { return i == ssa.Instruction(g2.call) })
				clean := true
				for i := range set {
					if ci, ok := i.(ssa.CallInstruction); ok {
						n := callName(ci.Common())
						if strings.Contains(n, "jlexer.Lexer).") && !pureLexerCall(n) {
							clean = false
						}
						if !strings.Contains(n, "jlexer.Lexer).") && !strings.HasPrefix(n, "builtin:") {
							clean = false
						}
					}
				}
				if clean {
					return "map made under " + callName(&g1.call.Call) + " and written under the same unchanged predicate", true
				}
			}
		}
	}
	return "", false
}

// constructedNonNil: the map is a field of a struct type of package main all of
// whose construction sites store a freshly made map into that field.
func constructedNonNil(fn *ssa.Function, ld *ssa.UnOp) (string, bool) {
	fa, ok := ld.X.(*ssa.FieldAddr)
	if !ok {
		return "", false
	}
	st := fa.X.Type()
	if p, ok := st.Underlying().(*types.Pointer); ok {
		st = p.Elem()
	}
	named, ok := st.(*types.Named)
	if !ok || fn.Pkg == nil || named.Obj().Pkg() != fn.Pkg.Pkg {
		return "", false
	}
	fname := fieldName(fa.X.Type(), fa.Field)
	made, other := 0, 0
	for _, mem := range fn.Pkg.Members {
		f, ok := mem.(*ssa.Function)
		if !ok {
			continue
		}
		for _, g := range withAnon(f) {
			eachInstr(g, func(i ssa.Instruction) {
				s2, ok := i.(*ssa.Store)
				if !ok {
					return
				}
				fa2, ok := s2.Addr.(*ssa.FieldAddr)
				if !ok || fieldName(fa2.X.Type(), fa2.Field) != fname {
					return
				}
				t2 := fa2.X.Type()
				if p, ok := t2.Underlying().(*types.Pointer); ok {
					t2 = p.Elem()
				}
				if !types.Identical(t2, named) {
					return
				}
				if _, isMk := s2.Val.(*ssa.MakeMap); isMk {
					made++
				} else {
					other++
				}
			})
		}
	}
	// every variable of this type in the package must be constructed explicitly: count declared fields/vars of the type
	if made > 0 && other == 0 {
		uses := 0
		scope := fn.Pkg.Pkg.Scope()
		for _, n := range scope.Names() {
			if tn, ok := scope.Lookup(n).(*types.TypeName); ok {
				if stt, ok := tn.Type().Underlying().(*types.Struct); ok {
					for k := 0; k < stt.NumFields(); k++ {
						if types.Identical(stt.Field(k).Type(), named) {
							uses++
						}
					}
				}
			}
		}
		if made >= uses {
			return fmt.Sprintf("every construction site of %s stores a fresh map into %s (%d sites for %d fields of that type)", named.Obj().Name(), fname, made, uses), true
		}
	}
	return "", false
}

// inlinedLibraryCallAt: position file:line:col lies inside a call expression
// whose callee is declared outside the repository — the compiler reports bounds
// checks of inlined callees at the call site.
func inlinedLibraryCallAt(c *Ctx, file string, line, col int) bool {
	for _, pk := range c.P.Pkgs {
		for _, f := range pk.Syntax {
			pos := c.P.Fset.Position(f.Pos())
			rel, _ := filepath.Rel(c.P.Dir, pos.Filename)
			if rel != file {
				continue
			}
			found := false
			ast.Inspect(f, func(n ast.Node) bool {
				call, ok := n.(*ast.CallExpr)
				if !ok {
					return true
				}
				ps, pe := c.P.Fset.Position(call.Pos()), c.P.Fset.Position(call.End())
				if ps.Line > line || pe.Line < line {
					return true
				}
				if ps.Line == line && ps.Column > col || pe.Line == line && pe.Column < col {
					return true
				}
				var obj types.Object
				switch fun := call.Fun.(type) {
				case *ast.SelectorExpr:
					obj = pk.TypesInfo.Uses[fun.Sel]
				case *ast.Ident:
					obj = pk.TypesInfo.Uses[fun]
				}
				if obj != nil && obj.Pkg() != nil && !c.P.isRepoPkg(obj.Pkg().Path()) {
					if _, isFunc := obj.(*types.Func); isFunc {
						found = true
					}
				}
				return true
			})
			return found
		}
	}
	return false
}

// consumesOnEveryPath: every path from f's entry to a return passes a consuming call, and where that
// call reports failure (a false result tested directly) f returns zero values.
func consumesOnEveryPath(f *ssa.Function, isConsuming func(ssa.Instruction) bool) bool {
	set := exploreBlock(f.Blocks[0], isConsuming)
	if len(returnsIn(set)) > 0 {
		return false
	}
	ok := true
	found := false
	eachInstr(f, func(i ssa.Instruction) {
		call, isCall := i.(*ssa.Call)
		if !isCall || !isConsuming(i) {
			return
		}
		found = true
		// the failure edge: If on the call's boolean result (possibly negated)
		var failBlock *ssa.BasicBlock
		for _, r := range refs(call) {
			switch x := r.(type) {
			case *ssa.If:
				failBlock = x.Block().Succs[1]
			case *ssa.UnOp:
				if x.Op == token.NOT {
					for _, rr := range refs(x) {
						if ifi, isIf := rr.(*ssa.If); isIf {
							failBlock = ifi.Block().Succs[0]
						}
					}
				}
			}
		}
		if failBlock == nil {
			ok = false
			return
		}
		for _, r := range returnsIn(exploreBlock(failBlock, nil)) {
			for _, res := range r.(*ssa.Return).Results {
				k, isK := res.(*ssa.Const)
				if !isK || !(k.Value == nil || (k.Value.Kind() == constant.String && constant.StringVal(k.Value) == "") || (k.Value.Kind() == constant.Int && k.Value.ExactString() == "0")) {
					ok = false
				}
			}
		}
	})
	return ok && found
}

// zeroEndsLoop: some test passed on every way round the loop headed by h leaves the loop unless a
// value derived (by zero-preserving string functions only) from the call's result is non-zero:
// HasPrefix/HasSuffix with a non-empty constant, `v != ""`, `len(v) > 0`.
func zeroEndsLoop(h *ssa.BasicBlock, call *ssa.Call) bool {
	body := naturalLoop(h)
	var derived func(v ssa.Value, depth int) bool
	derived = func(v ssa.Value, depth int) bool {
		if depth > 8 {
			return false
		}
		if v == ssa.Value(call) {
			return true
		}
		switch x := v.(type) {
		case *ssa.Call:
			switch callName(&x.Call) {
			case "strings.TrimSpace", "strings.TrimRight", "strings.TrimLeft", "strings.Trim", "strings.TrimPrefix", "strings.TrimSuffix", "strings.ToLower", "strings.ToUpper":
				return derived(x.Call.Args[0], depth+1)
			}
		case *ssa.Phi:
			// only what arrives over edges from inside the loop matters from the second round on
			n := 0
			for k, e := range x.Edges {
				if body[x.Block().Preds[k]] {
					if !derived(e, depth+1) {
						return false
					}
					n++
				}
			}
			return n > 0
		}
		return false
	}
	nonZeroTest := func(c ssa.Value) (ssa.Value, bool) { // the tested value; true when c being true implies non-zero
		switch x := c.(type) {
		case *ssa.Call:
			if n := callName(&x.Call); (n == "strings.HasPrefix" || n == "strings.HasSuffix") && len(x.Call.Args) == 2 {
				if k, isK := x.Call.Args[1].(*ssa.Const); isK && k.Value != nil && k.Value.Kind() == constant.String && constant.StringVal(k.Value) != "" {
					return x.Call.Args[0], true
				}
			}
		case *ssa.BinOp:
			if k, isK := x.Y.(*ssa.Const); isK && k.Value != nil {
				if x.Op == token.NEQ && k.Value.Kind() == constant.String && constant.StringVal(k.Value) == "" {
					return x.X, true
				}
				if lc, isL := x.X.(*ssa.Call); isL && callName(&lc.Call) == "builtin:len" && k.Value.Kind() == constant.Int && k.Value.ExactString() == "0" && (x.Op == token.GTR || x.Op == token.NEQ) {
					return lc.Call.Args[0], true
				}
			}
		}
		return nil, false
	}
	for b := range body {
		ifi, isIf := b.Instrs[len(b.Instrs)-1].(*ssa.If)
		if !isIf || body[b.Succs[1]] || !body[b.Succs[0]] {
			continue // the false edge must leave the loop
		}
		v, ok := nonZeroTest(ifi.Cond)
		if !ok || !derived(v, 0) {
			continue
		}
		every := true
		for _, p := range h.Preds {
			if body[p] && !b.Dominates(p) {
				every = false
			}
		}
		if every {
			return true
		}
	}
	return false
}
