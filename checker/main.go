// vcheck decides structural necessary conditions of the properties in
// /verif/properties.jsonl from the type-checked source of /repo, without
// executing any of it.
package main

import (
	"flag"
	"fmt"
	"os"
	"path/filepath"
	"runtime/debug"
	"sort"
	"strconv"
	"strings"
	"time"
)

var registry = map[string]*propSpec{}

func register(s *propSpec) { registry[s.ID] = s }

func main() {
	prop := flag.String("prop", "", "property id (C01..C20)")
	tier := flag.String("tier", "quick", "quick | thorough")
	repo := flag.String("repo", "/repo", "repository root")
	verif := flag.String("verif", "/verif", "verification directory (evidence, known findings)")
	list := flag.Bool("list", false, "list registered properties")
	dump := flag.String("dump", "", "debug: print the SSA of pkg:Func (e.g. lib:Attacker.hit) with closures and exit")
	flag.Parse()

	if *dump != "" {
		p, err := Load(*repo, "linux", "amd64")
		if err != nil {
			fmt.Fprintln(os.Stderr, err)
			os.Exit(2)
		}
		parts := strings.SplitN(*dump, ":", 2)
		fn := p.Func(parts[0], parts[1])
		if fn == nil {
			fmt.Fprintln(os.Stderr, "not found")
			os.Exit(2)
		}
		for _, f := range withAnon(fn) {
			f.WriteTo(os.Stdout)
		}
		return
	}
	if *list {
		var ids []string
		for id := range registry {
			ids = append(ids, id)
		}
		sort.Strings(ids)
		for _, id := range ids {
			fmt.Println(id, registry[id].Title)
		}
		return
	}
	if t := os.Getenv("VERIF_TIER"); t != "" && !isFlagSet("tier") {
		*tier = t
	}
	seed := 0
	if s := os.Getenv("VERIF_SEED"); s != "" {
		seed, _ = strconv.Atoi(s)
	}
	spec := registry[*prop]
	if spec == nil {
		fmt.Fprintf(os.Stderr, "unknown property %q\n", *prop)
		os.Exit(2)
	}
	if *tier != "quick" && *tier != "thorough" {
		fmt.Fprintf(os.Stderr, "unknown tier %q\n", *tier)
		os.Exit(2)
	}
	start := time.Now()
	ff, err := loadFindings(filepath.Join(*verif, "known_findings.json"))
	if err != nil {
		fmt.Fprintln(os.Stderr, "known_findings.json:", err)
		os.Exit(2)
	}

	type cfg struct{ goos, goarch string }
	cfgs := []cfg{{"linux", "amd64"}}
	if *tier == "thorough" {
		cfgs = append(cfgs, cfg{"windows", "amd64"}, cfg{"linux", "386"})
	}
	rr := &runResult{analysed: map[string]bool{}}
	fatal := ""
	for _, cf := range cfgs {
		func() {
			defer func() {
				if r := recover(); r != nil {
					fatal = fmt.Sprintf("panic in checker on %s/%s: %v\n%s", cf.goos, cf.goarch, r, debug.Stack())
				}
			}()
			p, err := Load(*repo, cf.goos, cf.goarch)
			if err != nil {
				fatal = err.Error()
				return
			}
			rr.configs = append(rr.configs, p.Config)
			rr.nfuncs = p.NFuncs
			rr.npkgs = len(p.Pkgs)
			c := NewCtx(p, spec.ID)
			c.Tier = *tier
			spec.Run(c)
			rr.obs = append(rr.obs, c.Obs...)
			for k := range c.Analysed {
				rr.analysed[k] = true
			}
		}()
		if fatal != "" {
			break
		}
	}
	os.Exit(finish(spec, *tier, seed, rr, ff, *verif, start, fatal))
}

func isFlagSet(name string) bool {
	set := false
	flag.Visit(func(f *flag.Flag) {
		if f.Name == name {
			set = true
		}
	})
	return set
}
