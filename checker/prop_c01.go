package main

import (
	"fmt"
	"go/constant"
	"go/token"
	"go/types"
	"math"
	"sort"
	"strings"

	"golang.org/x/tools/go/ssa"
)

func init() {
	register(&propSpec{
		ID:    "C01",
		Title: "Pacers keep the hit count on schedule; no parameter makes a pacer panic",
		Explanation: "DECIDED (structural, all parameter values): (1) divguard — every integer / and % in every method of every lib type implementing lib.Pacer, and in their in-package callees, has a divisor proven non-zero by a dominating guard or constant (Go panics on integer division by zero; value derived by dividing two positives is NOT assumed positive); (2) guard-polarity — in each Pace that reads a Rate's Freq/Per, the ==0 tests return stop=false and the <0 tests return stop=true; SinePacer.Pace returns stop=true on invalid(); (3) overflow-guard — every integer multiplication involving the hits parameter whose product is converted to time.Duration is dominated by the false edge of a MaxInt64/x < hits test whose true edge returns stop=true; (4) no other panic-capable instruction (index, slice, type assertion, map update, explicit panic) occurs in pacer code; out-of-package callees are limited to a whitelist of total functions. " +
			"NOT DECIDED: the trajectory clauses (hits never exceed schedule+1, positive wait only when on/ahead of schedule, at most one hit behind for constant/sine) are numerical statements over float/integer values across iterations — in particular the sine pacer's runaway as amplitude approaches mean has no structural signature; no sound static argument in reach bounds them.",
		Assumptions: []string{"Go semantics: integer division by zero is the only arithmetic panic; float→int conversion never panics", "whitelisted callees math.{Round,Abs,Sin,Cos,Pow}, time.Duration.{Nanoseconds,Seconds}, fmt.Sprintf are total"},
		MinObs:      25,
		Run:         runC01,
	})
}

var c01Whitelist = map[string]bool{
	"math.Round": true, "math.Abs": true, "math.Sin": true, "math.Cos": true, "math.Pow": true,
	"(time.Duration).Nanoseconds": true, "(time.Duration).Seconds": true, "(time.Duration).String": true,
	"fmt.Sprintf": true,
}

func pacerMethods(c *Ctx) (roots []*ssa.Function, types_ []string) {
	lib := c.P.Pkg("lib")
	pacerObj := c.P.Named("lib", "Pacer")
	if lib == nil || pacerObj == nil {
		return nil, nil
	}
	iface, _ := pacerObj.Underlying().(*types.Interface)
	if iface == nil {
		return nil, nil
	}
	scope := lib.Types.Scope()
	names := scope.Names()
	sort.Strings(names)
	for _, n := range names {
		tn, ok := scope.Lookup(n).(*types.TypeName)
		if !ok || tn.IsAlias() {
			continue
		}
		named, ok := tn.Type().(*types.Named)
		if !ok || types.IsInterface(named) {
			continue
		}
		if !types.Implements(named, iface) && !types.Implements(types.NewPointer(named), iface) {
			continue
		}
		types_ = append(types_, n)
		for i := 0; i < named.NumMethods(); i++ {
			m := named.Method(i)
			inIface := false
			for k := 0; k < iface.NumMethods(); k++ {
				if iface.Method(k).Name() == m.Name() {
					inIface = true
				}
			}
			if !inIface {
				continue // String() etc. are not on the attack path
			}
			if f := c.P.SSA.FuncValue(m); f != nil && len(f.Blocks) > 0 {
				roots = append(roots, f)
			}
		}
	}
	return roots, types_
}

func runC01(c *Ctx) {
	roots, tnames := pacerMethods(c)
	const rDiv = "every integer division/modulo in pacer code has a divisor proven non-zero on the dominating path"
	if len(roots) == 0 {
		c.Undecided("divguard:lib.Pacer", rDiv, "no implementation of lib.Pacer found")
		return
	}
	for _, t := range tnames {
		c.Saw("pacer type lib." + t)
	}
	fns := inPackageCallees(roots)
	for _, fn := range fns {
		c.Saw("function " + shortFn(fn))
	}

	// (1) divguard
	for _, fn := range fns {
		for _, d := range intDivisions(fn) {
			key := fmt.Sprintf("divguard:%s:%s", shortFn(fn), divLabel(d))
			var why string
			var ok bool
			withInline(func() { why, ok = nonZeroAt(fn, d.Y, d.Block()) }, roots...)
			if ok {
				c.Pass(key, rDiv, why, c.at(d))
			} else {
				c.Fail(key, rDiv, fmt.Sprintf("divisor %s of `%s` is not proven non-zero (integer divide by zero panics)", describeVal(d.Y), d.String()), c.at(d))
			}
		}
	}

	// (1b) the closed-form schedules are evaluated in float64: an integer quotient that is
	// converted to float afterwards has already lost its fractional part (Period/Per, elapsed/Per …)
	const rPrec = "no run-time integer quotient feeds a float64 computation in pacer code: rates and areas are computed as float64(a)/float64(b), never float64(a/b)"
	for _, fn := range fns {
		nConv := 0
		var bad []ssa.Instruction
		eachInstr(fn, func(i ssa.Instruction) {
			cv, ok := i.(*ssa.Convert)
			if !ok {
				return
			}
			if b, isB := cv.Type().Underlying().(*types.Basic); !isB || b.Info()&types.IsFloat == 0 {
				return
			}
			nConv++
			if flowsFrom(cv.X, func(v ssa.Value) bool {
				bo, isBo := v.(*ssa.BinOp)
				if !isBo || bo.Op != token.QUO {
					return false
				}
				if b, isB := bo.Type().Underlying().(*types.Basic); !isB || b.Info()&types.IsInteger == 0 {
					return false
				}
				if _, constDiv := bo.Y.(*ssa.Const); !constDiv {
					bad = append(bad, bo)
				}
				return false
			}) {
				bad = append(bad, cv)
			}
		})
		if nConv == 0 {
			continue
		}
		key := "float-precision:" + shortFn(fn)
		c.Check(len(bad) == 0, key, rPrec, fmt.Sprintf("%d integer→float conversions, none of a truncated quotient", nConv), "an integer quotient is truncated before it enters the float64 schedule formula: the fraction of a period/unit is lost and hits(t) leaves the configured curve", c.atsOr(bad, fn)...)
	}

	// (1c) a convergence / tolerance test on a signed float difference is two-sided: |d| < ε, not d < ε
	const rTol = "a float difference compared with a small positive tolerance goes through math.Abs (or is bounded on both sides): a one-sided test accepts an arbitrarily large error of the other sign"
	for _, fn := range fns {
		var bad []ssa.Instruction
		n := 0
		eachInstr(fn, func(i ssa.Instruction) {
			cmp, ok := i.(*ssa.BinOp)
			if !ok || (cmp.Op != token.LSS && cmp.Op != token.LEQ) {
				return
			}
			k, isK := cmp.Y.(*ssa.Const)
			if !isK || k.Value == nil {
				return
			}
			if b, isB := cmp.X.Type().Underlying().(*types.Basic); !isB || b.Info()&types.IsFloat == 0 {
				return
			}
			eps, _ := constant.Float64Val(constant.ToFloat(k.Value))
			if !(eps > 0 && eps < 1) {
				return
			}
			n++
			if call, isCall := cmp.X.(*ssa.Call); isCall && callName(&call.Call) == "math.Abs" {
				return
			}
			sub, isSub := cmp.X.(*ssa.BinOp)
			if !isSub || sub.Op != token.SUB {
				return // not a difference: a plain magnitude or rate
			}
			// a companion lower bound on the same difference makes it two-sided
			twoSided := false
			eachInstr(fn, func(j ssa.Instruction) {
				o, isO := j.(*ssa.BinOp)
				if !isO || (o.Op != token.GTR && o.Op != token.GEQ) {
					return
				}
				if ok2, isK2 := o.Y.(*ssa.Const); isK2 && ok2.Value != nil {
					if v, _ := constant.Float64Val(constant.ToFloat(ok2.Value)); v < 0 && describeVal(o.X) == describeVal(cmp.X) {
						twoSided = true
					}
				}
			})
			if !twoSided {
				bad = append(bad, cmp)
			}
		})
		if n == 0 {
			continue
		}
		c.Check(len(bad) == 0, "tolerance-two-sided:"+shortFn(fn), rTol, fmt.Sprintf("%d tolerance test(s), all on |d|", n), "a signed difference is tested against the tolerance on one side only: an error of the other sign, however large, is accepted as converged", c.atsOr(bad, fn)...)
	}

	// (4) no other panic-capable instruction; callee whitelist
	const rPanic = "pacer code contains no index/slice/assertion/map-update/panic instruction and calls only in-package functions or whitelisted total functions"
	for _, fn := range fns {
		var bad []ssa.Instruction
		var why string
		eachInstr(fn, func(i ssa.Instruction) {
			switch x := i.(type) {
			case *ssa.IndexAddr, *ssa.Index, *ssa.Slice, *ssa.MapUpdate, *ssa.Panic, *ssa.SliceToArrayPointer:
				bad = append(bad, i)
				why = fmt.Sprintf("%T", i)
			case *ssa.TypeAssert:
				if !x.CommaOk {
					bad = append(bad, i)
					why = "unchecked type assertion"
				}
			case ssa.CallInstruction:
				cc := x.Common()
				n := callName(cc)
				if f := cc.StaticCallee(); f != nil && f.Pkg == fn.Pkg {
					return
				}
				if _, isPacerFunc := fn.Signature.Recv().Type().(*types.Named); isPacerFunc && n == "dynamic" && shortFn(fn) == "(lib.PacerFunc).Pace" {
					return // PacerFunc adapts a user function; its body is the user's
				}
				if !c01Whitelist[n] {
					bad = append(bad, i)
					why = "call to " + n + " is not in the total-function whitelist"
				}
			}
		})
		key := "panic-free:" + shortFn(fn)
		if len(bad) == 0 {
			c.Pass(key, rPanic, "no panic-capable instruction", c.fnAt(fn))
		} else {
			c.Fail(key, rPanic, why, c.ats(bad)...)
		}
	}

	// (2) guard polarity
	const rPol = "zero frequency/unit ⇒ (0, stop=false) i.e. unlimited rate; negative ⇒ stop=true"
	for _, fn := range roots {
		if fn.Name() != "Pace" || shortFn(fn) == "(lib.PacerFunc).Pace" {
			continue
		}
		guards := rateGuards(fn)
		if len(guards) == 0 {
			// sine-style: delegates validity to invalid()
			inv := callsNamed(fn, "(lib.SinePacer).invalid")
			key := "guard-polarity:" + shortFn(fn) + ":invalid"
			if len(inv) == 1 {
				call := inv[0].(*ssa.Call)
				ok, det := edgeReturnsStop(call, true, true)
				c.Check(ok, key, "an invalid sine configuration stops the attack", "invalid() true edge returns stop=true", det, c.at(call))
				// the call must dominate every other instruction that can compute with the parameters
				first := dominatesAllReturns(call)
				c.Check(first, "guard-first:"+shortFn(fn), "the validity test dominates every return of Pace", "dominates all returns", "some return is not dominated by the validity test", c.at(call))
			} else if !c01GuardHelper(c, fn, rPol) {
				c.Undecided(key, rPol, "Pace neither compares a Rate's Freq/Per with 0 nor calls invalid(): unrecognised validity idiom", c.fnAt(fn))
			}
			continue
		}
		for _, g := range guards {
			key := fmt.Sprintf("guard-polarity:%s:%s%s0", shortFn(fn), g.field, g.op)
			wantStop := g.op == "<"
			ok, det := edgeReturnsStop(g.cmp, true, wantStop)
			c.Check(ok, key, rPol, fmt.Sprintf("true edge returns stop=%v", wantStop), det, c.at(g.cmp))
		}
		// all four guards must exist
		have := map[string]bool{}
		for _, g := range guards {
			have[g.field+g.op] = true
		}
		for _, need := range []string{"Per==", "Freq==", "Per<", "Freq<"} {
			if !have[need] {
				c.Fail(fmt.Sprintf("guard-polarity:%s:%s0", shortFn(fn), need), rPol, "guard "+need+"0 is missing", c.fnAt(fn))
			}
		}
		// the guards come first: wherever Pace does integer arithmetic, all four guard
		// conditions are known to be false.
		const rFirst = "every integer division/multiplication in Pace executes only after all zero/negative guards have been evaluated false"
		var arith []ssa.Instruction
		eachInstr(fn, func(i ssa.Instruction) {
			if bo, ok := i.(*ssa.BinOp); ok && isInteger(bo.Type()) && (bo.Op == token.QUO || bo.Op == token.REM || bo.Op == token.MUL) {
				arith = append(arith, i)
			}
		})
		okFirst := true
		for _, a := range arith {
			known := map[ssa.Value]bool{}
			for _, f := range factsAt(a.Block()) {
				if !f.Val {
					known[f.Cond] = true
				}
			}
			for _, g := range guards {
				if !known[ssa.Value(g.cmp)] {
					okFirst = false
					c.Fail("guard-first:"+shortFn(fn), rFirst, fmt.Sprintf("guard %s%s0 is not known false here", g.field, g.op), c.at(a))
				}
			}
		}
		if okFirst && len(arith) > 0 {
			c.Pass("guard-first:"+shortFn(fn), rFirst, fmt.Sprintf("%d arithmetic sites, %d guards", len(arith), len(guards)), c.ats(arith)...)
		}
	}

	// (2b) catch-up: a positive wait is only possible when the attacker is on or ahead of schedule
	const rCatch = "Pace compares the hits released so far with the hits due at `elapsed` (hits < expected ⇒ return (0,false): catch up without waiting); every return that can carry a non-zero wait lies on the not-behind edge of that comparison, and `expected` is computed from the elapsed parameter"
	for _, fn := range roots {
		if fn.Name() != "Pace" || shortFn(fn) == "(lib.PacerFunc).Pace" {
			continue
		}
		hits := paramOfType(fn, types.Typ[types.Uint64])
		var elapsed *ssa.Parameter
		for _, p := range fn.Params {
			if isNamedType(p.Type(), "time", "Duration") {
				elapsed = p
			}
		}
		key := "catch-up:" + shortFn(fn)
		if hits == nil || elapsed == nil {
			c.Undecided(key, rCatch, "Pace has no (elapsed, hits) parameters", c.fnAt(fn))
			continue
		}
		var behind *ssa.BinOp
		eachInstr(fn, func(i ssa.Instruction) {
			bo, ok := i.(*ssa.BinOp)
			if !ok {
				return
			}
			if bo.Op == token.LSS && bo.X == ssa.Value(hits) || bo.Op == token.GTR && bo.Y == ssa.Value(hits) {
				other := bo.Y
				if bo.Op == token.GTR {
					other = bo.X
				}
				if flowsFrom(other, func(v ssa.Value) bool { return v == ssa.Value(elapsed) }) {
					behind = bo
				}
			}
		})
		if behind == nil {
			c.Fail(key, rCatch, "no `hits < expectedHits(elapsed)` comparison: a pacer that never looks at the hit count cannot tell a late attacker to catch up", c.fnAt(fn))
			continue
		}
		ifB := trueImpliesIf(behind)
		ok, why := ifB != nil, "the behind-schedule comparison does not control a branch"
		if ok {
			for _, r := range returnsIn(exploreBlock(ifB.Block().Succs[0], nil)) {
				ret := r.(*ssa.Return)
				w, isW := constInt(ret.Results[0])
				st, isS := constBool(ret.Results[1])
				if !isW || w != 0 || !isS || st {
					ok, why = false, "an attacker behind schedule is not told (0, false)"
				}
			}
			// every return with a possibly non-zero wait is on the not-behind side
			eachInstr(fn, func(i ssa.Instruction) {
				ret, isR := i.(*ssa.Return)
				if !isR || len(ret.Results) != 2 {
					return
				}
				if w, isW := constInt(ret.Results[0]); isW && w == 0 {
					return
				}
				if !edgeDominates(ifB.Block(), 1, ret.Block()) && !notBehindKnown(ret.Block(), behind) {
					ok, why = false, "a non-zero wait can be returned without having established that the attacker is not behind schedule"
				}
			})
		}
		c.Check(ok, key, rCatch, "behind ⇒ (0,false); waits only when not behind", why, c.at(behind))
	}

	// (3b) any other integer product of two run-time values can wrap silently
	const rMul = "an integer multiplication of two run-time values in pacer code either involves hits and carries the MaxInt64/x < hits guard, or is the exempt schedule product Freq × (elapsed / Per), whose true value is the number of hits due and therefore cannot exceed a feasible hit count; any other product (e.g. elapsed × Freq before dividing) can wrap and make the pacer answer 'behind schedule' forever"
	isRoot := map[*ssa.Function]bool{}
	for _, r := range roots {
		isRoot[r] = true
	}
	for _, fn := range fns {
		hits := paramOfType(fn, types.Typ[types.Uint64])
		if !isRoot[fn] {
			// in a helper a uint64 parameter is the hit count only if Pace passes it one; rule (3)
			// follows such helpers from Pace. Helpers that are not single-site are judged here.
			if singleSite(c.P, fn) != nil {
				continue
			}
			hits = nil
		}
		eachInstr(fn, func(i ssa.Instruction) {
			mul, ok := i.(*ssa.BinOp)
			if !ok || mul.Op != token.MUL || !isInteger(mul.Type()) {
				return
			}
			if _, isC := constInt(mul.X); isC {
				return
			}
			if _, isC := constInt(mul.Y); isC {
				return
			}
			key := fmt.Sprintf("mul-wrap:%s:%s", shortFn(fn), describeVal(mul.X)+"*"+describeVal(mul.Y))
			depHits := hits != nil && (flowsFrom(mul.X, func(x ssa.Value) bool { return x == ssa.Value(hits) }) || flowsFrom(mul.Y, func(x ssa.Value) bool { return x == ssa.Value(hits) }))
			if depHits {
				return // rule (3) below decides it
			}
			isQuoOfElapsed := func(v ssa.Value) bool {
				q, ok := stripConv(v).(*ssa.BinOp)
				if !ok || q.Op != token.QUO {
					return false
				}
				p, isP := stripConv(q.X).(*ssa.Parameter)
				return isP && isNamedType(p.Type(), "time", "Duration")
			}
			isFreq := func(v ssa.Value) bool {
				ld, ok := isLoad(stripConv(v))
				if !ok {
					return false
				}
				fa, ok := ld.X.(*ssa.FieldAddr)
				return ok && fieldName(fa.X.Type(), fa.Field) == "Freq"
			}
			exempt := isQuoOfElapsed(mul.X) && isFreq(mul.Y) || isQuoOfElapsed(mul.Y) && isFreq(mul.X)
			c.Check(exempt, key, rMul, "exempt: Freq × (elapsed / Per) = hits due", "unguarded product of two run-time integers can overflow and wrap", c.at(mul))
		})
	}

	// (3) overflow guard
	const rOv = "an integer product involving hits that becomes a Duration is guarded by MaxInt64/x < hits ⇒ stop=true"
	for _, fn := range roots {
		if fn.Name() != "Pace" {
			continue
		}
		hits := paramOfType(fn, types.Typ[types.Uint64])
		if hits == nil {
			continue
		}
		// integer multiplications depending on hits whose result reaches a Convert to Duration
		// (also inside single-site helpers of Pace, e.g. a `due(n)` helper fed with hits+1)
		old := inlineAware
		inlineAware = true
		inlineRoots[fn] = true
		defer func(f *ssa.Function, o bool) { inlineAware = o; delete(inlineRoots, f) }(fn, old)
		eachInstrI(fn, func(i ssa.Instruction) {
			mul, ok := i.(*ssa.BinOp)
			if !ok || mul.Op != token.MUL || !isInteger(mul.Type()) {
				return
			}
			dep := func(v ssa.Value) bool {
				return flowsFrom(v, func(x ssa.Value) bool { return x == ssa.Value(hits) })
			}
			var other ssa.Value
			switch {
			case dep(mul.X) && !dep(mul.Y):
				other = mul.Y
			case dep(mul.Y) && !dep(mul.X):
				other = mul.X
			default:
				return
			}
			if !reachesDurationReturn(mul) && mul.Parent() == fn {
				return
			}
			key := fmt.Sprintf("overflow-guard:%s:%s", shortFn(fn), "hits*"+describeVal(other))
			g := findOverflowGuard(fn, rootVal(other), hits)
			if g == nil {
				c.Fail(key, rOv, "no MaxInt64/x < hits test on the multiplier", c.at(mul))
				return
			}
			ifi := trueImpliesIf(g)
			if ifi == nil {
				c.Fail(key, rOv, "overflow comparison does not control a branch", c.at(g))
				return
			}
			if !edgeDominates(ifi.Block(), 1, liftBlock(mul.Block(), fn)) {
				c.Fail(key, rOv, "the product is not dominated by the no-overflow edge of the test", c.at(mul), c.at(g))
				return
			}
			ok2, det := edgeReturnsStop(g, true, true)
			c.Check(ok2, key, rOv, "guarded; overflow edge returns stop=true", det, c.at(mul), c.at(g))
		})
		// float-interval variant (LinearPacer): MaxInt64/n < hits with n != 0 must return stop=true
		eachInstr(fn, func(i ssa.Instruction) {
			q, ok := i.(*ssa.BinOp)
			if !ok || q.Op != token.QUO || !isInteger(q.Type()) {
				return
			}
			if n, ok := constInt(q.X); !ok || n != math.MaxInt64 {
				return
			}
			for _, r := range refs(q) {
				cmp, ok := r.(*ssa.BinOp)
				if !ok || !(cmp.Op == token.LSS && cmp.X == ssa.Value(q) && cmp.Y == ssa.Value(hits) || cmp.Op == token.GTR && cmp.Y == ssa.Value(q) && cmp.X == ssa.Value(hits)) {
					c.Fail("overflow-test:"+shortFn(fn), rOv, "MaxInt64/x is not compared as `MaxInt64/x < hits`", c.at(r))
					continue
				}
				ok2, det := edgeReturnsStop(cmp, true, true)
				c.Check(ok2, "overflow-test:"+shortFn(fn), rOv, "overflow edge returns stop=true", det, c.at(cmp))
			}
		})
	}
}

func divLabel(d *ssa.BinOp) string {
	return describeVal(d.X) + d.Op.String() + describeVal(d.Y)
}

// describeVal renders a value by access path where possible (stable across line moves).
func describeVal(v ssa.Value) string {
	core := v
	for {
		switch x := core.(type) {
		case *ssa.Convert:
			core = x.X
			continue
		case *ssa.ChangeType:
			core = x.X
			continue
		}
		break
	}
	switch x := core.(type) {
	case *ssa.Const:
		if x.Value != nil {
			return x.Value.ExactString()
		}
		return "nil"
	case *ssa.Call:
		s := callName(&x.Call) + "("
		for k, a := range x.Call.Args {
			if k > 0 {
				s += ","
			}
			s += describeVal(a)
		}
		return s + ")"
	case *ssa.BinOp:
		return "(" + describeVal(x.X) + x.Op.String() + describeVal(x.Y) + ")"
	case *ssa.Phi:
		return "phi<" + shortType(x.Type()) + ">"
	case *ssa.Extract:
		return describeVal(x.Tuple) + "#" + fmt.Sprint(x.Index)
	}
	p := canonPath(resolveOnce(core))
	if len(p) > 0 && p[0] == '%' {
		if named, ok := core.(interface{ Name() string }); ok {
			_ = named
		}
		return "tmp"
	}
	return p
}

type rateGuard struct {
	cmp   *ssa.BinOp
	field string // Per | Freq
	op    string // == | <
}

// rateGuards finds comparisons of a Rate's Freq/Per field (loaded from the receiver) with constant 0.
// c01GuardHelper accepts the zero/negative tests living in a same-package helper
// `func (r Rate) degenerate() (stop, ok bool)` used as `if stop, ok := r.degenerate(); ok { return 0, stop }`.
func c01GuardHelper(c *Ctx, fn *ssa.Function, rPol string) bool {
	var call *ssa.Call
	var h *ssa.Function
	eachInstr(fn, func(i ssa.Instruction) {
		cl, ok := i.(*ssa.Call)
		if !ok || call != nil {
			return
		}
		f := cl.Call.StaticCallee()
		if f == nil || f.Pkg != fn.Pkg || len(f.Blocks) == 0 || f.Signature.Results().Len() != 2 || len(rateGuards(f)) == 0 {
			return
		}
		call, h = cl, f
	})
	if call == nil {
		return false
	}
	c.Saw("function " + shortFn(h))
	var ex [2]*ssa.Extract
	for _, r := range refs(call) {
		if e, ok := r.(*ssa.Extract); ok && e.Index < 2 {
			ex[e.Index] = e
		}
	}
	// which result is branched on in Pace
	okIdx := -1
	var ifi *ssa.If
	for k := 0; k < 2; k++ {
		if ex[k] != nil {
			if i := trueImpliesIf(ex[k]); i != nil {
				okIdx, ifi = k, i
			}
		}
	}
	base := "guard-polarity:" + shortFn(fn)
	if okIdx < 0 || ex[1-okIdx] == nil {
		c.Fail(base+":helper", rPol, "the validity helper's results do not control a branch of Pace", c.at(call))
		return true
	}
	stopIdx := 1 - okIdx
	// Pace: the ok edge returns (0, stop) straight away
	okEdge := true
	for i := range exploreBlock(ifi.Block().Succs[0], nil) {
		switch x := i.(type) {
		case *ssa.If:
			okEdge = false
		case *ssa.Return:
			if w, isW := constInt(x.Results[0]); !isW || w != 0 || x.Results[1] != ssa.Value(ex[stopIdx]) {
				okEdge = false
			}
		}
	}
	c.Check(okEdge, base+":helper", rPol, "degenerate rate ⇒ return (0, stop) with the helper's verdict", "the branch taken for a degenerate rate does not return (0, stop) with the helper's verdict", c.at(call))
	// helper: four guards with the right constants; everything else reports ok=false
	guards := rateGuards(h)
	have := map[string]bool{}
	guarded := map[ssa.Instruction]bool{}
	for _, g := range guards {
		have[g.field+g.op] = true
		key := fmt.Sprintf("%s:%s%s0", base, g.field, g.op)
		wantStop := g.op == "<"
		gi := implIf(g.cmp, true, 0)
		okG := gi != nil
		det := "the comparison does not control a branch"
		if okG {
			set := exploreBlock(gi.Block().Succs[0], nil)
			for i := range set {
				switch x := i.(type) {
				case *ssa.If:
					okG, det = false, "the guarded edge branches again before returning"
				case *ssa.Return:
					guarded[x] = true
					st, isS := constBool(x.Results[stopIdx])
					ok2, isO := constBool(x.Results[okIdx])
					if !isS || !isO || !ok2 || st != wantStop {
						okG, det = false, fmt.Sprintf("the guarded edge reports stop=%v ok=%v, want stop=%v ok=true", st, ok2, wantStop)
					}
				}
			}
		}
		c.Check(okG, key, rPol, fmt.Sprintf("helper reports stop=%v", wantStop), det, c.at(g.cmp))
	}
	for _, need := range []string{"Per==", "Freq==", "Per<", "Freq<"} {
		if !have[need] {
			c.Fail(fmt.Sprintf("%s:%s0", base, need), rPol, "guard "+need+"0 is missing", c.fnAt(h))
		}
	}
	okRest := true
	eachInstr(h, func(i ssa.Instruction) {
		if r, isR := i.(*ssa.Return); isR && !guarded[r] {
			if v, isC := constBool(r.Results[okIdx]); !isC || v {
				okRest = false
			}
		}
	})
	c.Check(okRest, base+":helper-default", rPol, "a finite positive rate is reported as not degenerate", "the helper reports a valid rate as degenerate (or its verdict is not constant)", c.fnAt(h))
	// guards first: arithmetic only where the helper said "not degenerate"
	const rFirst = "every integer division/multiplication in Pace executes only after all zero/negative guards have been evaluated false"
	okFirst := true
	n := 0
	eachInstr(fn, func(i ssa.Instruction) {
		if bo, ok := i.(*ssa.BinOp); ok && isInteger(bo.Type()) && (bo.Op == token.QUO || bo.Op == token.REM || bo.Op == token.MUL) {
			n++
			known := false
			for _, f := range factsAt(bo.Block()) {
				if f.Cond == ssa.Value(ex[okIdx]) && !f.Val {
					known = true
				}
			}
			if !known {
				okFirst = false
			}
		}
	})
	c.Check(okFirst, "guard-first:"+shortFn(fn), rFirst, fmt.Sprintf("%d arithmetic sites after the helper's verdict", n), "integer arithmetic runs before the validity helper's verdict is known", c.at(call))
	return true
}

func rateGuards(fn *ssa.Function) []rateGuard {
	var out []rateGuard
	eachInstr(fn, func(i ssa.Instruction) {
		bo, ok := i.(*ssa.BinOp)
		if !ok || (bo.Op != token.EQL && bo.Op != token.LSS) {
			return
		}
		if z, ok := constInt(bo.Y); !ok || z != 0 {
			return
		}
		ld, ok := isLoad(bo.X)
		if !ok {
			return
		}
		fa, ok := ld.X.(*ssa.FieldAddr)
		if !ok {
			return
		}
		st := fa.X.Type()
		if p, ok := st.Underlying().(*types.Pointer); ok {
			st = p.Elem()
		}
		if !isNamedType(st, "lib", "ConstantPacer") {
			return
		}
		f := fieldName(fa.X.Type(), fa.Field)
		if f != "Per" && f != "Freq" {
			return
		}
		op := "=="
		if bo.Op == token.LSS {
			op = "<"
		}
		out = append(out, rateGuard{bo, f, op})
	})
	return out
}

// edgeReturnsStop: the given edge of the If controlled by cond leads, without
// further branching on anything, only to returns whose last result is the
// constant wantStop. cond may be a comparison or a call result.
func edgeReturnsStop(cond ssa.Value, edge bool, wantStop bool) (bool, string) {
	ifi := implIf(cond, edge, 0)
	if ifi == nil {
		return false, "condition does not control a branch"
	}
	si := 0
	if !edge {
		si = 1
	}
	tgt := ifi.Block().Succs[si]
	set := exploreBlock(tgt, nil)
	rets := returnsIn(set)
	if len(rets) == 0 {
		return false, "edge reaches no return"
	}
	// the edge must lead straight to returns: every reached return has the constant
	for _, r := range rets {
		ret := r.(*ssa.Return)
		if len(ret.Results) < 2 {
			return false, "return has no stop result"
		}
		b, ok := constBool(ret.Results[len(ret.Results)-1])
		if !ok {
			return false, "stop result is not a constant on the guarded edge"
		}
		if b != wantStop {
			return false, fmt.Sprintf("guarded edge returns stop=%v, want %v", b, wantStop)
		}
		if wantStop == false || true {
			if w, ok := constInt(ret.Results[0]); !ok || w != 0 {
				return false, "guarded edge returns a non-zero/unknown wait"
			}
		}
	}
	// and it must not wander: all reached blocks are straight-line to a return
	for i := range set {
		if _, ok := i.(*ssa.If); ok {
			return false, "guarded edge branches again before returning"
		}
	}
	return true, ""
}

func dominatesAllReturns(i ssa.Instruction) bool {
	ok := true
	eachInstr(i.Parent(), func(x ssa.Instruction) {
		if _, isRet := x.(*ssa.Return); isRet && !instrDominates(i, x) {
			ok = false
		}
	})
	return ok
}

func paramOfType(fn *ssa.Function, t types.Type) *ssa.Parameter {
	for _, p := range fn.Params {
		if types.Identical(p.Type(), t) {
			return p
		}
	}
	return nil
}

// reachesDurationReturn: the value is converted to time.Duration (directly or
// after further arithmetic) and contributes to a returned wait.
func reachesDurationReturn(v ssa.Value) bool {
	seen := map[ssa.Value]bool{}
	var rec func(v ssa.Value, conv bool) bool
	rec = func(v ssa.Value, conv bool) bool {
		if seen[v] {
			return false
		}
		seen[v] = true
		for _, r := range refs(v) {
			switch x := r.(type) {
			case *ssa.Convert:
				isDur := isNamedType(x.Type(), "time", "Duration")
				if rec(x, conv || isDur) {
					return true
				}
			case *ssa.BinOp:
				if x.Op == token.QUO && x.Y == v {
					continue
				}
				switch x.Op {
				case token.ADD, token.SUB, token.MUL, token.QUO:
					if rec(x, conv) {
						return true
					}
				}
			case *ssa.Phi:
				if rec(x, conv) {
					return true
				}
			case *ssa.Return:
				if conv {
					return true
				}
			}
		}
		return false
	}
	// a product computed in time.Duration already is one
	return rec(v, isNamedType(v.Type(), "time", "Duration"))
}

// findOverflowGuard finds `MaxInt64 / mult < hits` (or `hits > MaxInt64/mult`).
func findOverflowGuard(fn *ssa.Function, mult ssa.Value, hits *ssa.Parameter) *ssa.BinOp {
	var out *ssa.BinOp
	eachInstr(fn, func(i ssa.Instruction) {
		cmp, ok := i.(*ssa.BinOp)
		if !ok {
			return
		}
		var q ssa.Value
		switch {
		case cmp.Op == token.LSS && cmp.Y == ssa.Value(hits):
			q = cmp.X
		case cmp.Op == token.GTR && cmp.X == ssa.Value(hits):
			q = cmp.Y
		default:
			return
		}
		qb, ok := q.(*ssa.BinOp)
		if !ok || qb.Op != token.QUO {
			return
		}
		if n, ok := constInt(qb.X); !ok || n != math.MaxInt64 {
			return
		}
		if qb.Y == mult || sameValue(fn, qb.Y, mult) {
			out = cmp
		}
	})
	return out
}

// notBehindKnown: the facts at b include the behind-schedule comparison being false.
func notBehindKnown(b *ssa.BasicBlock, behind *ssa.BinOp) bool {
	for _, f := range factsAt(b) {
		if f.Cond == ssa.Value(behind) && !f.Val {
			return true
		}
	}
	return false
}

// normDecimal maps the equivalent decimal renderings of an integer to one form.
func normDecimal(s string) string {
	for _, p := range []string{"strconv.Itoa(", "strconv.FormatUint(", "strconv.FormatInt("} {
		if strings.HasPrefix(s, p) && strings.HasSuffix(s, ")") {
			inner := s[len(p) : len(s)-1]
			if p != "strconv.Itoa(" {
				if !strings.HasSuffix(inner, ",10") {
					return s
				}
				inner = strings.TrimSuffix(inner, ",10")
			}
			return "decimal(" + inner + ")"
		}
	}
	return s
}

// resolveOnce follows a load of a write-once cell (a local or captured variable
// with exactly one store) to the stored value: `b64 := base64.StdEncoding`
// hoisted outside a closure describes as the global itself.
func resolveOnce(v ssa.Value) ssa.Value {
	for k := 0; k < 4; k++ {
		ld, ok := isLoad(v)
		if !ok {
			return v
		}
		cell := rootCell(ld.X)
		al, ok := cell.(*ssa.Alloc)
		if !ok {
			return v
		}
		var stored ssa.Value
		n := 0
		for _, fn := range withAnon(topFunc(al.Parent())) {
			eachInstr(fn, func(i ssa.Instruction) {
				if st, ok := i.(*ssa.Store); ok && rootCell(st.Addr) == ssa.Value(al) {
					n++
					stored = st.Val
				}
			})
		}
		if n != 1 || stored == nil {
			return v
		}
		if _, isParam := stored.(*ssa.Parameter); isParam {
			return v // a spilled parameter keeps its own (positional) name
		}
		v = stripConvKeep(stored)
	}
	return v
}

func topFunc(fn *ssa.Function) *ssa.Function {
	for fn.Parent() != nil {
		fn = fn.Parent()
	}
	return fn
}

func stripConvKeep(v ssa.Value) ssa.Value { return v }
