package main

import (
	"go/types"

	"golang.org/x/tools/go/ssa"
)

// spawnSite is a place in Attack or its loop where one worker is started:
// either a `go worker(...)` statement or a call of a local helper closure
// whose whole body is `wg.Add(1); go worker(...)`.
type spawnSite struct {
	At     ssa.Instruction // the go statement, or the call of the helper (in Attack / Loop)
	Fn     *ssa.Function   // Attack or Loop
	Go     *ssa.Go
	Helper *ssa.Function
}

// tickOffer is a place in the loop where a tick is offered to the workers:
// a select with a send on ticks, or a call of a helper whose body is such a
// select and which reports with a constant bool whether the tick was sent.
type tickOffer struct {
	At       ssa.Instruction
	Blocking bool
	HasStop  bool
	Sent     *ssa.BasicBlock // entered exactly when the tick was sent
	Stopped  *ssa.BasicBlock // entered when the stop channel fired (nil if none)
	Sel      *ssa.Select
	Helper   *ssa.Function
}

type shutdownEvent struct {
	Kind  int // 0 close(ticks) 1 wg.Wait 2 close(results) 3 Stop
	Instr ssa.Instruction
}

// workerGoStatements: go statements anywhere under Attack that hand the results channel to their callee.
func (a *attackAnchors) workerGos() []*ssa.Go {
	var out []*ssa.Go
	for _, f := range withAnon(a.Attack) {
		eachInstr(f, func(i ssa.Instruction) {
			g, ok := i.(*ssa.Go)
			if !ok {
				return
			}
			callee := goCallee(g)
			if callee == nil || callee == a.Loop {
				return
			}
			for _, arg := range g.Call.Args {
				if a.Results != nil && valueOrCell(arg) == a.Results {
					out = append(out, g)
					return
				}
			}
			// the worker written as a function literal: it captures the results channel and sends on it
			if callee.Parent() != nil && a.Results != nil {
				sends := false
				eachInstr(callee, func(j ssa.Instruction) {
					if sd, isSend := j.(*ssa.Send); isSend && valueOrCell(sd.Chan) == a.Results {
						sends = true
					}
				})
				if sends {
					out = append(out, g)
				}
			}
		})
	}
	return out
}

func (a *attackAnchors) resolveSpawns() []spawnSite {
	var out []spawnSite
	for _, g := range a.workerGos() {
		p := g.Parent()
		if p == a.Attack || p == a.Loop {
			out = append(out, spawnSite{At: g, Fn: p, Go: g})
			continue
		}
		// helper closure: find its call sites in Attack / Loop
		for _, f := range []*ssa.Function{a.Attack, a.Loop} {
			eachInstr(f, func(i ssa.Instruction) {
				call, ok := i.(*ssa.Call)
				if !ok {
					return
				}
				if closureOf(resolveOnceV(call.Call.Value)) == p {
					out = append(out, spawnSite{At: call, Fn: f, Go: g, Helper: p})
				}
			})
		}
	}
	return out
}

// tickSenderSummary: fn's body is one blocking select {send on the channel
// given (parameter or the ticks cell), receive on a.stopch}; the send case
// returns constant true, everything else constant false.
func (a *attackAnchors) tickSenderSummary(fn *ssa.Function, call *ssa.Call) (sel *ssa.Select, sentIdx, stoppedIdx int, ok bool) {
	sentIdx, stoppedIdx = -1, -1
	if fn == nil || len(fn.Blocks) == 0 {
		return nil, -1, -1, false
	}
	n := 0
	eachInstr(fn, func(i ssa.Instruction) {
		if s, isSel := i.(*ssa.Select); isSel {
			sel = s
			n++
		}
	})
	nres := fn.Signature.Results().Len()
	if n != 1 || nres < 1 || nres > 2 {
		return nil, -1, -1, false
	}
	for k := 0; k < nres; k++ {
		if b, isB := fn.Signature.Results().At(k).Type().Underlying().(*types.Basic); !isB || b.Kind() != types.Bool {
			return nil, -1, -1, false
		}
	}
	sendCase, stopCase := -1, -1
	for k, st := range sel.States {
		if st.Dir == types.RecvOnly && isStopchLoad(st.Chan) {
			stopCase = k
		}
		if st.Dir != types.SendOnly {
			continue
		}
		// the channel is a parameter fed with ticks at the call, or the captured ticks cell
		if p, isP := st.Chan.(*ssa.Parameter); isP {
			for pi, fp := range fn.Params {
				if fp == p && pi < len(call.Call.Args) && valueOrCell(call.Call.Args[pi]) == a.Ticks {
					sendCase = k
				}
			}
		} else if valueOrCell(st.Chan) == a.Ticks {
			sendCase = k
		}
	}
	if sendCase < 0 {
		return nil, -1, -1, false
	}
	sentBlk := selectCaseBlock(sel, sendCase)
	if sentBlk == nil {
		return nil, -1, -1, false
	}
	sentSet := exploreBlock(sentBlk, nil)
	var stopSet map[ssa.Instruction]bool
	if stopCase >= 0 {
		if sb := selectCaseBlock(sel, stopCase); sb != nil {
			stopSet = exploreBlock(sb, nil)
		}
	}
	// a result position reports "sent" when it is constant true exactly on the returns of the send
	// case, and "stopped" when it is constant true exactly on the returns of the stop case
	for k := 0; k < nres; k++ {
		isSent, isStopped, allConst := true, stopSet != nil, true
		eachInstr(fn, func(i ssa.Instruction) {
			r, isR := i.(*ssa.Return)
			if !isR {
				return
			}
			b, isC := constBool(r.Results[k])
			if !isC {
				allConst = false
				return
			}
			if sentSet[i] != b {
				isSent = false
			}
			if stopSet != nil && stopSet[i] != b {
				isStopped = false
			}
		})
		if !allConst {
			return nil, -1, -1, false
		}
		if isSent && sentIdx < 0 {
			sentIdx = k
		} else if isStopped && stoppedIdx < 0 {
			stoppedIdx = k
		}
	}
	return sel, sentIdx, stoppedIdx, sentIdx >= 0
}

func (a *attackAnchors) resolveOffers() []tickOffer {
	var out []tickOffer
	fn := a.Loop
	eachInstr(fn, func(i ssa.Instruction) {
		switch x := i.(type) {
		case *ssa.Select:
			o := tickOffer{At: x, Blocking: x.Blocking, Sel: x}
			sendIdx := -1
			for k, st := range x.States {
				if st.Dir == types.SendOnly && valueOrCell(st.Chan) == a.Ticks {
					sendIdx = k
				}
				if st.Dir == types.RecvOnly && isStopchLoad(st.Chan) {
					o.HasStop = true
					o.Stopped = selectCaseBlock(x, k)
				}
			}
			if sendIdx < 0 {
				return
			}
			o.Sent = selectCaseBlock(x, sendIdx)
			out = append(out, o)
		case *ssa.Call:
			callee := x.Call.StaticCallee()
			if callee == nil {
				callee = closureOf(resolveOnceV(x.Call.Value))
			}
			if callee == nil || callee.Pkg != fn.Pkg || callee == a.Worker || callee == a.Hit {
				return
			}
			sel, sentIdx, stoppedIdx, ok := a.tickSenderSummary(callee, x)
			if !ok {
				return
			}
			o := tickOffer{At: x, Blocking: sel.Blocking, Sel: sel, Helper: callee}
			for _, st := range sel.States {
				if st.Dir == types.RecvOnly && isStopchLoad(st.Chan) {
					o.HasStop = true
				}
			}
			result := func(k int) ssa.Value {
				if callee.Signature.Results().Len() == 1 {
					return x
				}
				for _, r := range refs(x) {
					if ex, isEx := r.(*ssa.Extract); isEx && ex.Index == k {
						return ex
					}
				}
				return nil
			}
			if v := result(sentIdx); v != nil {
				if t, f, _ := branchOn(v); t != nil {
					o.Sent = t
					if callee.Signature.Results().Len() == 1 && sel.Blocking {
						o.Stopped = f // a blocking send-or-stop helper: not sent means stopped
					}
				}
			}
			if stoppedIdx >= 0 {
				if v := result(stoppedIdx); v != nil {
					if t, _, _ := branchOn(v); t != nil {
						o.Stopped = t
					}
				}
			}
			if o.Sent == nil {
				return
			}
			out = append(out, o)
		}
	})
	return out
}

// shutdownEvents flattens what the loop goroutine defers (in execution order).
func (a *attackAnchors) resolveShutdown() (events []shutdownEvent, registered bool) {
	if a.Loop == nil {
		return nil, false
	}
	var defers []*ssa.Defer
	registered = true
	entry := a.Loop.Blocks[0]
	eachInstr(a.Loop, func(i ssa.Instruction) {
		if d, ok := i.(*ssa.Defer); ok {
			defers = append(defers, d)
			if d.Block() != entry {
				registered = false
			}
		}
	})
	// nothing that can leave the function precedes the defers in the entry block
	lastDefer := -1
	for k, i := range entry.Instrs {
		if _, ok := i.(*ssa.Defer); ok {
			lastDefer = k
		}
	}
	for k, i := range entry.Instrs {
		if k >= lastDefer {
			break
		}
		switch i.(type) {
		case *ssa.MakeClosure, *ssa.Alloc, *ssa.Store, *ssa.UnOp, *ssa.Defer, *ssa.FieldAddr, *ssa.ChangeType, *ssa.Convert, *ssa.MakeInterface:
		default:
			registered = false
		}
	}
	classify := func(i ssa.Instruction) (int, bool) {
		switch {
		case isCloseOf(i, a.Ticks):
			return 0, true
		case isCallTo(i, "(*sync.WaitGroup).Wait") && valueOrCell(i.(ssa.CallInstruction).Common().Args[0]) == a.WG:
			return 1, true
		case isCloseOf(i, a.Results):
			return 2, true
		case isCallTo(i, "(*lib.Attacker).Stop"):
			return 3, true
		}
		return 0, false
	}
	for k := len(defers) - 1; k >= 0; k-- { // LIFO
		d := defers[k]
		if cl := literalOf(d.Call.Value); cl != nil && cl.Parent() != nil {
			// events of the closure in dominance order; only straight-line closures are accepted
			var evs []shutdownEvent
			eachInstr(cl, func(i ssa.Instruction) {
				if kind, ok := classify(i); ok {
					evs = append(evs, shutdownEvent{kind, i})
				}
			})
			for x := 1; x < len(evs); x++ {
				for y := x; y > 0 && instrDominates(evs[y].Instr, evs[y-1].Instr); y-- {
					evs[y], evs[y-1] = evs[y-1], evs[y]
				}
			}
			events = append(events, evs...)
			continue
		}
		if kind, ok := classify(d); ok {
			events = append(events, shutdownEvent{kind, d})
			continue
		}
		// `defer a.finish(ticks, &wg, results)`: a named helper invoked only here; its parameters
		// stand for these arguments (valueOrCell follows them)
		if h := d.Call.StaticCallee(); h != nil && h.Pkg == a.Loop.Pkg && len(h.Blocks) > 0 && uniqueSite(h) == ssa.CallInstruction(d) {
			var evs []shutdownEvent
			eachInstr(h, func(i ssa.Instruction) {
				if kind, ok := classify(i); ok {
					evs = append(evs, shutdownEvent{kind, i})
				}
			})
			for x := 1; x < len(evs); x++ {
				for y := x; y > 0 && instrDominates(evs[y].Instr, evs[y-1].Instr); y-- {
					evs[y], evs[y-1] = evs[y-1], evs[y]
				}
			}
			events = append(events, evs...)
		}
	}
	return events, registered
}

// goCallee: the function a go statement starts — a static callee, or a function literal held in a
// local that is assigned once (`worker := func() {…}; go worker()`).
func goCallee(g *ssa.Go) *ssa.Function {
	if f := g.Call.StaticCallee(); f != nil {
		return f
	}
	if g.Call.IsInvoke() {
		return nil
	}
	return closureOf(resolveOnceV(g.Call.Value))
}
