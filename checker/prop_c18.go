package main

import (
	"fmt"
	"go/token"
	"go/types"
	"sort"
	"strings"

	"golang.org/x/tools/go/ssa"
)

func init() {
	register(&propSpec{
		ID:    "C18",
		Title: "Connections spread over all resolved and mapped addresses, race-free",
		Explanation: "DECIDED (borrow, concurrency-state and ordering rules): cache-borrowed (the slice returned by (*dnscache.Resolver).LookupHost is the cache entry's own slice; nothing derived from it reaches a mutating sink — a swap closure, an append onto a reslice, a sort, or an in-package callee that does so, e.g. firstOfEachIPFamily compacting into ips[:0]; a copy clears the taint); conc-state (closures installed as Transport.DialContext run on many workers: every store to state that outlives one call — captured variables or objects reached through captured containers — is atomic or under a captured mutex, no method of a not-goroutine-safe type such as *math/rand.Rand is called on captured state, atomically accessed fields are never accessed plainly); capture allowlist (a dial closure captures only the previous dial function and the resolver / mapping it is documented to consult, so the dialled address can only come from this call's lookup or the mapping, not from a side cache); rotation (one atomic Add per mapped dial, index from its result modulo len of the same address list; unmapped addresses pass through unchanged); one address per family and happy-eyeballs accounting (channel capacity = number of goroutines spawned = receives); wrapper chaining (each wrapping option dials through the DialContext it found, falling back to the dialer only when nil); composition order of the attack command's NewAttacker call (DialContext resets before wraps, DNSCaching before ConnectTo, the transport-replacing option after every option that needs *http.Transport). " +
			"NOT DECIDED: uniformity of the random pick, 'keeps being used over time', and race-detector schedules.",
		Assumptions: []string{"dnscache.Resolver.LookupHost returns the cache entry's slice (read in the dependency source)", "math/rand package-level functions are goroutine-safe"},
		MinObs:      12,
		Run:         runC18,
	})
}

// dialClosures finds every closure stored into an http.Transport.DialContext field in lib.
type dialClosure struct {
	option *ssa.Function // the option closure func(a *Attacker) that installs it
	fn     *ssa.Function
	store  *ssa.Store
}

func isDialContextField(addr ssa.Value) bool {
	fa, ok := addr.(*ssa.FieldAddr)
	return ok && isNamedType(fa.X.Type(), "net/http", "Transport") && fieldName(fa.X.Type(), fa.Field) == "DialContext"
}

func dialClosures(c *Ctx) []dialClosure {
	var out []dialClosure
	for _, fn := range c.P.RepoFuncs("lib") {
		eachInstr(fn, func(i ssa.Instruction) {
			st, ok := i.(*ssa.Store)
			if !ok || !isDialContextField(st.Addr) {
				return
			}
			if cl := closureOf(st.Val); cl != nil && cl.Parent() == fn {
				out = append(out, dialClosure{fn, cl, st})
			} else if m := boundMethod(st.Val); m != nil && m.Pkg == fn.Pkg {
				// `tr.DialContext = (&dialer{…}).DialContext`: state in struct fields instead of captures
				out = append(out, dialClosure{fn, m, st})
			}
		})
	}
	return out
}

func runC18(c *Ctx) {
	dcs := dialClosures(c)
	if len(dcs) < 2 {
		c.Undecided("anchor:lib.DialContext", "anchors resolve", fmt.Sprintf("%d closures installed as Transport.DialContext; expected at least DNSCaching and ConnectTo", len(dcs)))
		return
	}
	for _, dc := range dcs {
		c.Saw("dial closure " + shortFn(dc.fn))
	}
	c18Borrow(c, dcs)
	c18ConcState(c, dcs)
	c18Rotation(c, dcs)
	c18Families(c)
	c18BothFamilies(c)
	c18Chaining(c, dcs)
	c18OptionOrder(c)
	c18Refresh(c)
	c15ResolverRotation(c)
}

// c18Refresh: with a positive TTL the cache is refreshed by a goroutine calling Resolver.Refresh(true):
// entries used since the last tick are re-resolved and the others are dropped (and resolved afresh
// when next dialled). Refresh(false) keeps unused entries for ever without re-resolving them.
func c18Refresh(c *Ctx) {
	const rule = "DNSCaching's refresh goroutine calls dnscache.Resolver.Refresh(true) on every tick: no cache entry outlives one refresh interval without being re-resolved"
	key := "dns-refresh:lib.DNSCaching"
	var calls []*ssa.Call
	for _, fn := range c.P.RepoFuncs("lib") {
		eachInstr(fn, func(i ssa.Instruction) {
			if call, ok := i.(*ssa.Call); ok && strings.HasSuffix(callName(&call.Call), "dnscache.Resolver).Refresh") {
				calls = append(calls, call)
			}
		})
	}
	if len(calls) == 0 {
		c.Fail(key, rule, "the DNS cache is never refreshed", c.fnAt(c.P.Func("lib", "DNSCaching")))
		return
	}
	ok, why := true, ""
	var sites []string
	for _, call := range calls {
		sites = append(sites, c.at(call))
		if b, isB := constBool(call.Call.Args[1]); !isB || !b {
			ok, why = false, "Refresh is not called with clearUnused=true: entries of hosts not dialled during one interval stay in the cache with their old addresses and are never re-resolved"
		}
		if loopHeaderOf(call.Block()) == nil {
			ok, why = false, "Refresh is not called periodically (not inside the ticker loop)"
		}
	}
	c.Check(ok, key, rule, "Refresh(true) in the ticker loop", why, sites...)
}

func isLookupHostResult(v ssa.Value) bool {
	ex, ok := v.(*ssa.Extract)
	if !ok || ex.Index != 0 {
		return false
	}
	call, ok := ex.Tuple.(*ssa.Call)
	return ok && strings.HasSuffix(callName(&call.Call), "dnscache.Resolver).LookupHost")
}

func c18Borrow(c *Ctx, dcs []dialClosure) {
	const rule = "the slice returned by the DNS cache is the cache entry itself and must not reach a mutating sink (in-place shuffle, compaction into ips[:0], sort, append onto a reslice); copy it first"
	n := 0
	for _, dc := range dcs {
		uses := false
		eachInstr(dc.fn, func(i ssa.Instruction) {
			if v, ok := i.(ssa.Value); ok && isLookupHostResult(v) {
				uses = true
			}
		})
		if !uses {
			continue
		}
		n++
		key := "borrow:" + shortFn(dc.fn) + ":LookupHost"
		res := analyzeBorrow(dc.fn, isLookupHostResult, 0)
		if len(res.Sinks) > 0 {
			var sites []string
			for _, s := range res.Sinks {
				sites = append(sites, c.at(s.Instr))
			}
			c.Fail(key, rule, res.Sinks[0].What+": repeated or concurrent dialling alters the cached address set (addresses are lost for good)", sites...)
		} else {
			c.Pass(key, rule, fmt.Sprintf("%d values derived from the cached slice, none reaches a mutating sink", len(res.Tainted)), c.fnAt(dc.fn))
		}
	}
	if n == 0 {
		c.Undecided("borrow:lib.DNSCaching:LookupHost", rule, "no dial closure calls dnscache LookupHost")
	}
}

func c18ConcState(c *Ctx, dcs []dialClosure) {
	const rule = "a DialContext closure is called concurrently by all workers: stores to state that outlives the call (captured variables, objects reached through captured containers) are atomic or under a captured mutex; no method of a not-goroutine-safe type is called on captured state; a field accessed atomically is never accessed plainly"
	const rCap = "a dial closure captures only the previous dial function and the resolver/mapping it consults (frozen allowlist by type); anything else (a side cache, a private RNG) needs review"
	for _, dc := range dcs {
		fns := withAnon(dc.fn)
		var bad []ssa.Instruction
		badWhat := map[ssa.Instruction]string{}
		atomicFields := map[string]bool{}
		for _, f := range fns {
			eachInstr(f, func(i ssa.Instruction) {
				if call, ok := isAtomicCall(i); ok && len(call.Call.Args) > 0 {
					if fa, ok := call.Call.Args[0].(*ssa.FieldAddr); ok {
						atomicFields[fieldKeyOf(fa.X.Type(), fa.Field)] = true
					}
				}
			})
		}
		for _, f := range fns {
			ls := computeLockset(f)
			eachInstr(f, func(i ssa.Instruction) {
				held := len(ls.Held(i)) > 0
				switch x := i.(type) {
				case *ssa.Store:
					if sharedAddr(x.Addr, dc.fn) && !held {
						bad = append(bad, i)
						badWhat[i] = "plain store to " + describeAddr(x.Addr)
					}
				case *ssa.MapUpdate:
					if sharedValue(x.Map, dc.fn) && !held {
						bad = append(bad, i)
						badWhat[i] = "write to a shared map"
					}
				case *ssa.UnOp:
					if x.Op == token.MUL {
						if fa, ok := x.X.(*ssa.FieldAddr); ok && atomicFields[fieldKeyOf(fa.X.Type(), fa.Field)] && !held {
							bad = append(bad, i)
							badWhat[i] = "plain load of atomically updated field " + fieldName(fa.X.Type(), fa.Field)
						}
					}
				case ssa.CallInstruction:
					cc := x.Common()
					var recv ssa.Value
					if cc.IsInvoke() {
						recv = cc.Value
					} else if cal := cc.StaticCallee(); cal != nil && cal.Signature.Recv() != nil && len(cc.Args) > 0 {
						recv = cc.Args[0]
					}
					if recv != nil {
						if tn, unsafe := isUnsafeType(recv.Type()); unsafe && sharedValue(recv, dc.fn) && !held {
							bad = append(bad, i)
							badWhat[i] = "method of " + tn + " (not safe for concurrent use) on captured state"
						}
					}
				}
			})
		}
		// name the key after the first offending construct so known findings stay specific
		if len(bad) > 0 {
			groups := map[string][]ssa.Instruction{}
			for _, b := range bad {
				groups[concKeySuffix(b)] = append(groups[concKeySuffix(b)], b)
			}
			var ks []string
			for k := range groups {
				ks = append(ks, k)
			}
			sort.Strings(ks)
			for _, k := range ks {
				c.Fail("conc-state:"+shortFn(dc.fn)+":"+k, rule, badWhat[groups[k][0]]+" without synchronisation (data race between workers)", c.ats(groups[k])...)
			}
		} else {
			c.Pass("conc-state:"+shortFn(dc.fn), rule, "no unsynchronised shared write", c.fnAt(dc.fn))
		}

		// capture allowlist
		var odd []string
		for _, fv := range dc.fn.FreeVars {
			t := fv.Type()
			if p, ok := t.(*types.Pointer); ok {
				t = p.Elem()
			}
			immutableScalar := false
			if b, isB := t.Underlying().(*types.Basic); isB && b.Kind() != types.UnsafePointer {
				// a captured scalar (e.g. the socket path) that nothing writes is a constant of the closure
				immutableScalar = true
				for _, f := range withAnon(dc.fn) {
					eachInstr(f, func(i ssa.Instruction) {
						if st, isSt := i.(*ssa.Store); isSt && rootCell(st.Addr) == rootCell(fv) {
							immutableScalar = false
						}
					})
				}
				if al, isAl := bindingOf(fv).(*ssa.Alloc); isAl {
					n := 0
					for _, r := range refs(al) {
						if st, isSt := r.(*ssa.Store); isSt && st.Addr == ssa.Value(al) {
							n++
						}
					}
					if n != 1 {
						immutableScalar = false
					}
				}
			}
			switch {
			case isFuncType(t): // previous dialer
			case isNamedType(t, "github.com/rs/dnscache", "Resolver"):
			case isMapOfRoundRobin(t):
			case immutableScalar:
			default:
				odd = append(odd, fv.Name()+" "+shortType(t))
			}
		}
		c.Check(len(odd) == 0, "capture-allowlist:"+shortFn(dc.fn), rCap, fmt.Sprintf("%d captures, all allowlisted", len(dc.fn.FreeVars)), "captures outside the allowlist: "+strings.Join(odd, ", ")+" (the dialled address may come from stale side state, or shared state may be unsynchronised)", c.fnAt(dc.fn))
	}
}

func isFuncType(t types.Type) bool {
	if p, ok := t.(*types.Pointer); ok {
		t = p.Elem()
	}
	_, ok := t.Underlying().(*types.Signature)
	return ok
}

func isMapOfRoundRobin(t types.Type) bool {
	if p, ok := t.(*types.Pointer); ok {
		t = p.Elem()
	}
	m, ok := t.Underlying().(*types.Map)
	if !ok {
		return false
	}
	if b, ok := m.Key().Underlying().(*types.Basic); !ok || b.Kind() != types.String {
		return false
	}
	return true
}

func concKeySuffix(i ssa.Instruction) string {
	switch x := i.(type) {
	case *ssa.Store:
		return describeAddr(x.Addr)
	case *ssa.UnOp:
		return describeAddr(x.X)
	case ssa.CallInstruction:
		cc := x.Common()
		var recv ssa.Value
		if cc.IsInvoke() {
			recv = cc.Value
		} else if len(cc.Args) > 0 {
			recv = cc.Args[0]
		}
		if fv := rootedAtFreeVar(recv); fv != nil {
			return fv.Name()
		}
	}
	return "state"
}

func describeAddr(a ssa.Value) string {
	if fa, ok := a.(*ssa.FieldAddr); ok {
		t := fa.X.Type()
		if p, ok := t.Underlying().(*types.Pointer); ok {
			t = p.Elem()
		}
		name := shortType(t)
		if i := strings.LastIndex(name, "."); i >= 0 {
			name = name[i+1:]
		}
		return name + "." + fieldName(fa.X.Type(), fa.Field)
	}
	if fv := rootedAtFreeVar(a); fv != nil {
		return fv.Name()
	}
	return strings.TrimPrefix(path(a), "&")
}

// sharedAddr: the address denotes memory that outlives one invocation of the dial
// closure top: rooted at a free variable of top (directly or via nested
// closures' bindings), or at a value obtained from such (map lookup result, field of it).
func sharedAddr(addr ssa.Value, top *ssa.Function) bool {
	switch x := addr.(type) {
	case *ssa.FieldAddr:
		return sharedValue(x.X, top)
	case *ssa.IndexAddr:
		return sharedValue(x.X, top)
	case *ssa.FreeVar:
		root := rootCell(x)
		if al, ok := root.(*ssa.Alloc); ok {
			// a local of the dial closure itself (or of its nested closures) is per-call state
			for f := al.Parent(); f != nil; f = f.Parent() {
				if f == top {
					return false
				}
			}
			return true
		}
		return true
	case *ssa.Global:
		return true
	case *ssa.Alloc:
		return false
	}
	return false
}

func sharedValue(v ssa.Value, top *ssa.Function) bool {
	for k := 0; k < 16 && v != nil; k++ {
		switch x := v.(type) {
		case *ssa.FreeVar:
			return sharedAddr(x, top)
		case *ssa.Global:
			return true
		case *ssa.Alloc:
			return false
		case *ssa.Parameter:
			return false
		case *ssa.UnOp:
			v = x.X
		case *ssa.FieldAddr:
			v = x.X
		case *ssa.Field:
			v = x.X
		case *ssa.IndexAddr:
			v = x.X
		case *ssa.Extract:
			v = x.Tuple
		case *ssa.Lookup:
			v = x.X
		case *ssa.ChangeType:
			v = x.X
		case *ssa.Phi:
			for _, e := range x.Edges {
				if sharedValue(e, top) {
					return true
				}
			}
			return false
		default:
			return false
		}
	}
	return false
}

func c18Rotation(c *Ctx, dcs []dialClosure) {
	const rule = "a dial to a mapped address picks addrs[n % len(addrs)] where n is the result of this call's single atomic Add on that mapping's counter (inline or in a helper method of the mapping entry); unmapped addresses are passed through unchanged"
	for _, dc := range dcs {
		if !strings.Contains(shortFn(dc.fn), "ConnectTo") && !strings.Contains(shortFn(dc.option), "ConnectTo") {
			continue
		}
		key := "atomic-rotation:" + shortFn(dc.fn)
		var ops []*ssa.Call
		for _, f := range region(dc.fn) {
			eachInstr(f, func(i ssa.Instruction) {
				if call, ok := isAtomicCall(i); ok {
					ops = append(ops, call)
				}
			})
		}
		ok := len(ops) == 1 && atomicKind(&ops[0].Call) == "add"
		why := fmt.Sprintf("%d atomic operations per mapped dial; a load/store pair is not an atomic increment (two workers get the same index): want exactly one atomic Add", len(ops))
		if len(ops) == 0 {
			why = "the round-robin counter is not advanced atomically"
		}
		var pick ssa.Value
		if ok && loopHeaderOf(ops[0].Block()) != nil {
			ok, why = false, "the mapping is consulted in a loop (a replacement that is itself a source address is translated again: the first-level replacements no longer receive an even share)"
		}
		if ok {
			if d, isD := constInt(ops[0].Call.Args[1]); !isD || d != 1 {
				ok, why = false, "the counter does not advance by one"
			}
		}
		if ok {
			F := ops[0].Parent()
			ok, why = false, "the replacement is not addrs[counter % len(addrs)] of the same mapping entry"
			eachInstr(F, func(i ssa.Instruction) {
				ia, isIA := i.(*ssa.IndexAddr)
				if !isIA {
					return
				}
				rem, isRem := stripConv(ia.Index).(*ssa.BinOp)
				if !isRem || rem.Op != token.REM || stripConv(rem.X) != ssa.Value(ops[0]) {
					return
				}
				if lenOf(stripConv(rem.Y), func(v ssa.Value) bool { return path(v) == path(ia.X) }) {
					cfa, isC := ops[0].Call.Args[0].(*ssa.FieldAddr)
					ld, isL := isLoad(ia.X)
					if isC && isL {
						if lfa, isF := ld.X.(*ssa.FieldAddr); isF && lfa.X == cfa.X {
							for _, r := range refs(ia) {
								if l2, isL2 := r.(*ssa.UnOp); isL2 {
									if F == dc.fn {
										pick = l2
										ok = true
									} else {
										// helper: it must return the picked element; the pick is its call in the closure
										ret := false
										eachInstr(F, func(j ssa.Instruction) {
											if rr, isR := j.(*ssa.Return); isR && len(rr.Results) == 1 && rr.Results[0] == ssa.Value(l2) {
												ret = true
											}
										})
										eachInstr(dc.fn, func(j ssa.Instruction) {
											if call, isCall := j.(*ssa.Call); isCall && call.Call.StaticCallee() == F && ret {
												pick = call
												ok = true
											}
										})
									}
								}
							}
						}
					}
				}
			})
		}
		if ok {
			// every dial through the captured dialer gets the original address (unmapped) or the pick (mapped)
			nOrig, nPick := 0, 0
			okArgs := true
			var classify func(v ssa.Value)
			classify = func(v ssa.Value) {
				switch {
				case v == ssa.Value(userParam(dc.fn, 2)):
					nOrig++
				case v == pick:
					nPick++
				default:
					if phi, isPhi := v.(*ssa.Phi); isPhi {
						for _, e := range phi.Edges {
							classify(e)
						}
						return
					}
					okArgs = false
				}
			}
			eachInstr(dc.fn, func(i ssa.Instruction) {
				call, isCall := i.(*ssa.Call)
				if !isCall || call.Call.StaticCallee() != nil || call.Call.IsInvoke() || len(call.Call.Args) != 3 {
					return
				}
				if ld, isL := isLoad(call.Call.Value); !isL || !isFuncType(ld.X.Type()) {
					return
				}
				classify(call.Call.Args[2])
			})
			if !okArgs || nOrig == 0 || nPick == 0 {
				ok, why = false, "the address handed to the underlying dialer is not {the original address when unmapped, the picked replacement when mapped}"
			}
		}
		c.Check(ok, key, rule, "one atomic.Add; addrs[n % len(addrs)]; pass-through otherwise", why, c.atsOr(instrsOf(ops), dc.fn)...)
	}
}

func c18Families(c *Ctx) {
	const rule = "the DNS dial starts one goroutine per selected address, each sending exactly once on a channel whose capacity is the number of goroutines, and receives exactly cap(ch) results (no goroutine is left blocked, no result is lost)"
	for _, fn := range c.P.RepoFuncs("lib") {
		if !strings.HasPrefix(shortFn(fn), "lib.DNSCaching$") {
			continue
		}
		k := 0
		eachInstr(fn, func(i ssa.Instruction) {
			g, ok := i.(*ssa.Go)
			if !ok {
				return
			}
			callee := closureOf(g.Call.Value)
			if callee == nil {
				return
			}
			key := fmt.Sprintf("dial-race-accounting:%s#%d", shortFn(fn), k)
			k++
			if why, ok := stopchLoopTerminates(callee); ok {
				c.Pass(key, rule, "refresh goroutine: "+why, c.at(g))
				return
			}
			why, ok := oneShotBufferedSender(g, callee)
			if ok {
				// receives: loop bounded by cap(ch)
				okRecv := false
				// the slice whose length sized the channel
				var sized ssa.Value
				eachInstr(fn, func(j ssa.Instruction) {
					if mk, isMk := j.(*ssa.MakeChan); isMk {
						if lc, isLc := mk.Size.(*ssa.Call); isLc && callName(&lc.Call) == "builtin:len" {
							sized = lc.Call.Args[0]
						}
					}
				})
				eachInstr(fn, func(j ssa.Instruction) {
					call, isCall := j.(*ssa.Call)
					if !isCall {
						return
					}
					n := callName(&call.Call)
					if n != "builtin:cap" && !(n == "builtin:len" && sized != nil && sameSliceValue(call.Call.Args[0], sized)) {
						return
					}
					for _, r := range refs(call) {
						bo, isBo := r.(*ssa.BinOp)
						if !isBo || bo.Op != token.LSS || !isRangeIndex(bo.X) {
							continue
						}
						// the bounded loop must contain a receive from the channel
						if ifi := trueImpliesIf(bo); ifi != nil {
							for x := range exploreBlock(ifi.Block().Succs[0], func(y ssa.Instruction) bool { return y.Block() == bo.Block() }) {
								if u, isU := x.(*ssa.UnOp); isU && u.Op == token.ARROW {
									okRecv = true
								}
							}
						}
					}
				})
				if !okRecv {
					ok, why = false, "the results are not received cap(ch) times"
				}
			}
			c.Check(ok, key, rule, why, why, c.at(g))
		})
	}
	// firstOfEachIPFamily returns at most two addresses, one per family
	const rF = "firstOfEachIPFamily stops after two picks and appends an address only when it is the first or of the other family than the last pick"
	fn := c.P.Func("lib", "firstOfEachIPFamily")
	key := "one-per-family:lib.firstOfEachIPFamily"
	if fn == nil {
		c.Undecided(key, rF, "function not found")
		return
	}
	okBound := false
	eachInstr(fn, func(i ssa.Instruction) {
		bo, ok := i.(*ssa.BinOp)
		if !ok {
			return
		}
		switch bo.Op {
		case token.LSS, token.GEQ, token.EQL, token.NEQ:
		default:
			return
		}
		if two, isTwo := constInt(bo.Y); isTwo && two == 2 {
			if call, isCall := bo.X.(*ssa.Call); isCall && callName(&call.Call) == "builtin:len" && trueImpliesIf(bo) != nil {
				okBound = true
			}
		}
	})
	c.Check(okBound, key, rF, "len(each) < 2 bounds the scan", "the selection is not bounded to one address per family", c.fnAt(fn))

	// random pick: shuffle, then first of each family, on the same (copied) slice
	const rR = "the DNS dial shuffles the (copied) address list with the goroutine-safe math/rand.Shuffle and then takes the first address of each family from that same list"
	for _, f := range c.P.RepoFuncs("lib") {
		if !strings.HasPrefix(shortFn(f), "lib.DNSCaching$") {
			continue
		}
		fe := callsNamed(f, "lib.firstOfEachIPFamily")
		if len(fe) == 0 {
			continue
		}
		keyR := "random-pick:" + shortFn(f)
		sh := callsNamed(f, "math/rand.Shuffle", "math/rand/v2.Shuffle")
		ok := len(sh) == 1 && len(fe) == 1 && instrDominates(sh[0], fe[0])
		why := "the address list is not shuffled (with math/rand.Shuffle) before one address per family is taken: the same addresses would always be dialled"
		if !ok && len(sh) == 0 && len(fe) == 1 {
			// helper form: firstOfEachIPFamily(shuffledCopy(ips)) — the helper shuffles the list it returns
			if hc, isCall := fe[0].(*ssa.Call).Call.Args[0].(*ssa.Call); isCall {
				if h := hc.Call.StaticCallee(); h != nil && h.Pkg == f.Pkg && len(h.Blocks) > 0 {
					hs := callsNamed(h, "math/rand.Shuffle", "math/rand/v2.Shuffle")
					if len(hs) == 1 {
						sc := hs[0].(*ssa.Call)
						swap := closureOf(sc.Call.Args[1])
						good := swap != nil
						nret := 0
						eachInstr(h, func(i ssa.Instruction) {
							ret, isR := i.(*ssa.Return)
							if !isR || !good {
								return
							}
							nret++
							cell := loadedCell(ret.Results[0])
							same := false
							if cell != nil {
								for _, fv := range swap.FreeVars {
									if rootCell(fv) == cell {
										same = true
									}
								}
							}
							if !same || !instrDominates(sc, ret) || !lenOf(sc.Call.Args[0], func(v ssa.Value) bool { return loadedCell(v) == cell }) {
								good = false
							}
						})
						n := 0
						if swap != nil {
							eachInstr(swap, func(i ssa.Instruction) {
								if st, isSt := i.(*ssa.Store); isSt {
									if _, isIA := st.Addr.(*ssa.IndexAddr); isIA {
										n++
									}
								}
							})
						}
						if good && nret > 0 && n == 2 {
							c.Pass(keyR, rR, "firstOfEachIPFamily("+h.Name()+"(ips)): the helper shuffles the list it returns", c.at(sc), c.at(fe[0]))
							continue
						}
					}
				}
			}
		}
		if ok {
			sc, fc := sh[0].(*ssa.Call), fe[0].(*ssa.Call)
			cell := loadedCell(fc.Call.Args[0])
			swap := closureOf(sc.Call.Args[1])
			sameCell := false
			if swap != nil && cell != nil {
				for _, fv := range swap.FreeVars {
					if rootCell(fv) == cell {
						sameCell = true
					}
				}
			}
			if !sameCell || !lenOf(sc.Call.Args[0], func(v ssa.Value) bool { return loadedCell(v) == cell }) {
				ok, why = false, "shuffle and selection do not work on the same list"
			}
			if ok {
				// swap closure swaps i and j: two stores through the captured slice
				n := 0
				eachInstr(swap, func(i ssa.Instruction) {
					if st, isSt := i.(*ssa.Store); isSt {
						if _, isIA := st.Addr.(*ssa.IndexAddr); isIA {
							n++
						}
					}
				})
				if n != 2 {
					ok, why = false, "the shuffle callback is not a swap"
				}
			}
		}
		c.Check(ok, keyR, rR, "rand.Shuffle(len(ips), swap) → firstOfEachIPFamily(ips)", why, c.atsOr(sh, f)...)
	}
}

func c18Chaining(c *Ctx, dcs []dialClosure) {
	const rule = "a wrapping option captures the transport's current DialContext (falling back to the attacker's dialer only when it is nil) and its closure dials through that captured function"
	for _, dc := range dcs {
		// does the closure dial through a captured func?
		var dialFV *ssa.FreeVar
		for _, f := range withAnon(dc.fn) {
			eachInstr(f, func(i ssa.Instruction) {
				call, ok := i.(*ssa.Call)
				if !ok || call.Call.IsInvoke() || call.Call.StaticCallee() != nil {
					return
				}
				if ld, isL := isLoad(call.Call.Value); isL {
					if fv, isFV := ld.X.(*ssa.FreeVar); isFV && isFuncType(fv.Type()) {
						root := fv
						// nested closure: map back to the dial closure's own free variable
						for root.Parent() != dc.fn {
							b := bindingOf(root)
							r2, isFV2 := b.(*ssa.FreeVar)
							if !isFV2 {
								break
							}
							root = r2
						}
						if root.Parent() == dc.fn {
							dialFV = root
						}
					}
				}
			})
		}
		key := "wrapper-chaining:" + shortFn(dc.fn)
		var cell *ssa.Alloc
		if dialFV != nil {
			cell, _ = bindingOf(dialFV).(*ssa.Alloc)
		} else if f := recvFuncFieldCalled(dc.fn); f >= 0 {
			// struct form: the field is filled by the option from its `dial` variable
			eachInstr(dc.option, func(i ssa.Instruction) {
				if st, isSt := i.(*ssa.Store); isSt {
					if fa, isFA := st.Addr.(*ssa.FieldAddr); isFA && fa.Field == f && types.Identical(fa.X.Type(), dc.fn.Params[0].Type()) {
						if al, isAl := loadedCell(st.Val).(*ssa.Alloc); isAl {
							cell = al
						}
					}
				}
			})
			if cell == nil {
				// the option's `dial` is a plain local here (nothing captures it): φ[tr.DialContext, fallback | tr.DialContext == nil]
				okV, whyV := false, "the dial function held by the dialer struct is not the transport's previous DialContext"
				eachInstr(dc.option, func(i ssa.Instruction) {
					st, isSt := i.(*ssa.Store)
					if !isSt {
						return
					}
					fa, isFA := st.Addr.(*ssa.FieldAddr)
					if !isFA || fa.Field != f || !types.Identical(fa.X.Type(), dc.fn.Params[0].Type()) {
						return
					}
					v := stripConv(strip(st.Val))
					edges := []ssa.Value{v}
					var preds []*ssa.BasicBlock
					if phi, isPhi := v.(*ssa.Phi); isPhi {
						edges = phi.Edges
						preds = phi.Block().Preds
					}
					fromTr, bad := false, false
					for k, e := range edges {
						e = stripConv(strip(e))
						if ld, isL := isLoad(e); isL && isDialContextField(ld.X) {
							fromTr = true
							if !instrDominates(ld, dc.store) {
								bad = true
							}
							continue
						}
						// fallback only where the previous DialContext was nil
						guarded := false
						if preds != nil {
							for _, fct := range factsAt(preds[k]) {
								if bo, isBo := fct.Cond.(*ssa.BinOp); isBo && bo.Op == token.EQL && fct.Val && isNilConst(bo.Y) {
									if ld, isL := isLoad(stripConv(strip(bo.X))); isL && isDialContextField(ld.X) {
										guarded = true
									}
								}
							}
						}
						if !guarded {
							bad = true
						}
					}
					if fromTr && !bad {
						okV = true
					} else if fromTr {
						whyV = "the previous dialer is replaced unconditionally or read after the new one was installed"
					}
				})
				c.Check(okV, key, rule, "dials through the previously installed DialContext (held in the dialer struct)", whyV, c.at(dc.store))
				continue
			}
		} else {
			// a closure that does not call a captured dialer is a reset (UnixSocket); classified in option-order
			continue
		}
		ok := cell != nil
		why := "the captured dial function is not a variable of the option"
		if ok {
			fromTr, fallback := false, false
			for _, r := range refs(cell) {
				st, isSt := r.(*ssa.Store)
				if !isSt || st.Addr != ssa.Value(cell) {
					continue
				}
				if ld, isL := isLoad(st.Val); isL && isDialContextField(ld.X) {
					fromTr = true
					continue
				}
				// fallback under dial == nil
				guarded := false
				for _, f := range factsAt(st.Block()) {
					if bo, isBo := f.Cond.(*ssa.BinOp); isBo && bo.Op == token.EQL && f.Val && loadedCell(bo.X) == ssa.Value(cell) {
						guarded = true
					}
				}
				if guarded {
					fallback = true
				} else {
					ok, why = false, "the captured dialer is replaced unconditionally (an earlier wrapper would be dropped)"
				}
			}
			if ok && !fromTr {
				ok, why = false, "the option does not start from the transport's current DialContext"
			}
			_ = fallback
			// captured before the new closure is installed
			if ok {
				for _, r := range refs(cell) {
					if st, isSt := r.(*ssa.Store); isSt && st.Addr == ssa.Value(cell) && !instrDominates(st, dc.store) && !st.Block().Dominates(dc.store.Block()) {
						if len(factsAt(st.Block())) == 0 {
							ok, why = false, "the previous dialer is read after the new one was installed (the closure would call itself)"
						}
					}
				}
			}
		}
		c.Check(ok, key, rule, "dials through the previously installed DialContext", why, c.at(dc.store))
	}
}

// recvFuncFieldCalled: the method calls a function stored in a field of its receiver; returns that
// field's index, or -1.
func recvFuncFieldCalled(m *ssa.Function) int {
	if m == nil || m.Signature.Recv() == nil || len(m.Params) == 0 {
		return -1
	}
	out := -1
	for _, g := range withAnon(m) {
		eachInstr(g, func(i ssa.Instruction) {
			call, ok := i.(*ssa.Call)
			if !ok || call.Call.IsInvoke() || call.Call.StaticCallee() != nil {
				return
			}
			if ld, isL := isLoad(call.Call.Value); isL {
				if fa, isFA := ld.X.(*ssa.FieldAddr); isFA && fa.X == ssa.Value(m.Params[0]) && isFuncType(fa.Type().(*types.Pointer).Elem()) {
					out = fa.Field
				}
			}
		})
	}
	return out
}

// ---- option order in the command

type optClass struct {
	name                                        string
	resets, wraps, replacesTransport, needsHTTP bool
	site                                        string
}

func classifyOption(c *Ctx, ctor *ssa.Function) optClass {
	oc := optClass{name: ctor.Name()}
	for _, f := range withAnon(ctor) {
		eachInstr(f, func(i ssa.Instruction) {
			switch x := i.(type) {
			case *ssa.Store:
				if isDialContextField(x.Addr) {
					cl := closureOf(x.Val)
					wr := false
					if m := boundMethod(x.Val); m != nil {
						cl = nil
						if m.Pkg == f.Pkg && recvFuncFieldCalled(m) >= 0 {
							wr = true
						}
					}
					if cl != nil {
						for _, g := range withAnon(cl) {
							eachInstr(g, func(j ssa.Instruction) {
								if call, ok := j.(*ssa.Call); ok && !call.Call.IsInvoke() && call.Call.StaticCallee() == nil {
									if ld, isL := isLoad(call.Call.Value); isL {
										if fv, isFV := ld.X.(*ssa.FreeVar); isFV && isFuncType(fv.Type()) {
											wr = true
										}
									}
								}
							})
						}
					}
					if wr {
						oc.wraps = true
					} else {
						oc.resets = true
					}
				}
				if fa, ok := x.Addr.(*ssa.FieldAddr); ok && isNamedType(fa.X.Type(), "net/http", "Client") && fieldName(fa.X.Type(), fa.Field) == "Transport" {
					oc.replacesTransport = true
				}
			case *ssa.TypeAssert:
				if isNamedType(x.AssertedType, "net/http", "Transport") {
					oc.needsHTTP = true
				}
			}
		})
	}
	return oc
}

func c18OptionOrder(c *Ctx) {
	const rule = "in the attack command's NewAttacker call: options that reset DialContext come before options that wrap it, DNSCaching comes before ConnectTo (its documented requirement), and the option that replaces the client transport comes after every option that needs the *http.Transport (later ones would silently do nothing or panic on their assertion)"
	fn := c.P.Func("", "attack")
	if fn == nil {
		c.Undecided("opt-order:main.attack", rule, "main.attack not found")
		return
	}
	calls := callsNamed(fn, "lib.NewAttacker")
	if len(calls) != 1 {
		c.Undecided("opt-order:main.attack", rule, fmt.Sprintf("%d NewAttacker calls", len(calls)), c.fnAt(fn))
		return
	}
	elems, ok := sliceElems(calls[0].(*ssa.Call).Call.Args[0])
	if !ok {
		c.Undecided("opt-order:main.attack", rule, "options are not a literal list", c.at(calls[0]))
		return
	}
	var opts []optClass
	for _, e := range elems {
		call, isCall := e.(*ssa.Call)
		if !isCall || call.Call.StaticCallee() == nil {
			c.Undecided("opt-order:main.attack", rule, "an option is not a direct constructor call", c.at(calls[0]))
			return
		}
		oc := classifyOption(c, call.Call.StaticCallee())
		oc.site = c.at(call)
		opts = append(opts, oc)
	}
	if len(opts) < 10 {
		c.Fail("opt-order:main.attack", rule, fmt.Sprintf("only %d options recognised", len(opts)), c.at(calls[0]))
		return
	}
	idx := map[string]int{}
	for k, o := range opts {
		idx[o.name] = k
	}
	nViol := 0
	for k, o := range opts {
		if o.replacesTransport {
			for j := k + 1; j < len(opts); j++ {
				if opts[j].needsHTTP {
					nViol++
					c.Fail("opt-order:main.attack:"+o.name, rule, fmt.Sprintf("%s replaces the transport but %s, applied after it, needs the *http.Transport (ignored or panics with -%s)", o.name, opts[j].name, strings.ToLower(o.name)), o.site, opts[j].site)
					break
				}
			}
		}
		if o.wraps {
			for j := k + 1; j < len(opts); j++ {
				if opts[j].resets {
					nViol++
					c.Fail("opt-order:main.attack:"+opts[j].name, rule, fmt.Sprintf("%s overwrites the DialContext that %s wrapped earlier (the wrapper is dropped)", opts[j].name, o.name), o.site, opts[j].site)
					break
				}
			}
		}
	}
	if d, ok1 := idx["DNSCaching"]; ok1 {
		if ct, ok2 := idx["ConnectTo"]; ok2 && ct < d {
			nViol++
			c.Fail("opt-order:main.attack:ConnectTo", rule, "ConnectTo is applied before DNSCaching (mapped addresses would be resolved through the cache instead of the reverse)", opts[ct].site, opts[d].site)
		}
	}
	if nViol == 0 {
		var names []string
		for _, o := range opts {
			tag := ""
			if o.resets {
				tag += "R"
			}
			if o.wraps {
				tag += "W"
			}
			if o.replacesTransport {
				tag += "T"
			}
			if o.needsHTTP {
				tag += "h"
			}
			names = append(names, o.name+"["+tag+"]")
		}
		c.Pass("opt-order:main.attack", rule, strings.Join(names, " "), c.at(calls[0]))
	}
}

// c18BothFamilies: "one per IP family" presupposes that both families are looked up. The cache
// resolver is used as constructed (its lookup backend is not replaced: dnscache's OnlyV4/OnlyV6
// backends drop one family for every host) and no network name of the dial path pins a family.
func c18BothFamilies(c *Ctx) {
	const rule = "the DNS cache looks up both IP families: inside DNSCaching the lookup backend of the dnscache.Resolver is never replaced and no family-pinned network name (tcp4, tcp6, ip4, ip6) is used"
	key := "both-families:lib.DNSCaching"
	root := c.P.Func("lib", "DNSCaching")
	if root == nil {
		c.Undecided(key, rule, "lib.DNSCaching not found")
		return
	}
	var bad []ssa.Instruction
	var seen []string
	n := 0
	for _, fn := range region(root) {
		seen = append(seen, c.fnAt(fn))
		eachInstr(fn, func(i ssa.Instruction) {
			n++
			if st, isSt := i.(*ssa.Store); isSt {
				if fa, isFA := st.Addr.(*ssa.FieldAddr); isFA && isNamedType(fa.X.Type(), "dnscache", "Resolver") && fieldName(fa.X.Type(), fa.Field) == "Resolver" {
					bad = append(bad, st)
				}
			}
			if call, isCall := asCall(i); isCall {
				if f := call.Common().StaticCallee(); f != nil && f.Pkg != nil && strings.HasSuffix(f.Pkg.Pkg.Path(), "/dnscache") && strings.Contains(f.Name(), "Only") {
					bad = append(bad, i)
				}
			}
			var ops []*ssa.Value
			for _, op := range i.Operands(ops) {
				if op == nil || *op == nil {
					continue
				}
				if s, isS := constString(*op); isS && (s == "tcp4" || s == "tcp6" || s == "ip4" || s == "ip6") {
					bad = append(bad, i)
				}
			}
		})
	}
	sortInstrs(bad)
	bad = dedupInstrs(bad)
	if len(bad) > 0 {
		c.Fail(key, rule, "the lookup or the dial is restricted to one IP family: the addresses of the other family are never resolved or dialled", c.ats(bad)...)
		return
	}
	// liveness: the region looked at is the one that builds the cache resolver
	live := false
	for _, fn := range region(root) {
		eachInstr(fn, func(i ssa.Instruction) {
			if al, isAl := i.(*ssa.Alloc); isAl && isNamedType(al.Type().(*types.Pointer).Elem(), "dnscache", "Resolver") {
				live = true
			}
		})
	}
	if !live {
		c.Undecided(key, rule, "no dnscache.Resolver is created inside DNSCaching: the lookup path is not the one this rule knows", seen...)
		return
	}
	c.Check(n > 0, key, rule, "lookup backend untouched, no family-pinned network", "DNSCaching has no body", seen...)
}

func dedupInstrs(is []ssa.Instruction) []ssa.Instruction {
	var out []ssa.Instruction
	seen := map[ssa.Instruction]bool{}
	for _, i := range is {
		if !seen[i] {
			seen[i] = true
			out = append(out, i)
		}
	}
	return out
}
