package main

import (
	"fmt"
	"go/token"
	"go/types"
	"os"
	"path/filepath"
	"sort"
	"strings"

	"golang.org/x/tools/go/ssa"
)

func init() {
	register(&propSpec{
		ID:    "C20",
		Title: "Prometheus metrics equal the sums over observed results",
		Explanation: "DECIDED (structural, all result sequences): unused-result (every WithLabelValues/With result on a metric vector is the receiver of Add/Inc/Observe); exhaustiveness (every collector field of prom.Metrics is created in NewMetrics, listed in Register and updated in Observe); provenance (request_bytes_in += float64(res.BytesIn), request_bytes_out += float64(res.BytesOut), request_seconds observes res.Latency.Seconds(), all unconditionally; request_fail_count +1 exactly on the res.Error != \"\" edge); label agreement (WithLabelValues arguments match, position by position, the label names the vector was created with: method→res.Method, url→res.URL, status→decimal res.Code, message→res.Error); metric names equal the README list; processAttack observes every received result (C02 cli-pump). " +
			"NOT DECIDED: bucket boundaries, float summation and thread safety are prometheus/client_golang behaviour.",
		Assumptions: []string{"prometheus/client_golang counters and histograms are goroutine-safe and sum what they are given"},
		MinObs:      17,
		Run:         runC20,
	})
}

// sliceElems resolves the elements of a slice value built from array literals,
// full-slice expressions and appends. ok=false when not statically known.
func sliceElems(v ssa.Value) ([]ssa.Value, bool) {
	switch x := v.(type) {
	case *ssa.Slice:
		if al, ok := x.X.(*ssa.Alloc); ok {
			arr, ok := al.Type().(*types.Pointer).Elem().Underlying().(*types.Array)
			if !ok || x.Low != nil {
				return nil, false
			}
			elems := make([]ssa.Value, arr.Len())
			for _, r := range refs(al) {
				ia, ok := r.(*ssa.IndexAddr)
				if !ok {
					continue
				}
				idx, ok := constInt(ia.Index)
				if !ok {
					return nil, false
				}
				for _, rr := range refs(ia) {
					if st, ok := rr.(*ssa.Store); ok && st.Addr == ssa.Value(ia) {
						elems[idx] = st.Val
					}
				}
			}
			for _, e := range elems {
				if e == nil {
					return nil, false
				}
			}
			return elems, true
		}
		// reslice of another slice: accept s[:len(s)] and s[:len(s):len(s)]
		if x.Low == nil {
			if call, ok := x.High.(*ssa.Call); ok && callName(&call.Call) == "builtin:len" && call.Call.Args[0] == x.X {
				return sliceElems(x.X)
			}
			if x.High == nil {
				return sliceElems(x.X)
			}
		}
	case *ssa.Parameter:
		if arg := inlineArg(x); arg != nil {
			return sliceElems(arg)
		}
	case *ssa.Call:
		// a single-site helper that returns one slice literal (csvRecord(r))
		if h := x.Call.StaticCallee(); h != nil && inlineAware && curProgram != nil && singleSite(curProgram, h) == x {
			var ret ssa.Value
			n := 0
			eachInstr(h, func(i ssa.Instruction) {
				if r, ok := i.(*ssa.Return); ok && len(r.Results) == 1 {
					ret = r.Results[0]
					n++
				}
			})
			if n == 1 {
				return sliceElems(ret)
			}
		}
		if callName(&x.Call) == "builtin:append" && len(x.Call.Args) == 2 {
			a, ok1 := sliceElems(x.Call.Args[0])
			b, ok2 := sliceElems(x.Call.Args[1])
			if ok1 && ok2 {
				return append(append([]ssa.Value{}, a...), b...), true
			}
		}
	case *ssa.Const:
		if x.Value == nil {
			return nil, true
		}
	case *ssa.MakeSlice:
		// l := make([]T, len(src)[, cap]); copy(l, src)
		for _, r := range refs(x) {
			if call, ok := r.(*ssa.Call); ok && callName(&call.Call) == "builtin:copy" && call.Call.Args[0] == ssa.Value(x) {
				src := call.Call.Args[1]
				if lc, ok := x.Len.(*ssa.Call); ok && callName(&lc.Call) == "builtin:len" && lc.Call.Args[0] == src {
					return sliceElems(src)
				}
			}
		}
		if n, ok := constInt(x.Len); ok && n == 0 {
			return nil, true
		}
	}
	return nil, false
}

func isPromVec(t types.Type) bool {
	p, ok := t.(*types.Pointer)
	if !ok {
		return false
	}
	n, ok := p.Elem().(*types.Named)
	if !ok || n.Obj().Pkg() == nil {
		return false
	}
	return strings.HasSuffix(n.Obj().Pkg().Path(), "client_golang/prometheus") && strings.HasSuffix(n.Obj().Name(), "Vec")
}

func runC20(c *Ctx) {
	withInline(func() { runC20In(c) })
}

func runC20In(c *Ctx) {
	newM := c.P.Func("lib/prom", "NewMetrics")
	reg := c.P.Func("lib/prom", "Metrics.Register")
	obs := c.P.Func("lib/prom", "Metrics.Observe")
	mt := c.P.Named("lib/prom", "Metrics")
	if newM == nil || reg == nil || obs == nil || mt == nil {
		c.Undecided("anchor:lib/prom.Metrics", "anchors resolve", "prom.NewMetrics / Register / Observe / Metrics not found")
		return
	}
	for _, f := range []*ssa.Function{newM, reg, obs} {
		c.Saw("function " + shortFn(f))
	}
	st := mt.Underlying().(*types.Struct)

	// --- vectors created in NewMetrics: field → (metric name, label names)
	type vec struct {
		field, name string
		labels      []string
		site        string
	}
	vecs := map[string]*vec{}
	eachInstr(newM, func(i ssa.Instruction) {
		store, ok := i.(*ssa.Store)
		if !ok {
			return
		}
		fa, ok := store.Addr.(*ssa.FieldAddr)
		if !ok || !isNamedType(fa.X.Type(), "lib/prom", "Metrics") {
			return
		}
		call, ok := store.Val.(*ssa.Call)
		if !ok {
			return
		}
		cn := callName(&call.Call)
		if !strings.Contains(cn, "client_golang/prometheus.New") || len(call.Call.Args) != 2 {
			return
		}
		v := &vec{field: fieldName(fa.X.Type(), fa.Field), site: c.at(call)}
		// opts: load of a local struct; find the store to its Name field
		if ld, ok := isLoad(call.Call.Args[0]); ok {
			if al, ok := ld.X.(*ssa.Alloc); ok {
				var extra []string
				for _, r := range refs(al) {
					ofa, ok := r.(*ssa.FieldAddr)
					if !ok {
						continue
					}
					switch fn := fieldName(ofa.X.Type(), ofa.Field); fn {
					case "Name":
						for _, rr := range refs(ofa) {
							if s2, ok := rr.(*ssa.Store); ok {
								v.name, _ = constString(s2.Val)
							}
						}
					case "Namespace", "Subsystem", "Help", "Buckets":
					default:
						extra = append(extra, fn)
					}
				}
				// options beyond name/help/buckets change what the collector keeps (native histograms
				// reset themselves, constant labels split series, objectives make a summary lossy)
				if len(extra) > 0 {
					sort.Strings(extra)
					c.Fail("metric-opts:"+v.field, "the metric vectors are created with name, help and (for the histogram) buckets only: the exported values are plain sums over the observed results", "option(s) "+strings.Join(extra, ", ")+" set on the collector: it may drop, reset or re-bucket what was observed (not covered by the sum rules; needs review)", c.at(call))
				}
			}
		}
		if elems, ok := sliceElems(call.Call.Args[1]); ok {
			for _, e := range elems {
				s, _ := constString(e)
				v.labels = append(v.labels, s)
			}
		}
		vecs[v.field] = v
	})

	// --- (2) exhaustiveness over the struct's collector fields
	const rEx = "every collector-typed field of prom.Metrics is created in NewMetrics, registered in Register and updated in Observe"
	regFields := map[string]bool{}
	eachInstr(reg, func(i ssa.Instruction) {
		if fa, ok := i.(*ssa.FieldAddr); ok && isNamedType(fa.X.Type(), "lib/prom", "Metrics") {
			// loaded and converted to Collector, stored into the slice literal
			for _, r := range refs(fa) {
				if ld, ok := r.(*ssa.UnOp); ok {
					for _, rr := range refs(ld) {
						if _, ok := rr.(*ssa.MakeInterface); ok {
							regFields[fieldName(fa.X.Type(), fa.Field)] = true
						}
					}
				}
			}
		}
	})
	// Register must pass every collector to r.Register: the loop calls invoke Register on each element
	regCalls := findInstrs(reg, func(i ssa.Instruction) bool {
		call, ok := i.(*ssa.Call)
		return ok && call.Call.IsInvoke() && call.Call.Method.Name() == "Register"
	})
	obsFields := map[string][]*ssa.Call{} // field → WithLabelValues calls
	for _, fn := range c.P.RepoFuncs("lib/prom") {
		eachInstr(fn, func(i ssa.Instruction) {
			call, ok := i.(*ssa.Call)
			if !ok || call.Call.IsInvoke() || len(call.Call.Args) == 0 {
				return
			}
			cn := callName(&call.Call)
			if !strings.Contains(cn, "client_golang/prometheus.") || !(strings.HasSuffix(cn, ").WithLabelValues") || strings.HasSuffix(cn, ").With") || strings.HasSuffix(cn, ").GetMetricWithLabelValues") || strings.HasSuffix(cn, ").GetMetricWith")) {
				return
			}
			field := "?"
			if ld, ok := isLoad(call.Call.Args[0]); ok {
				if fa, ok := ld.X.(*ssa.FieldAddr); ok {
					field = fieldName(fa.X.Type(), fa.Field)
				}
			}
			obsFields[field] = append(obsFields[field], call)
		})
	}
	nColl := 0
	for k := 0; k < st.NumFields(); k++ {
		f := st.Field(k)
		if !isPromVec(f.Type()) {
			continue
		}
		nColl++
		key := "exhaustive:prom.Metrics." + f.Name()
		var missing []string
		if vecs[f.Name()] == nil {
			missing = append(missing, "not created in NewMetrics")
		}
		if !regFields[f.Name()] {
			missing = append(missing, "not listed in Register")
		}
		if len(obsFields[f.Name()]) == 0 {
			missing = append(missing, "never updated in Observe")
		}
		c.Check(len(missing) == 0, key, rEx, "created, registered, updated", strings.Join(missing, "; "), c.P.Pos(f.Pos()))
	}
	if nColl == 0 {
		c.Undecided("exhaustive:prom.Metrics", rEx, "prom.Metrics has no collector fields")
	}
	c.Check(len(regCalls) == 1, "register-loop:(*prom.Metrics).Register", "Register passes each listed collector to the Registerer and propagates failure", "one Register invoke in a loop over the collectors", fmt.Sprintf("%d Register invokes", len(regCalls)), c.fnAt(reg))
	if len(regCalls) == 1 {
		// every registration failure is returned: a Metrics whose collectors are not the registered ones
		// (e.g. "already registered" swallowed) observes into vectors nobody exports
		const rReg = "no failure of Registerer.Register is dropped: on every path from the error edge the error value is wrapped, joined, stored or returned before the loop goes on or Register returns"
		rc := regCalls[0].(*ssa.Call)
		ifi := errNotNilIf(rc, rc)
		okR := ifi != nil
		whyR := "the error of r.Register is not tested"
		if okR {
			// the failure value, and what counts as keeping it: handing it to anything but a pure test
			// (errors.Is/As/Unwrap, comparisons, type assertions) — wrapped, joined, stored or returned
			errV := ifi.Cond.(*ssa.BinOp).X
			if isNilConst(errV) {
				errV = ifi.Cond.(*ssa.BinOp).Y
			}
			keeps := map[ssa.Instruction]bool{}
			var follow func(v ssa.Value, depth int)
			follow = func(v ssa.Value, depth int) {
				if depth > 4 {
					return
				}
				for _, r := range refs(v) {
					switch r := r.(type) {
					case *ssa.Return, *ssa.Store, *ssa.Phi, *ssa.MapUpdate, *ssa.Send:
						keeps[r] = true
					case *ssa.ChangeInterface:
						follow(r, depth+1)
					case *ssa.MakeInterface:
						follow(r, depth+1)
					case *ssa.Call:
						if cal := r.Call.StaticCallee(); cal != nil && cal.Pkg != nil && cal.Pkg.Pkg.Path() == "errors" {
							switch cal.Name() {
							case "Is", "As", "Unwrap":
								continue
							}
						}
						if r.Call.IsInvoke() && r.Call.Value == v {
							continue // err.Error() and the like read the failure, they do not keep it
						}
						keeps[r] = true
					}
				}
			}
			follow(errV, 0)
			set := exploreBlock(ifi.Block().Succs[0], func(i ssa.Instruction) bool { return keeps[i] })
			for i := range set {
				switch i := i.(type) {
				case *ssa.Return:
					okR, whyR = false, "on some path a registration failure is dropped and Register returns without it (the collector is not the registered one: later observations on this Metrics are not exported)"
				case *ssa.Call:
					if i == rc {
						okR, whyR = false, "on some path a registration failure is dropped and the loop goes on (the collector is not the registered one: later observations on this Metrics are not exported)"
					}
				}
			}
		}
		c.Check(okR, "register-error:(*prom.Metrics).Register", rReg, "error edge returns the failure", whyR, c.at(rc))
	}

	// --- (1) unused builder result + (3) provenance + (4) labels
	const rUnused = "the result of WithLabelValues on a metric vector is the receiver of Add, Inc or Observe"
	const rProv = "bytes-in/out counters add float64(res.BytesIn/BytesOut), the latency histogram observes res.Latency.Seconds(), unconditionally; the failure counter is incremented by one exactly when res.Error != \"\""
	const rLabel = "WithLabelValues arguments match the vector's label names position by position (method→res.Method, url→res.URL, status→decimal res.Code, message→res.Error)"
	labelSrc := map[string][]string{
		"method":  {"res.Method"},
		"url":     {"res.URL"},
		"status":  {"decimal(res.Code)"},
		"message": {"res.Error"},
	}
	want := map[string]struct{ method, arg string }{
		"request_bytes_in":   {"Add", "res.BytesIn"},
		"request_bytes_out":  {"Add", "res.BytesOut"},
		"request_seconds":    {"Observe", "(time.Duration).Seconds(res.Latency)"},
		"request_fail_count": {"Inc", ""},
	}
	var fields []string
	for f := range obsFields {
		fields = append(fields, f)
	}
	sort.Strings(fields)
	norm := func(s string) string { return strings.ReplaceAll(s, "arg0.", "res.") }
	for _, f := range fields {
		for _, call := range obsFields[f] {
			fnName := shortFn(call.Parent())
			keyU := fmt.Sprintf("unused-result:%s:%s", fnName, f)
			var use *ssa.Call
			for _, r := range refs(call) {
				if uc, ok := r.(*ssa.Call); ok && uc.Call.IsInvoke() && uc.Call.Value == ssa.Value(call) {
					switch uc.Call.Method.Name() {
					case "Add", "Inc", "Observe":
						use = uc
					}
				}
			}
			if use == nil {
				c.Fail(keyU, rUnused, "the metric for the label set is looked up but never updated (result discarded)", c.at(call))
				continue
			}
			c.Pass(keyU, rUnused, "receiver of "+use.Call.Method.Name(), c.at(call))
			if call.Parent() != obs {
				continue
			}
			v := vecs[f]
			if v == nil {
				continue
			}
			// provenance
			keyP := "provenance:prom." + v.name
			w, known := want[v.name]
			if !known {
				c.Undecided(keyP, rProv, "metric "+v.name+" is not in the documented table", c.at(use))
			} else {
				okP := true
				why := ""
				switch w.method {
				case "Inc":
					if use.Call.Method.Name() == "Add" {
						if n, ok := constInt(use.Call.Args[0]); !ok || n != 1 {
							okP, why = false, "failure counter is not incremented by exactly one"
						}
					} else if use.Call.Method.Name() != "Inc" {
						okP, why = false, "failure counter is not incremented"
					}
					// exactly on res.Error != ""
					guard := false
					for _, fct := range factsAt(use.Block()) {
						if bo, ok := fct.Cond.(*ssa.BinOp); ok {
							d := norm(describeVal(bo.X))
							s, isS := constString(bo.Y)
							if d == "res.Error" && isS && s == "" && (bo.Op == token.NEQ && fct.Val || bo.Op == token.EQL && !fct.Val) {
								guard = true
							}
						}
					}
					if !guard {
						okP, why = false, "failure counter is not guarded by res.Error != \"\" (or guarded by something else)"
					}
					// and nothing else guards it
					if okP && len(factsAt(use.Block())) != 1 {
						okP, why = false, "failure counter has additional conditions"
					}
				default:
					if use.Call.Method.Name() != w.method || len(use.Call.Args) != 1 {
						okP, why = false, fmt.Sprintf("%s is updated with %s, want %s", v.name, use.Call.Method.Name(), w.method)
					} else if got := norm(describeVal(use.Call.Args[0])); got != w.arg {
						okP, why = false, fmt.Sprintf("%s is fed %s, want %s", v.name, got, w.arg)
					} else if _, isF := use.Call.Args[0].Type().Underlying().(*types.Basic); !isF {
						okP = false
					}
					if okP && len(factsAt(use.Block())) != 0 {
						okP, why = false, v.name+" is updated only conditionally"
					}
				}
				c.Check(okP, keyP, rProv, w.method+"("+w.arg+")", why, c.at(use))
			}
			// labels
			keyL := "labels:prom." + v.name
			var args []ssa.Value
			okArgs := false
			if len(call.Call.Args) == 2 {
				args, okArgs = sliceElems(call.Call.Args[1])
			}
			if !okArgs || len(v.labels) == 0 {
				c.Undecided(keyL, rLabel, "label names or values are not statically known", c.at(call))
				continue
			}
			if len(args) != len(v.labels) {
				c.Fail(keyL, rLabel, fmt.Sprintf("%d label values for %d label names %v", len(args), len(v.labels), v.labels), c.at(call), v.site)
				continue
			}
			okL := true
			why := ""
			for k, lab := range v.labels {
				got := normDecimal(norm(describeVal(args[k])))
				match := false
				for _, acc := range labelSrc[lab] {
					if got == acc {
						match = true
					}
				}
				if !match {
					okL = false
					why = fmt.Sprintf("label %q (position %d) is given %s", lab, k, got)
				}
			}
			c.Check(okL, keyL, rLabel, strings.Join(v.labels, ","), why, c.at(call), v.site)
		}
	}

	// base label set is method,url,status for the three base vectors and +message for failures
	const rBase = "bytes and latency vectors are labelled (method,url,status); the failure vector additionally by message"
	for _, v := range vecs {
		wantL := "method,url,status"
		if v.name == "request_fail_count" {
			wantL += ",message"
		}
		c.Check(strings.Join(v.labels, ",") == wantL, "label-names:prom."+v.name, rBase, wantL, "label names are "+strings.Join(v.labels, ","), v.site)
	}

	// --- (5) names vs README
	const rDoc = "the metric names created in NewMetrics are exactly the ones documented in README.md"
	b, err := os.ReadFile(filepath.Join(c.P.Dir, "README.md"))
	if err != nil {
		c.Undecided("doc-names:README.md", rDoc, "cannot read README.md")
	} else {
		doc := map[string]bool{}
		for _, line := range strings.Split(string(b), "\n") {
			line = strings.TrimSpace(line)
			if strings.HasPrefix(line, "* `request_") {
				if j := strings.Index(line[3:], "`"); j > 0 {
					doc[line[3:3+j]] = true
				}
			}
		}
		code := map[string]bool{}
		for _, v := range vecs {
			code[v.name] = true
		}
		var diff []string
		for n := range doc {
			if !code[n] {
				diff = append(diff, "documented but not exported: "+n)
			}
		}
		for n := range code {
			if !doc[n] {
				diff = append(diff, "exported but not documented: "+n)
			}
		}
		sort.Strings(diff)
		if len(doc) == 0 {
			c.Undecided("doc-names:README.md", rDoc, "no documented metric list found in README.md (unresolved anchor)")
		} else {
			c.Check(len(diff) == 0, "doc-names:README.md", rDoc, fmt.Sprintf("%d names agree", len(doc)), strings.Join(diff, "; "), "README.md", c.fnAt(newM))
		}
	}

	// --- (6) the attack command observes every result
	c02Pump(c)
}
