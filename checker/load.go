package main

import (
	"fmt"
	"go/ast"
	"go/token"
	"go/types"
	"os"
	"path/filepath"
	"sort"
	"strings"

	"golang.org/x/tools/go/packages"
	"golang.org/x/tools/go/ssa"
	"golang.org/x/tools/go/ssa/ssautil"
)

const modPath = "github.com/tsenart/vegeta/v12"

// Program is the type-checked, SSA-built view of /repo for one build configuration.
type Program struct {
	Dir     string
	Config  string // e.g. "linux/amd64"
	Fset    *token.FileSet
	Pkgs    map[string]*packages.Package // repo packages by import path
	SSA     *ssa.Program
	SSAPkgs map[string]*ssa.Package
	NFuncs  int

	allFns     map[*ssa.Function]bool
	fnsByShort map[string][]*ssa.Function
}

// minRepoPackages is the floor confirmed by hand on today's tree: main, lib,
// lib/plot, lib/lttb, lib/prom, internal/resolver, internal/cmd/echosrv,
// internal/cmd/jsonschema.
const minRepoPackages = 8

func Load(dir, goos, goarch string) (*Program, error) {
	env := []string{}
	for _, e := range os.Environ() {
		if strings.HasPrefix(e, "GOWORK=") || strings.HasPrefix(e, "GOFLAGS=") ||
			strings.HasPrefix(e, "GOOS=") || strings.HasPrefix(e, "GOARCH=") ||
			strings.HasPrefix(e, "GOPROXY=") || strings.HasPrefix(e, "GOSUMDB=") ||
			strings.HasPrefix(e, "GOTOOLCHAIN=") || strings.HasPrefix(e, "CGO_ENABLED=") {
			continue
		}
		env = append(env, e)
	}
	env = append(env, "GOWORK=off", "GOFLAGS=-mod=mod", "GOPROXY=off", "GOSUMDB=off",
		"GOTOOLCHAIN=local", "CGO_ENABLED=0", "GOOS="+goos, "GOARCH="+goarch)

	cfg := &packages.Config{
		Mode:  packages.LoadAllSyntax,
		Dir:   dir,
		Env:   env,
		Tests: false,
	}
	pkgs, err := packages.Load(cfg, "./...")
	if err != nil {
		return nil, fmt.Errorf("packages.Load: %w", err)
	}
	p := &Program{Dir: dir, Config: goos + "/" + goarch, Pkgs: map[string]*packages.Package{}, SSAPkgs: map[string]*ssa.Package{}}
	var errs []string
	packages.Visit(pkgs, nil, func(pk *packages.Package) {
		for _, e := range pk.Errors {
			errs = append(errs, fmt.Sprintf("%s: %s", pk.PkgPath, e.Error()))
		}
	})
	if len(errs) > 0 {
		sort.Strings(errs)
		if len(errs) > 10 {
			errs = errs[:10]
		}
		return nil, fmt.Errorf("tree does not type-check (%s): %s", p.Config, strings.Join(errs, "; "))
	}
	for _, pk := range pkgs {
		if pk.PkgPath == modPath || strings.HasPrefix(pk.PkgPath, modPath+"/") {
			p.Pkgs[pk.PkgPath] = pk
			p.Fset = pk.Fset
		}
	}
	if len(p.Pkgs) < minRepoPackages {
		return nil, fmt.Errorf("loaded %d repository packages, expected at least %d", len(p.Pkgs), minRepoPackages)
	}
	prog, _ := ssautil.AllPackages(pkgs, ssa.BuilderMode(0))
	prog.Build()
	p.SSA = prog
	for path, pk := range p.Pkgs {
		sp := prog.Package(pk.Types)
		if sp == nil {
			return nil, fmt.Errorf("no SSA package for %s", path)
		}
		p.SSAPkgs[path] = sp
	}
	for fn := range ssautil.AllFunctions(prog) {
		if fn.Pkg != nil && p.isRepoPkg(fn.Pkg.Pkg.Path()) {
			p.NFuncs++
		}
	}
	return p, nil
}

func (p *Program) isRepoPkg(path string) bool {
	return path == modPath || strings.HasPrefix(path, modPath+"/")
}

func pkgPath(short string) string {
	if short == "" || short == "main" {
		return modPath
	}
	return modPath + "/" + short
}

// Pkg returns the repo package with the given short path ("", "lib", "lib/plot", ...).
func (p *Program) Pkg(short string) *packages.Package { return p.Pkgs[pkgPath(short)] }

// Pos renders a position relative to the repository root.
func (p *Program) Pos(pos token.Pos) string {
	if !pos.IsValid() {
		return "?"
	}
	ps := p.Fset.Position(pos)
	rel, err := filepath.Rel(p.Dir, ps.Filename)
	if err != nil || strings.HasPrefix(rel, "..") {
		rel = ps.Filename
	}
	return fmt.Sprintf("%s:%d", rel, ps.Line)
}

// Obj looks up a package-level object.
func (p *Program) Obj(short, name string) types.Object {
	pk := p.Pkg(short)
	if pk == nil {
		return nil
	}
	return pk.Types.Scope().Lookup(name)
}

// Named looks up a package-level named type.
func (p *Program) Named(short, name string) *types.Named {
	o := p.Obj(short, name)
	if o == nil {
		return nil
	}
	tn, ok := o.(*types.TypeName)
	if !ok {
		return nil
	}
	n, _ := tn.Type().(*types.Named)
	return n
}

// Func resolves an SSA function: name is "Func" or "Type.Method" (pointer or value receiver).
func (p *Program) Func(short, name string) *ssa.Function {
	pk := p.Pkg(short)
	if pk == nil {
		return nil
	}
	if i := strings.Index(name, "."); i >= 0 {
		tn, mn := name[:i], name[i+1:]
		named := p.Named(short, tn)
		if named == nil {
			return nil
		}
		for i := 0; i < named.NumMethods(); i++ {
			m := named.Method(i)
			if m.Name() == mn {
				return p.SSA.FuncValue(m)
			}
		}
		return nil
	}
	sp := p.SSAPkgs[pkgPath(short)]
	if sp == nil {
		return nil
	}
	return sp.Func(name)
}

// RepoFuncs returns all source functions (including closures) of one repo package, sorted by position.
func (p *Program) RepoFuncs(short string) []*ssa.Function {
	if p.fnsByShort == nil {
		p.fnsByShort = map[string][]*ssa.Function{}
	}
	if cached, ok := p.fnsByShort[short]; ok {
		return cached
	}
	if p.allFns == nil {
		p.allFns = ssautil.AllFunctions(p.SSA)
	}
	var out []*ssa.Function
	path := pkgPath(short)
	for fn := range p.allFns {
		if fn.Pkg == nil || fn.Pkg.Pkg.Path() != path || fn.Synthetic != "" || len(fn.Blocks) == 0 {
			continue
		}
		out = append(out, fn)
	}
	sort.Slice(out, func(i, j int) bool {
		if out[i].Pos() != out[j].Pos() {
			return out[i].Pos() < out[j].Pos()
		}
		return out[i].String() < out[j].String()
	})
	p.fnsByShort[short] = out
	return out
}

// AllRepoFuncs returns the source functions of all repo packages.
func (p *Program) AllRepoFuncs() []*ssa.Function {
	var out []*ssa.Function
	var shorts []string
	for path := range p.Pkgs {
		shorts = append(shorts, strings.TrimPrefix(strings.TrimPrefix(path, modPath), "/"))
	}
	sort.Strings(shorts)
	for _, s := range shorts {
		out = append(out, p.RepoFuncs(s)...)
	}
	return out
}

// FuncDecl finds the AST declaration for "Func" or "Type.Method" in a repo package.
func (p *Program) FuncDecl(short, name string) (*ast.FuncDecl, *packages.Package) {
	pk := p.Pkg(short)
	if pk == nil {
		return nil, nil
	}
	tn, mn := "", name
	if i := strings.Index(name, "."); i >= 0 {
		tn, mn = name[:i], name[i+1:]
	}
	for _, f := range pk.Syntax {
		for _, d := range f.Decls {
			fd, ok := d.(*ast.FuncDecl)
			if !ok || fd.Name.Name != mn {
				continue
			}
			if tn == "" && fd.Recv == nil {
				return fd, pk
			}
			if tn != "" && fd.Recv != nil && len(fd.Recv.List) == 1 {
				t := fd.Recv.List[0].Type
				if s, ok := t.(*ast.StarExpr); ok {
					t = s.X
				}
				if id, ok := t.(*ast.Ident); ok && id.Name == tn {
					return fd, pk
				}
			}
		}
	}
	return nil, pk
}

// shortFn renders a function name without the module path.
func shortFn(fn *ssa.Function) string {
	if fn == nil {
		return "<nil>"
	}
	s := fn.String()
	s = strings.ReplaceAll(s, modPath+"/", "")
	s = strings.ReplaceAll(s, modPath+".", "main.")
	s = strings.ReplaceAll(s, modPath, "main")
	return s
}
