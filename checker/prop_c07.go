package main

import (
	"go/token"
	"fmt"
	"go/ast"
	"go/types"
	"os"
	"path/filepath"
	"sort"
	"strings"

	"golang.org/x/tools/go/ssa"
)

func init() {
	register(&propSpec{
		ID:    "C07",
		Title: "Result codecs round-trip every result and follow the documented layout",
		Explanation: "DECIDED (table agreement and exhaustiveness, for every field the Result type has now or gains later): json-keys (keys written by the generated encoder = case labels of the generated decoder = json tags of Result; each block reads / each case stores the field carrying that tag); json-pair (writer/reader methods form an inverse pair for the field's type: String/String, Uint64/Uint64, Uint16/Uint16, Int64/Int64 for Latency in integer nanoseconds, Base64Bytes/Bytes, Raw(MarshalJSON)/Raw+UnmarshalJSON for RFC 3339 timestamps; no buffer-aliasing reader such as UnsafeString/UnsafeBytes); csv-column (column i of the encoder's literal is computed from field Fi with the frozen conversion for its type, the decoder assigns rec[i] to the same Fi through the inverse conversion with a sufficient bit size and propagates parse errors; FieldsPerRecord equals the literal's length; csv.Writer is the standard quoting writer matched with the decoder's reader options); csv-doc (the numbered lists in README.md and in encode's usage text have that length and name the same field order through a frozen phrase table); exhaustive (every field of Result is exported, gob-encodable, and handled by JSON encoder, JSON decoder, CSV encoder, CSV decoder and Result.Equal); json-line framing is C09. " +
			"NOT DECIDED: value-level round-trip equality (quoting, nanosecond fidelity, UTF-8) is behaviour of encoding/csv, encoding/gob, time and easyjson.",
		Assumptions: []string{"encoding/csv Writer/Reader, encoding/gob, time.Time JSON and easyjson primitives are mutually inverse as documented"},
		MinObs:      40,
		Run:         runC07,
	})
}

// typeClass classifies a Result field type for the conversion tables.
func typeClass(t types.Type) string {
	switch {
	case isNamedType(t, "time", "Time"):
		return "time"
	case isNamedType(t, "time", "Duration"):
		return "duration"
	case isNamedType(t, "net/http", "Header"):
		return "header"
	}
	switch u := t.Underlying().(type) {
	case *types.Basic:
		switch u.Kind() {
		case types.String:
			return "string"
		case types.Uint64:
			return "uint64"
		case types.Uint16:
			return "uint16"
		case types.Int64:
			return "int64"
		}
	case *types.Slice:
		if b, ok := u.Elem().Underlying().(*types.Basic); ok && b.Kind() == types.Uint8 {
			return "bytes"
		}
	}
	return "other:" + t.String()
}

var jsonPairs = map[string][2]string{
	"string":   {"String", "String"},
	"uint64":   {"Uint64", "Uint64"},
	"uint16":   {"Uint16", "Uint16"},
	"int64":    {"Int64", "Int64"},
	"duration": {"Int64", "Int64"},
	"bytes":    {"Base64Bytes", "Bytes"},
	"time":     {"Raw", "Raw"},
	"header":   {"nested", "String"},
}

func runC07(c *Ctx) {
	lib := c.P.Pkg("lib")
	res := c.P.Named("lib", "Result")
	if lib == nil || res == nil {
		c.Undecided("anchor:lib.Result", "anchors resolve", "lib.Result not found")
		return
	}
	st := res.Underlying().(*types.Struct)
	jsonTables(c, "lib.Result", res, "jsonResult", nil)
	c09JSONDecoder(c) // round trip "for arbitrary bodies": lines of any length, copied, complete
	csvEncFields, csvDecFields := c07CSV(c, res)
	c07EOFUnwrapped(c)
	eqFields := equalFields(c, "Result.Equal", "r", "other")

	// exhaustiveness
	const rEx = "every field of Result is exported, of a gob-encodable type, and handled by the JSON encoder, JSON decoder, CSV encoder, CSV decoder and Result.Equal"
	encT, decT, _, _ := easyjsonTables(lib, "jsonResult")
	jsonEnc, jsonDec := map[string]bool{}, map[string]bool{}
	for _, e := range encT {
		jsonEnc[e.Field] = true
	}
	for _, e := range decT {
		jsonDec[e.Field] = true
	}
	for k := 0; k < st.NumFields(); k++ {
		f := st.Field(k)
		var missing []string
		if !f.Exported() {
			missing = append(missing, "unexported (gob skips it)")
		}
		if tc := typeClass(f.Type()); strings.HasPrefix(tc, "other:") {
			missing = append(missing, "type "+f.Type().String()+" has no frozen codec conversion")
		}
		if !jsonEnc[f.Name()] {
			missing = append(missing, "JSON encoder")
		}
		if !jsonDec[f.Name()] {
			missing = append(missing, "JSON decoder")
		}
		if !csvEncFields[f.Name()] {
			missing = append(missing, "CSV encoder")
		}
		if !csvDecFields[f.Name()] {
			missing = append(missing, "CSV decoder")
		}
		if !eqFields[f.Name()] {
			missing = append(missing, "Result.Equal")
		}
		c.Check(len(missing) == 0, "exhaustive:lib.Result."+f.Name(), rEx, "handled by all five siblings", "not handled by: "+strings.Join(missing, ", "), c.P.Pos(f.Pos()))
	}

	gobDirect(c)
}

// jsonTables checks key/tag/method agreement for an easyjson alias type.
func jsonTables(c *Ctx, label string, named *types.Named, alias string, optional map[string]bool) {
	lib := c.P.Pkg("lib")
	const rKeys = "keys written by the generated encoder = case labels of the generated decoder = json tags of the struct; each encoder block reads and each decoder case stores the field carrying that tag"
	const rPair = "the jwriter method writing a field and the jlexer method reading it form an inverse pair for the field's type, and the reader copies (no buffer-aliasing Unsafe* reader)"
	enc, dec, encFn, decFn := easyjsonTables(lib, alias)
	if encFn == nil || decFn == nil || len(enc) == 0 || len(dec) == 0 {
		c.Undecided("json-keys:"+label, rKeys, "generated encoder/decoder for "+alias+" not found or not in the expected shape")
		return
	}
	c.Saw("function lib." + encFn.Name.Name)
	c.Saw("function lib." + decFn.Name.Name)
	tags, _, order := structJSONTags(named)
	fieldType := map[string]types.Type{}
	stt := named.Underlying().(*types.Struct)
	for k := 0; k < stt.NumFields(); k++ {
		fieldType[stt.Field(k).Name()] = stt.Field(k).Type()
	}
	var problems []string
	encKey, decKey := map[string]jsonEntry{}, map[string]jsonEntry{}
	for _, e := range enc {
		if _, dup := encKey[e.Key]; dup {
			problems = append(problems, "encoder writes key "+e.Key+" twice")
		}
		encKey[e.Key] = e
		if tags[e.Field] != e.Key {
			problems = append(problems, fmt.Sprintf("encoder writes %s under key %q but its tag is %q", e.Field, e.Key, tags[e.Field]))
		}
	}
	for _, e := range dec {
		if _, dup := decKey[e.Key]; dup {
			problems = append(problems, "decoder handles key "+e.Key+" twice")
		}
		decKey[e.Key] = e
		if tags[e.Field] != e.Key {
			problems = append(problems, fmt.Sprintf("decoder stores key %q into %s whose tag is %q", e.Key, e.Field, tags[e.Field]))
		}
	}
	for _, f := range order {
		k, ok := tags[f]
		if !ok {
			problems = append(problems, "field "+f+" has no json tag")
			continue
		}
		if _, ok := encKey[k]; !ok {
			problems = append(problems, "no encoder block for key "+k)
		}
		if _, ok := decKey[k]; !ok {
			problems = append(problems, "no decoder case for key "+k)
		}
	}
	sort.Strings(problems)
	c.Check(len(problems) == 0, "json-keys:"+label, rKeys, fmt.Sprintf("%d keys agree", len(order)), strings.Join(problems, "; "), c.P.Pos(encFn.Pos()), c.P.Pos(decFn.Pos()))

	for _, f := range order {
		k := tags[f]
		e, okE := encKey[k]
		d, okD := decKey[k]
		if !okE || !okD {
			continue
		}
		key := "json-pair:" + label + "." + f
		tc := typeClass(fieldType[f])
		want, known := jsonPairs[tc]
		if !known {
			c.Undecided(key, rPair, "no frozen inverse pair for type "+fieldType[f].String(), c.P.Pos(e.Pos))
			continue
		}
		ok := e.Method == want[0] && d.Method == want[1]
		why := fmt.Sprintf("%s is written with %s and read with %s; the inverse pair for %s is %s/%s", f, e.Method, d.Method, tc, want[0], want[1])
		if tc == "time" {
			if e.Extra != "MarshalJSON" && !strings.Contains(e.Extra, "MarshalJSON") || d.Extra != "UnmarshalJSON" {
				ok = false
				why = f + " is not written with MarshalJSON / read with UnmarshalJSON (RFC 3339)"
			}
		}
		if strings.Contains(d.Method, "Unsafe") {
			ok = false
			why = f + " is read with " + d.Method + ", which aliases the input buffer instead of copying"
		}
		c.Check(ok, key, rPair, e.Method+" ↔ "+d.Method, why, c.P.Pos(e.Pos), c.P.Pos(d.Pos))
	}
}

// equalFields returns the fields compared on both operands in an Equal method.
func equalFields(c *Ctx, fn, a, b string) map[string]bool {
	fd, _ := c.P.FuncDecl("lib", fn)
	out := map[string]bool{}
	if fd == nil {
		return out
	}
	c.Saw("function lib." + fn)
	// receiver / parameter names from the declaration
	if fd.Recv != nil && len(fd.Recv.List[0].Names) == 1 {
		a = fd.Recv.List[0].Names[0].Name
	}
	if len(fd.Type.Params.List) == 1 && len(fd.Type.Params.List[0].Names) == 1 {
		b = fd.Type.Params.List[0].Names[0].Name
	}
	seenA, seenB := map[string]bool{}, map[string]bool{}
	ast.Inspect(fd.Body, func(n ast.Node) bool {
		if se, ok := n.(*ast.SelectorExpr); ok {
			if id, ok := se.X.(*ast.Ident); ok {
				if id.Name == a {
					seenA[se.Sel.Name] = true
				}
				if id.Name == b {
					seenB[se.Sel.Name] = true
				}
			}
		}
		return true
	})
	for f := range seenA {
		if seenB[f] {
			out[f] = true
		}
	}
	return out
}

// resultFieldIn finds the Result field (of parameter p) a value is computed from.
func resultFieldIn(v ssa.Value, typeName string) string {
	field := ""
	flowsFrom(v, func(x ssa.Value) bool {
		if ld, ok := isLoad(x); ok {
			if fa, ok := ld.X.(*ssa.FieldAddr); ok && isNamedType(fa.X.Type(), "lib", typeName) {
				if _, isParam := fa.X.(*ssa.Parameter); isParam {
					field = fieldName(fa.X.Type(), fa.Field)
					return true
				}
			}
		}
		return false
	})
	return field
}

var csvEncSig = map[string]string{
	"time":     "decimal((time.Time).UnixNano(F))",
	"uint16":   "decimal(F)",
	"uint64":   "decimal(F)",
	"duration": "decimal((time.Duration).Nanoseconds(F))|decimal(F)",
	"string":   "F",
	"bytes":    "(*encoding/base64.Encoding).EncodeToString(*StdEncoding,F)",
	"header":   "(*encoding/base64.Encoding).EncodeToString(*StdEncoding,WIRE(F))",
}

// c07CSV checks the CSV column tables; returns the fields handled by encoder and decoder.
func c07CSV(c *Ctx, res *types.Named) (encF, decF map[string]bool) {
	withInline(func() { encF, decF = c07CSVIn(c, res) })
	return
}

func c07CSVIn(c *Ctx, res *types.Named) (encF, decF map[string]bool) {
	encF, decF = map[string]bool{}, map[string]bool{}
	const rCol = "CSV column i is computed from field Fi with the frozen conversion for its type, and the decoder assigns rec[i] to the same Fi through the inverse conversion (sufficient bit size, StdEncoding on both sides), propagating parse errors"
	encOuter := c.P.Func("lib", "NewCSVEncoder")
	decOuter := c.P.Func("lib", "NewCSVDecoder")
	if returnedClosure(encOuter) == nil || returnedClosure(decOuter) == nil {
		c.Undecided("csv-column:lib", rCol, "NewCSVEncoder/NewCSVDecoder closures not found")
		return
	}
	enc, dec := returnedClosure(encOuter), returnedClosure(decOuter)
	c.Saw("function " + shortFn(enc))
	c.Saw("function " + shortFn(dec))
	stt := res.Underlying().(*types.Struct)
	ftype := map[string]types.Type{}
	for k := 0; k < stt.NumFields(); k++ {
		ftype[stt.Field(k).Name()] = stt.Field(k).Type()
	}
	// encoder columns
	writes := callsNamedI(enc, "(*encoding/csv.Writer).Write")
	if len(writes) != 1 {
		c.Undecided("csv-column:lib", rCol, fmt.Sprintf("%d csv.Writer.Write calls in the CSV encoder (hand-rolled or multi-record encoder is not a recognised shape)", len(writes)), c.fnAt(enc))
		return
	}
	cols, ok := sliceElems(writes[0].(*ssa.Call).Call.Args[1])
	if !ok {
		c.Undecided("csv-column:lib", rCol, "the record passed to csv.Writer.Write is not a literal", c.at(writes[0]))
		return
	}
	encField := make([]string, len(cols))
	_ = userParam(enc, 0)
	for i, col := range cols {
		f := resultFieldIn(col, "Result")
		inlineWire := false
		if f == "" {
			// the wire-format helper written in place: `var buf bytes.Buffer; r.Headers.Write(&buf);
			// hdr = append(buf.Bytes(), '\r', '\n')` feeding base64(hdr)
			if why, ok := inlineHeaderWire(enc, col); ok {
				f, inlineWire = "Headers", true
			} else if why != "" {
				c.Fail(fmt.Sprintf("csv-column:%d:encode", i), rCol, why, c.at(writes[0]))
				encField[i] = "Headers"
				encF["Headers"] = true
				continue
			}
		}
		encField[i] = f
		key := fmt.Sprintf("csv-column:%d:encode", i)
		if inlineWire {
			encF[f] = true
			c.Pass(key, rCol, "Headers via base64(StdEncoding) of the wire format written in place", c.at(writes[0]))
			continue
		}
		if f == "" {
			c.Fail(key, rCol, "column is not computed from a Result field", c.at(writes[0]))
			continue
		}
		encF[f] = true
		sig := strings.ReplaceAll(describeVal(col), "arg0."+f, "F")
		want := csvEncSig[typeClass(ftype[f])]
		if typeClass(ftype[f]) == "header" {
			// the wire-format helper is recognised by what it does, not by its name
			flowsFrom(col, func(v ssa.Value) bool {
				if call, isCall := v.(*ssa.Call); isCall {
					if g := call.Call.StaticCallee(); g != nil && g.Pkg == enc.Pkg {
						if why, okW := isHeaderWireWriter(g); okW {
							sig = strings.ReplaceAll(sig, shortFn(g)+"(", "WIRE(")
						} else if why != "" {
							c.Fail("csv-column:header-wire:"+shortFn(g), rCol, why, c.fnAt(g))
						}
					}
				}
				return false
			})
		}
		sig = normDecimal(sig)
		okSig := false
		for _, w := range strings.Split(want, "|") {
			if sig == w {
				okSig = true
			}
		}
		c.Check(okSig, key, rCol, f+" via "+sig, fmt.Sprintf("column %d encodes %s as %s; frozen conversion for %s is %s", i+1, f, sig, typeClass(ftype[f]), want), c.at(writes[0]))
	}
	// each field once
	seen := map[string]int{}
	for _, f := range encField {
		seen[f]++
	}
	for f, n := range seen {
		if n > 1 && f != "" {
			c.Fail("csv-column:duplicate:"+f, rCol, fmt.Sprintf("field %s is written in %d columns", f, n), c.at(writes[0]))
		}
	}
	// flush per record is C09

	// decoder
	var rec ssa.Value
	eachInstrI(dec, func(i ssa.Instruction) {
		if call, ok := i.(*ssa.Call); ok && callName(&call.Call) == "(*encoding/csv.Reader).Read" {
			for _, r := range refs(call) {
				if ex, ok := r.(*ssa.Extract); ok && ex.Index == 0 {
					rec = ex
				}
			}
		}
	})
	if rec == nil {
		c.Undecided("csv-column:lib:decode", rCol, "no csv.Reader.Read in the CSV decoder", c.fnAt(dec))
		return
	}
	colLoads := map[int]*ssa.UnOp{}
	for _, r := range refsI(rec) {
		ia, ok := r.(*ssa.IndexAddr)
		if !ok {
			continue
		}
		idx, ok := constInt(ia.Index)
		if !ok {
			c.Fail("csv-column:decode:dynamic-index", rCol, "record indexed with a non-constant", c.at(ia))
			continue
		}
		for _, rr := range refs(ia) {
			if ld, ok := rr.(*ssa.UnOp); ok {
				if _, dup := colLoads[int(idx)]; !dup {
					colLoads[int(idx)] = ld
				}
			}
		}
	}
	// stores to Result fields of the parameter
	type fstore struct {
		field string
		st    *ssa.Store
	}
	var stores []fstore
	eachInstrI(dec, func(i ssa.Instruction) {
		if st, ok := i.(*ssa.Store); ok {
			if fa, ok := st.Addr.(*ssa.FieldAddr); ok && rootVal(fa.X) == ssa.Value(userParam(dec, 0)) {
				stores = append(stores, fstore{fieldName(fa.X.Type(), fa.Field), st})
			}
		}
	})
	for i := range cols {
		key := fmt.Sprintf("csv-column:%d:decode", i)
		ld := colLoads[i]
		if ld == nil {
			c.Fail(key, rCol, fmt.Sprintf("the decoder never reads rec[%d]", i), c.fnAt(dec))
			continue
		}
		// all loads of rec[i]
		var loads []ssa.Value
		for _, r := range refsI(rec) {
			if ia, ok := r.(*ssa.IndexAddr); ok {
				if idx, ok := constInt(ia.Index); ok && int(idx) == i {
					for _, rr := range refs(ia) {
						if l, ok := rr.(*ssa.UnOp); ok {
							loads = append(loads, l)
						}
					}
				}
			}
		}
		isCol := func(v ssa.Value) bool {
			for _, l := range loads {
				if v == l {
					return true
				}
			}
			return false
		}
		var target *fstore
		n := 0
		for k := range stores {
			if flowsFrom(stores[k].st.Val, isCol) {
				target = &stores[k]
				n++
			}
		}
		if n != 1 {
			c.Fail(key, rCol, fmt.Sprintf("rec[%d] flows into %d Result fields, want exactly 1", i, n), c.at(ld))
			continue
		}
		decF[target.field] = true
		if target.field != encField[i] {
			c.Fail(key, rCol, fmt.Sprintf("column %d is written from %s but read into %s", i+1, encField[i], target.field), c.at(target.st))
			continue
		}
		tc := typeClass(ftype[target.field])
		why, ok := csvDecodeConv(dec, loads, target.st, tc)
		c.Check(ok, key, rCol, target.field+" ← rec["+fmt.Sprint(i)+"] via "+why, why, c.at(target.st))
	}
	// FieldsPerRecord
	const rFPR = "the CSV reader requires exactly as many fields per record as the encoder writes, and the writer is the standard quoting csv.Writer (fields with leading blanks are quoted, matching the reader's TrimLeadingSpace)"
	fpr := int64(-999)
	for _, fn := range []*ssa.Function{decOuter, dec} {
		eachInstr(fn, func(i ssa.Instruction) {
			if st, ok := i.(*ssa.Store); ok {
				if fa, ok := st.Addr.(*ssa.FieldAddr); ok && fieldName(fa.X.Type(), fa.Field) == "FieldsPerRecord" {
					if n, ok := constInt(st.Val); ok {
						fpr = n
					} else {
						fpr = -998
					}
				}
			}
		})
	}
	c.Check(fpr == int64(len(cols)), "csv-fields-per-record:lib.NewCSVDecoder", rFPR, fmt.Sprintf("FieldsPerRecord = %d = columns written", fpr), fmt.Sprintf("FieldsPerRecord is %d but the encoder writes %d columns (short or long records would be accepted)", fpr, len(cols)), c.fnAt(decOuter))

	// docs
	c07Docs(c, encField)
	return
}

// csvDecodeConv checks the inverse conversion for one column.
func csvDecodeConv(dec *ssa.Function, loads []ssa.Value, st *ssa.Store, tc string) (string, bool) {
	isCol := func(v ssa.Value) bool {
		for _, l := range loads {
			if v == l {
				return true
			}
		}
		return false
	}
	// the first call that takes the column text
	var first *ssa.Call
	for _, l := range loads {
		for _, r := range refs(l) {
			if call, ok := r.(*ssa.Call); ok {
				for _, a := range call.Call.Args {
					if a == l && (first == nil || instrDominates(call, first)) {
						first = call
					}
				}
			}
		}
	}
	parseCheck := func(name string, minBits int64) (string, bool) {
		if first == nil || callName(&first.Call) != name {
			return "column is not parsed with " + name, false
		}
		base, _ := constInt(first.Call.Args[1])
		bits, _ := constInt(first.Call.Args[2])
		if base != 10 {
			return fmt.Sprintf("parsed in base %d", base), false
		}
		if bits < minBits {
			return fmt.Sprintf("%s with bit size %d cannot hold the field's full range (%d bits)", name, bits, minBits), false
		}
		if errNotNilIf(first, first) == nil {
			return "the parse error is not propagated", false
		}
		return fmt.Sprintf("%s(·,10,%d)", name, bits), true
	}
	switch tc {
	case "string":
		if !isCol(st.Val) {
			return "text column is transformed on the way in", false
		}
		return "identity", true
	case "uint64":
		return parseCheck("strconv.ParseUint", 64)
	case "uint16":
		return parseCheck("strconv.ParseUint", 16)
	case "duration":
		return parseCheck("strconv.ParseInt", 64)
	case "time":
		why, ok := parseCheck("strconv.ParseInt", 64)
		if !ok {
			return why, false
		}
		call, isCall := st.Val.(*ssa.Call)
		if !isCall || callName(&call.Call) != "time.Unix" {
			return "timestamp is not rebuilt with time.Unix(0, ns)", false
		}
		if z, isZ := constInt(call.Call.Args[0]); !isZ || z != 0 {
			return "timestamp is not rebuilt with time.Unix(0, ns)", false
		}
		return why + " → time.Unix(0,ns)", true
	case "bytes":
		if first == nil || callName(&first.Call) != "(*encoding/base64.Encoding).DecodeString" || describeVal(first.Call.Args[0]) != "*StdEncoding" {
			return "body is not decoded with base64.StdEncoding.DecodeString", false
		}
		if errNotNilIf(first, first) == nil {
			return "the base64 error is not propagated", false
		}
		return "StdEncoding.DecodeString", true
	case "header":
		hasB64, hasMIME := false, false
		rewrite := ""
		flowsFrom(st.Val, func(v ssa.Value) bool {
			if call, ok := v.(*ssa.Call); ok {
				if n := callName(&call.Call); strings.HasPrefix(n, "strings.") && n != "strings.NewReader" {
					rewrite = n
				}
				switch callName(&call.Call) {
				case "encoding/base64.NewDecoder":
					if describeVal(call.Call.Args[0]) == "*StdEncoding" {
						hasB64 = true
					}
				case "(*net/textproto.Reader).ReadMIMEHeader":
					hasMIME = true
				}
			}
			return false
		})
		if !hasB64 || !hasMIME {
			return "headers are not base64(StdEncoding)-decoded and parsed with ReadMIMEHeader", false
		}
		if rewrite != "" {
			return "the parsed header values are rewritten with " + rewrite + " before they are stored (a value containing the separator no longer round-trips)", false
		}
		return "base64.NewDecoder(StdEncoding) → ReadMIMEHeader", true
	}
	return "no frozen conversion for " + tc, false
}

// inlineHeaderWire: col is base64.StdEncoding.EncodeToString(x) where x derives only from the bytes
// of a local bytes.Buffer into which the result's own Headers were written with http.Header.Write
// (nil when there are no headers), with nothing but the CRLF terminator appended.
func inlineHeaderWire(enc *ssa.Function, col ssa.Value) (string, bool) {
	call, ok := col.(*ssa.Call)
	if !ok || callName(&call.Call) != "(*encoding/base64.Encoding).EncodeToString" || describeVal(call.Call.Args[0]) != "*StdEncoding" {
		return "", false
	}
	var buf ssa.Value
	flowsFrom(call.Call.Args[1], func(v ssa.Value) bool {
		if bc, isCall := v.(*ssa.Call); isCall && callName(&bc.Call) == "(*bytes.Buffer).Bytes" {
			buf = bc.Call.Args[0]
		}
		return false
	})
	if buf == nil {
		return "", false
	}
	ws := callsNamed(enc, "(net/http.Header).Write", "(net/http.Header).WriteSubset")
	if len(ws) != 1 {
		return fmt.Sprintf("%d http.Header.Write calls feed the headers column", len(ws)), false
	}
	w := ws[0].(*ssa.Call)
	if describeVal(w.Call.Args[0]) != "arg0.Headers" {
		return "the headers column serialises " + describeVal(w.Call.Args[0]) + " instead of the result's own headers", false
	}
	if mi, isMI := w.Call.Args[1].(*ssa.MakeInterface); !isMI || mi.X != buf {
		return "the headers are written into a different buffer than the one that is encoded", false
	}
	rewrites := ""
	eachInstr(enc, func(i ssa.Instruction) {
		if ci, isCI := i.(ssa.CallInstruction); isCI {
			if n := callName(ci.Common()); strings.HasPrefix(n, "strings.") && n != "strings.NewReader" || strings.HasPrefix(n, "bytes.") && n != "bytes.NewReader" {
				rewrites = n
			}
		}
	})
	if rewrites != "" {
		return "the CSV encoder rewrites text with " + rewrites, false
	}
	return "", true
}

// isHeaderWireWriter: g(h http.Header) serialises exactly its parameter with http.Header.Write
// (one line per value, so values containing commas or repeated fields survive) and does not
// rewrite keys or values with string functions.
func isHeaderWireWriter(g *ssa.Function) (string, bool) {
	if len(g.Params) != 1 || !isNamedType(g.Params[0].Type(), "net/http", "Header") {
		return "", false
	}
	ws := callsNamed(g, "(net/http.Header).Write", "(net/http.Header).WriteSubset")
	if len(ws) != 1 {
		return fmt.Sprintf("%s: %d http.Header.Write calls; the headers column must be the wire format of the result's headers", shortFn(g), len(ws)), false
	}
	recv := ws[0].(*ssa.Call).Call.Args[0]
	for {
		if ct, ok := recv.(*ssa.ChangeType); ok {
			recv = ct.X
			continue
		}
		break
	}
	if recv != ssa.Value(g.Params[0]) {
		return shortFn(g) + " serialises " + describeVal(recv) + " instead of the result's own headers (folded, filtered or rewritten header values do not survive the round trip)", false
	}
	rewrites := ""
	eachInstr(g, func(i ssa.Instruction) {
		if ci, ok := i.(ssa.CallInstruction); ok {
			n := callName(ci.Common())
			if strings.HasPrefix(n, "strings.") && n != "strings.NewReader" {
				rewrites = n
			}
		}
	})
	if rewrites != "" {
		return shortFn(g) + " rewrites header text with " + rewrites, false
	}
	return "", true
}

var csvDocPhrases = []struct{ phrase, field string }{
	{"unix timestamp in nanoseconds", "Timestamp"},
	{"http status code", "Code"},
	{"request latency in nanoseconds", "Latency"},
	{"bytes out", "BytesOut"},
	{"bytes in", "BytesIn"},
	{"base64 encoded response body", "Body"},
	{"base64 encoded response headers", "Headers"},
	{"attack name", "Attack"},
	{"sequence number", "Seq"},
	{"method", "Method"},
	{"url", "URL"},
	{"error", "Error"},
}

func c07Docs(c *Ctx, encField []string) {
	const rule = "the numbered CSV column lists in README.md and in the encode command's usage text have one item per column and name the fields in the order the encoder writes them (frozen phrase→field table)"
	docs := map[string]string{}
	if b, err := os.ReadFile(filepath.Join(c.P.Dir, "README.md")); err == nil {
		docs["README.md"] = string(b)
	}
	if s, pos := stringConst(c.P.Pkg(""), "encodeUsage"); s != "" {
		docs["encode.go:encodeUsage"] = s
		_ = pos
	}
	for _, name := range []string{"README.md", "encode.go:encodeUsage"} {
		key := "csv-doc:" + name
		text, ok := docs[name]
		if !ok {
			c.Undecided(key, rule, "document not found")
			continue
		}
		items := numberedListAfter(text, "The columns written by it are:")
		if len(items) == 0 {
			c.Undecided(key, rule, "no numbered column list after 'The columns written by it are:' (unresolved anchor: refresh the table)")
			continue
		}
		var got []string
		for _, it := range items {
			l := strings.ToLower(it)
			f := "?"
			for _, p := range csvDocPhrases {
				if strings.HasPrefix(l, p.phrase) {
					f = p.field
					break
				}
			}
			got = append(got, f)
		}
		c.Check(strings.Join(got, ",") == strings.Join(encField, ","), key, rule, fmt.Sprintf("%d documented columns in encoder order", len(items)), fmt.Sprintf("documented order %v differs from the encoder's %v", got, encField), name)
	}
}

// c07EOFUnwrapped: "followed by end-of-stream". Every consumer (encode, report, plot, the
// round-robin decoder's callers) recognises the end by err == io.EOF, so a decoder hands the
// stream reader's error on as it is. An error that may be io.EOF must not go through a wrapping
// call (fmt.Errorf, errors.Join, a helper returning error) unless the path excludes io.EOF first.
func c07EOFUnwrapped(c *Ctx) {
	const rule = "the result decoders return the stream reader's error unwrapped (consumers test err == io.EOF): no error that may be io.EOF is passed to a call that builds another error, unless a dominating test excluded io.EOF"
	errT := types.Universe.Lookup("error").Type()
	isStreamRead := func(v ssa.Value) bool {
		if ex, ok := v.(*ssa.Extract); ok {
			v = ex.Tuple
		}
		call, ok := v.(*ssa.Call)
		if !ok {
			return false
		}
		if call.Call.IsInvoke() {
			return true // a method of some reader interface
		}
		f := call.Call.StaticCallee()
		if f == nil || f.Pkg == nil {
			return true
		}
		switch f.Pkg.Pkg.Path() {
		case "encoding/csv", "encoding/gob", "bufio", "io":
			return true
		}
		return false
	}
	isEOFLoad := func(v ssa.Value) bool {
		g := loadedGlobal(v)
		return g != nil && g.Name() == "EOF" && g.Pkg != nil && g.Pkg.Pkg.Path() == "io"
	}
	for _, name := range []string{"NewDecoder", "NewCSVDecoder", "NewJSONDecoder"} {
		outer := c.P.Func("lib", name)
		key := "eof-unwrapped:lib." + name
		if outer == nil {
			c.Undecided(key, rule, "lib."+name+" not found")
			continue
		}
		var fns []*ssa.Function
		seenFn := map[*ssa.Function]bool{}
		for _, f := range region(outer) {
			for _, g := range withAnon(f) {
				if !seenFn[g] {
					seenFn[g] = true
					fns = append(fns, g)
				}
			}
		}
		var bad []ssa.Instruction
		for _, fn := range fns {
			c.Saw("function " + shortFn(fn))
			eachInstr(fn, func(i ssa.Instruction) {
				call, ok := i.(*ssa.Call)
				if !ok || call.Call.IsInvoke() {
					return
				}
				sig := call.Call.Signature()
				retErr := false
				for k := 0; k < sig.Results().Len(); k++ {
					if types.Identical(sig.Results().At(k).Type(), errT) {
						retErr = true
					}
				}
				if !retErr {
					return
				}
				// error-typed inputs: direct arguments and the elements of a variadic slice
				var ins []ssa.Value
				for _, a := range call.Call.Args {
					if types.Identical(a.Type(), errT) {
						ins = append(ins, a)
					}
					if sl, isSl := a.(*ssa.Slice); isSl {
						if al, isAl := sl.X.(*ssa.Alloc); isAl {
							for _, r := range refs(al) {
								ia, isIA := r.(*ssa.IndexAddr)
								if !isIA {
									continue
								}
								for _, r2 := range refs(ia) {
									if st, isSt := r2.(*ssa.Store); isSt {
										v := st.Val
										if ci, isCI := v.(*ssa.ChangeInterface); isCI {
											v = ci.X
										}
										if types.Identical(v.Type(), errT) {
											ins = append(ins, v)
										}
									}
								}
							}
						}
					}
				}
				for _, e := range ins {
					// the error of a non-stream call (strconv, base64, ...) is never io.EOF's carrier: follow the
					// error value itself (φ, local cells, interface conversions), not the data it was computed from
					mayEOF := false
					seenV := map[ssa.Value]bool{}
					var origin func(v ssa.Value)
					origin = func(v ssa.Value) {
						if v == nil || seenV[v] || mayEOF {
							return
						}
						seenV[v] = true
						switch x := v.(type) {
						case *ssa.Phi:
							for _, ed := range x.Edges {
								origin(ed)
							}
						case *ssa.ChangeInterface:
							origin(x.X)
						case *ssa.Extract:
							if isStreamRead(x) {
								mayEOF = true
							}
						case *ssa.Call:
							if isStreamRead(x) {
								mayEOF = true
							}
						case *ssa.Const, *ssa.MakeInterface:
							// nil or a freshly built error
						case *ssa.UnOp:
							al, isAl := x.X.(*ssa.Alloc)
							if x.Op != token.MUL || !isAl {
								mayEOF = true // captured variable, field, global: not tracked
								return
							}
							for _, r := range refs(al) {
								if st, isSt := r.(*ssa.Store); isSt && st.Addr == ssa.Value(al) {
									origin(st.Val)
								} else if _, isLd := r.(*ssa.UnOp); !isLd {
									if _, isDbg := r.(*ssa.DebugRef); !isDbg {
										mayEOF = true // the cell escapes (closure, address taken)
									}
								}
							}
						default:
							mayEOF = true
						}
					}
					origin(e)
					if !mayEOF {
						continue
					}
					guarded := false
					for _, f := range factsAt(call.Block()) {
						switch x := f.Cond.(type) {
						case *ssa.BinOp:
							if x.Op != token.EQL && x.Op != token.NEQ {
								continue
							}
							var other ssa.Value
							if isEOFLoad(x.Y) {
								other = x.X
							} else if isEOFLoad(x.X) {
								other = x.Y
							} else {
								continue
							}
							if sameLoadedValue(other, e) && (x.Op == token.NEQ) == f.Val {
								guarded = true
							}
						case *ssa.Call:
							if callName(&x.Call) == "errors.Is" && len(x.Call.Args) == 2 && isEOFLoad(x.Call.Args[1]) && sameLoadedValue(x.Call.Args[0], e) && !f.Val {
								guarded = true
							}
						}
					}
					if !guarded {
						bad = append(bad, call)
					}
				}
			})
		}
		sortInstrs(bad)
		var sites []string
		for _, fn := range fns {
			sites = append(sites, c.fnAt(fn))
		}
		// liveness: the region must contain the stream read whose error this rule is about
		live := false
		for _, fn := range fns {
			eachInstr(fn, func(i ssa.Instruction) {
				if call, isCall := i.(*ssa.Call); isCall && isStreamRead(call) {
					live = true
				}
			})
		}
		if !live {
			c.Undecided(key, rule, "no stream read (encoding/csv, encoding/gob, bufio, io) found in the decoder: the reader's error cannot be identified", sites...)
			continue
		}
		if len(bad) > 0 {
			c.Fail(key, rule, "an error that may be io.EOF is wrapped before it is returned: consumers comparing with io.EOF never see the end of the stream", c.ats(bad)...)
			continue
		}
		c.Pass(key, rule, "no possibly-EOF error reaches an error-building call", sites...)
	}
}
