package main

import (
	"sort"
	"strings"

	"golang.org/x/tools/go/ssa"
)

var lockCalls = map[string]bool{"(*sync.Mutex).Lock": true, "(*sync.RWMutex).Lock": true}
var unlockCalls = map[string]bool{"(*sync.Mutex).Unlock": true, "(*sync.RWMutex).Unlock": true}

type lockState map[string]bool // nil = top (unvisited)

func (s lockState) clone() lockState {
	o := lockState{}
	for k := range s {
		o[k] = true
	}
	return o
}

func intersect(a, b lockState) lockState {
	if a == nil {
		return b.clone()
	}
	o := lockState{}
	for k := range a {
		if b[k] {
			o[k] = true
		}
	}
	return o
}

func equalState(a, b lockState) bool {
	if (a == nil) != (b == nil) || len(a) != len(b) {
		return false
	}
	for k := range a {
		if !b[k] {
			return false
		}
	}
	return true
}

// mutexPath canonicalises the receiver of a Lock/Unlock call.
func mutexPath(recv ssa.Value) string {
	p := path(recv)
	return strings.TrimPrefix(p, "&")
}

// Lockset is a forward must-analysis: for every instruction, the set of mutex
// access paths that are held on every path reaching it. A deferred Unlock keeps
// the mutex held to the end of the function.
type Lockset struct {
	held map[ssa.Instruction]lockState
	// Sites lists Lock/Unlock/deferred-Unlock instructions.
	Locks, Unlocks, Deferred []ssa.Instruction
}

func computeLockset(fn *ssa.Function) *Lockset {
	ls := &Lockset{held: map[ssa.Instruction]lockState{}}
	in := map[*ssa.BasicBlock]lockState{}
	out := map[*ssa.BasicBlock]lockState{}
	if len(fn.Blocks) == 0 {
		return ls
	}
	in[fn.Blocks[0]] = lockState{}
	transfer := func(b *ssa.BasicBlock, st lockState, record bool) lockState {
		cur := st.clone()
		for _, i := range b.Instrs {
			if record {
				ls.held[i] = cur.clone()
			}
			switch x := i.(type) {
			case *ssa.Call:
				n := callName(&x.Call)
				if lockCalls[n] && len(x.Call.Args) > 0 {
					cur[mutexPath(x.Call.Args[0])] = true
				} else if unlockCalls[n] && len(x.Call.Args) > 0 {
					delete(cur, mutexPath(x.Call.Args[0]))
				}
			}
		}
		return cur
	}
	changed := true
	for iter := 0; changed && iter < 100; iter++ {
		changed = false
		for _, b := range fn.Blocks {
			var st lockState
			if b == fn.Blocks[0] {
				st = lockState{}
			} else {
				for _, p := range b.Preds {
					if o, ok := out[p]; ok {
						st = intersect(st, o)
					}
				}
				if st == nil {
					continue // unreachable so far
				}
			}
			in[b] = st
			o := transfer(b, st, false)
			if old, ok := out[b]; !ok || !equalState(old, o) {
				out[b] = o
				changed = true
			}
		}
	}
	for _, b := range fn.Blocks {
		if st, ok := in[b]; ok && st != nil {
			transfer(b, st, true)
		}
	}
	eachInstr(fn, func(i ssa.Instruction) {
		switch x := i.(type) {
		case *ssa.Call:
			n := callName(&x.Call)
			if lockCalls[n] {
				ls.Locks = append(ls.Locks, i)
			} else if unlockCalls[n] {
				ls.Unlocks = append(ls.Unlocks, i)
			}
		case *ssa.Defer:
			if unlockCalls[callName(&x.Call)] {
				ls.Deferred = append(ls.Deferred, i)
			}
		}
	})
	return ls
}

// Held returns the sorted mutex paths definitely held just before i executes.
func (ls *Lockset) Held(i ssa.Instruction) []string {
	var out []string
	for k := range ls.held[i] {
		out = append(out, k)
	}
	sort.Strings(out)
	return out
}

func (ls *Lockset) HeldHas(i ssa.Instruction, mu string) bool {
	return ls.held[i][mu]
}

// Reachable reports whether the analysis reached i at all.
func (ls *Lockset) Reachable(i ssa.Instruction) bool {
	_, ok := ls.held[i]
	return ok
}
