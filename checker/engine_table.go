package main

import (
	"go/token"
	"go/types"

	"golang.org/x/tools/go/ssa"
)

// A literal table of structs walked by a loop is an unrolled sequence of
// assignments written compactly:
//
//	for _, p := range []struct{ q float64; dst *T }{{0.5, &x.A}, {0.9, &x.B}} { *p.dst = f(p.q) }
//
// tableStores recognises that shape and returns, per row, the store it stands for.
type vstore struct {
	Target ssa.Value               // the row's pointer value (e.g. &x.A)
	Store  *ssa.Store              // the store through the loaded pointer inside the loop
	Subst  map[ssa.Value]ssa.Value // loads of the row's other fields → the row's values
	Slot   *ssa.Store              // the store that put Target into the table
}

// resolve maps a value read from the current row to the row's literal value.
func (v vstore) resolve(x ssa.Value) ssa.Value {
	if r, ok := v.Subst[x]; ok {
		return r
	}
	return x
}

func tableStores(fn *ssa.Function) []vstore {
	var out []vstore
	eachInstr(fn, func(i ssa.Instruction) {
		arr, ok := i.(*ssa.Alloc)
		if !ok {
			return
		}
		at, ok := arr.Type().Underlying().(*types.Pointer).Elem().Underlying().(*types.Array)
		if !ok {
			return
		}
		if _, isStruct := at.Elem().Underlying().(*types.Struct); !isStruct {
			return
		}
		rows := map[int64]map[int]*ssa.Store{}
		var slices []*ssa.Slice
		var copies []*ssa.UnOp
		clean := true
		for _, r := range refs(arr) {
			switch x := r.(type) {
			case *ssa.IndexAddr:
				k, isK := constInt(x.Index)
				if !isK {
					clean = false
					continue
				}
				for _, rr := range refs(x) {
					fa, isFA := rr.(*ssa.FieldAddr)
					if !isFA {
						clean = false
						continue
					}
					for _, u := range refs(fa) {
						st, isSt := u.(*ssa.Store)
						if !isSt || st.Addr != ssa.Value(fa) {
							clean = false
							continue
						}
						if rows[k] == nil {
							rows[k] = map[int]*ssa.Store{}
						}
						if rows[k][fa.Field] != nil {
							clean = false
						}
						rows[k][fa.Field] = st
					}
				}
			case *ssa.Slice:
				slices = append(slices, x)
			case *ssa.UnOp:
				// `for _, p := range [...]T{...}`: the array value is loaded once and indexed by the loop
				if x.Op == token.MUL && x.X == ssa.Value(arr) {
					copies = append(copies, x)
				} else {
					clean = false
				}
			default:
				clean = false
			}
		}
		if !clean || len(rows) == 0 || len(slices)+len(copies) != 1 {
			return
		}
		// element cells of the walking loop
		fieldLoads := map[int][]ssa.Value{}
		okShape := true
		var cells []ssa.Value
		var walk []ssa.Instruction
		if len(slices) == 1 {
			walk = refs(slices[0])
		} else {
			for _, r := range refs(copies[0]) {
				ix, isIx := r.(*ssa.Index)
				if !isIx {
					okShape = false
					continue
				}
				if _, isK := constInt(ix.Index); isK {
					okShape = false
				}
				for _, u := range refs(ix) {
					switch y := u.(type) {
					case *ssa.Field:
						fieldLoads[y.Field] = append(fieldLoads[y.Field], y)
					case *ssa.Store:
						// the range variable: `pct := table[i]` into a local cell
						local, isLocal := y.Addr.(*ssa.Alloc)
						if !isLocal || y.Val != ssa.Value(ix) || local.Heap {
							okShape = false
							continue
						}
						cells = append(cells, local)
					default:
						okShape = false
					}
				}
			}
		}
		for _, r := range walk {
			switch x := r.(type) {
			case *ssa.IndexAddr:
				if _, isK := constInt(x.Index); isK {
					okShape = false
				}
				cells = append(cells, x)
			case *ssa.Call:
				if callName(&x.Call) != "builtin:len" {
					okShape = false
				}
			default:
				okShape = false
			}
		}
		for n := 0; n < len(cells); n++ {
			for _, r := range refs(cells[n]) {
				switch x := r.(type) {
				case *ssa.FieldAddr:
					for _, u := range refs(x) {
						ld, isLd := u.(*ssa.UnOp)
						if !isLd || ld.Op != token.MUL {
							okShape = false // the row is modified or its field address escapes
							continue
						}
						fieldLoads[x.Field] = append(fieldLoads[x.Field], ld)
					}
				case *ssa.UnOp: // whole-row copy: `p := table[i]`
					for _, u := range refs(x) {
						switch y := u.(type) {
						case *ssa.Store:
							local, isLocal := y.Addr.(*ssa.Alloc)
							if !isLocal || y.Val != ssa.Value(x) || local.Heap {
								okShape = false
								continue
							}
							cells = append(cells, local)
						case *ssa.Field:
							fieldLoads[y.Field] = append(fieldLoads[y.Field], y)
						default:
							okShape = false
						}
					}
				case *ssa.Store:
					if x.Addr == cells[n] {
						_, isCopy := x.Val.(*ssa.UnOp)
						_, isElem := x.Val.(*ssa.Index)
						if !isCopy && !isElem {
							okShape = false
						}
					}
				default:
					okShape = false
				}
			}
		}
		if !okShape {
			return
		}
		st := at.Elem().Underlying().(*types.Struct)
		for j := 0; j < st.NumFields(); j++ {
			if _, isPtr := st.Field(j).Type().Underlying().(*types.Pointer); !isPtr {
				continue
			}
			var stores []*ssa.Store
			writeOnly := len(fieldLoads[j]) > 0
			for _, ld := range fieldLoads[j] {
				for _, u := range refs(ld) {
					s, isSt := u.(*ssa.Store)
					if !isSt || s.Addr != ld {
						writeOnly = false
						continue
					}
					stores = append(stores, s)
				}
			}
			if !writeOnly {
				continue
			}
			for _, row := range rows {
				slot := row[j]
				if slot == nil {
					continue
				}
				sub := map[ssa.Value]ssa.Value{}
				for j2, lds := range fieldLoads {
					if row[j2] == nil {
						continue
					}
					for _, ld := range lds {
						sub[ld] = row[j2].Val
					}
				}
				for _, s := range stores {
					out = append(out, vstore{Target: slot.Val, Store: s, Subst: sub, Slot: slot})
				}
			}
		}
	})
	return out
}
