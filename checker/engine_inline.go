package main

import (
	"go/types"
	"golang.org/x/tools/go/ssa"
)

// Single-call-site helpers. A maintainer may move part of a function into an unexported helper
// that only that function calls. For rules that opt in (withInline), the engine then describes
// the helper's parameters by the arguments of that one call, adds the branch facts holding at
// the call to the facts of the helper's blocks, and iterates the helper's instructions together
// with its caller's — the view one would get by inlining the helper back.

var inlineAware bool

// inlineRoots are the functions a rule is about: they are never treated as helpers of their own
// callers (hit is called from one place, but a rule on hit wants hit's returns to be returns).
var inlineRoots = map[*ssa.Function]bool{}

func withInline(f func(), roots ...*ssa.Function) {
	old := inlineAware
	inlineAware = true
	var added []*ssa.Function
	for _, r := range roots {
		if r != nil && !inlineRoots[r] {
			inlineRoots[r] = true
			added = append(added, r)
		}
	}
	defer func() {
		inlineAware = old
		for _, r := range added {
			delete(inlineRoots, r)
		}
	}()
	f()
}

// withoutInline runs f with the plain, per-function view (for rules with their own helper handling).
func withoutInline(f func()) {
	old := inlineAware
	inlineAware = false
	defer func() { inlineAware = old }()
	f()
}

var (
	siteProg  *ssa.Program
	siteIndex map[*ssa.Function][]ssa.CallInstruction // static call sites in repository code
	siteValue map[*ssa.Function]bool                  // function used as a value somewhere
)

func buildSiteIndex(p *Program) {
	siteProg = p.SSA
	siteIndex = map[*ssa.Function][]ssa.CallInstruction{}
	siteValue = map[*ssa.Function]bool{}
	for _, fn := range p.AllRepoFuncs() {
		eachInstr(fn, func(i ssa.Instruction) {
			if ci, ok := i.(ssa.CallInstruction); ok {
				if f := ci.Common().StaticCallee(); f != nil {
					siteIndex[f] = append(siteIndex[f], ci)
				}
			}
			for _, op := range i.Operands(nil) {
				if op == nil || *op == nil {
					continue
				}
				if f, ok := (*op).(*ssa.Function); ok {
					if ci, isCall := i.(ssa.CallInstruction); isCall && ci.Common().Value == ssa.Value(f) {
						continue
					}
					siteValue[f] = true
				}
			}
		})
	}
}

// singleSite returns the one call of f when f is an unexported, named, same-repository function
// that is called (plainly, not with go/defer) from exactly one place and never used as a value.
func singleSite(p *Program, f *ssa.Function) *ssa.Call {
	if f != nil && f.Parent() != nil && f.Synthetic == "" {
		return literalSite(p, f)
	}
	if f == nil || f.Parent() != nil || f.Synthetic != "" || f.Pkg == nil || !p.isRepoPkg(f.Pkg.Pkg.Path()) || inlineRoots[f] {
		return nil
	}
	if obj := f.Object(); obj == nil || obj.Exported() {
		return nil
	}
	if siteProg != p.SSA {
		buildSiteIndex(p)
	}
	if siteValue[f] || len(siteIndex[f]) != 1 {
		return nil
	}
	call, ok := siteIndex[f][0].(*ssa.Call)
	if !ok || call.Parent() == f {
		return nil
	}
	return call
}

// literalSite: f is a function literal that is created once, held only in a register (not captured,
// stored or passed on) and called plainly from exactly one place of the function that creates it
// (`writeRow := func(q float64) error {…}` … `writeRow(q)`): that call.
var literalSiteCache = map[*ssa.Function]*ssa.Call{}
var literalSiteProg *ssa.Program

func literalSite(p *Program, f *ssa.Function) *ssa.Call {
	if f.Pkg == nil || !p.isRepoPkg(f.Pkg.Pkg.Path()) || inlineRoots[f] || len(f.Blocks) == 0 {
		return nil
	}
	if literalSiteProg != p.SSA {
		literalSiteProg = p.SSA
		literalSiteCache = map[*ssa.Function]*ssa.Call{}
	}
	if c, done := literalSiteCache[f]; done {
		return c
	}
	var site *ssa.Call
	nMake, bad := 0, false
	eachInstr(f.Parent(), func(i ssa.Instruction) {
		var v ssa.Value
		switch x := i.(type) {
		case *ssa.MakeClosure:
			if x.Fn == ssa.Value(f) {
				v = x
			}
		}
		if v == nil {
			// a literal without free variables is used as a bare *ssa.Function operand
			if call, isCall := i.(*ssa.Call); isCall && call.Call.Value == ssa.Value(f) {
				if site != nil {
					bad = true
				}
				site = call
			} else {
				for _, op := range i.Operands(nil) {
					if op != nil && *op == ssa.Value(f) {
						bad = true
					}
				}
			}
			return
		}
		nMake++
		for _, r := range refs(v) {
			switch u := r.(type) {
			case *ssa.Call:
				if u.Call.Value != v || site != nil {
					bad = true
				}
				for _, a := range u.Call.Args {
					if a == v {
						bad = true
					}
				}
				site = u
			case *ssa.DebugRef:
			default:
				bad = true
			}
		}
	})
	if bad || nMake > 1 || site == nil || site.Parent() != f.Parent() {
		site = nil
	}
	literalSiteCache[f] = site
	return site
}

var curProgram *Program

// inlineArg: the argument bound to parameter p at the single call site of its function, or nil.
func inlineArg(p *ssa.Parameter) ssa.Value {
	if !inlineAware || curProgram == nil {
		return nil
	}
	fn := p.Parent()
	call := singleSite(curProgram, fn)
	if call == nil {
		return nil
	}
	for k, q := range fn.Params {
		if q == p && k < len(call.Call.Args) {
			return call.Call.Args[k]
		}
	}
	return nil
}

// inlinedRegion: fn followed by the single-site helpers it (transitively) calls.
func inlinedRegion(p *Program, fn *ssa.Function) []*ssa.Function {
	out := []*ssa.Function{fn}
	seen := map[*ssa.Function]bool{fn: true}
	for k := 0; k < len(out); k++ {
		eachInstr(out[k], func(i ssa.Instruction) {
			if call, ok := i.(*ssa.Call); ok {
				if f := call.Call.StaticCallee(); f != nil && !seen[f] && len(f.Blocks) > 0 && singleSite(p, f) == call {
					seen[f] = true
					out = append(out, f)
				}
			}
		})
	}
	return out
}

// callerFacts: the facts holding where the single-site helper containing b is called.
func callerFacts(b *ssa.BasicBlock) []fact {
	if !inlineAware || curProgram == nil {
		return nil
	}
	call := singleSite(curProgram, b.Parent())
	if call == nil {
		return nil
	}
	return factsAt(call.Block())
}

// rootVal follows parameters of single-site helpers back to the argument passed at their one call.
func rootVal(v ssa.Value) ssa.Value {
	for k := 0; k < 6; k++ {
		p, ok := v.(*ssa.Parameter)
		if !ok {
			return v
		}
		arg := inlineArg(p)
		if arg == nil {
			return v
		}
		v = arg
	}
	return v
}

// refsI: the referrers of v, including (in inline mode) those of the helper parameter v is bound
// to wherever v is passed to a single-site helper.
func refsI(v ssa.Value) []ssa.Instruction {
	out := append([]ssa.Instruction(nil), refs(v)...)
	if !inlineAware || curProgram == nil {
		return out
	}
	seen := map[ssa.Value]bool{v: true}
	for k := 0; k < len(out); k++ {
		call, ok := out[k].(*ssa.Call)
		if !ok {
			continue
		}
		h := call.Call.StaticCallee()
		if h == nil || singleSite(curProgram, h) != call {
			continue
		}
		for a, arg := range call.Call.Args {
			if a < len(h.Params) && seen[arg] && !seen[h.Params[a]] {
				seen[h.Params[a]] = true
				out = append(out, refs(h.Params[a])...)
			}
		}
	}
	return out
}

// helperResult: when v is result k of a call of a single-site helper all of whose returns yield the
// same value in position k, that value (what the expression would be had the helper been inlined).
func helperResult(v ssa.Value) ssa.Value {
	for d := 0; d < 4; d++ {
		if !inlineAware || curProgram == nil {
			return v
		}
		var call *ssa.Call
		idx := 0
		switch x := v.(type) {
		case *ssa.Extract:
			call, _ = x.Tuple.(*ssa.Call)
			idx = x.Index
		case *ssa.Call:
			call = x
		}
		if call == nil {
			return v
		}
		h := call.Call.StaticCallee()
		if h == nil || singleSite(curProgram, h) != call {
			return v
		}
		var res ssa.Value
		same := true
		eachInstr(h, func(i ssa.Instruction) {
			if r, ok := i.(*ssa.Return); ok && idx < len(r.Results) {
				if res != nil && res != r.Results[idx] {
					same = false
				}
				res = r.Results[idx]
			}
		})
		if !same || res == nil {
			return v
		}
		v = res
	}
	return v
}

// errNotNilIfI: the If testing the error of call; when call sits in a single-site helper that hands
// the error back untested, the test its caller applies to the helper's error result.
func errNotNilIfI(call *ssa.Call) *ssa.If {
	if ifi := errNotNilIf(call, call); ifi != nil {
		return ifi
	}
	if !inlineAware || curProgram == nil {
		return nil
	}
	cs := singleSite(curProgram, call.Parent())
	if cs == nil {
		return nil
	}
	errT := types.Universe.Lookup("error").Type()
	var ev ssa.Value
	if types.Identical(call.Type(), errT) {
		ev = call
	}
	for _, r := range refs(call) {
		if ex, ok := r.(*ssa.Extract); ok && types.Identical(ex.Type(), errT) {
			ev = ex
		}
	}
	if ev == nil {
		return nil
	}
	returned := false
	eachInstr(call.Parent(), func(i ssa.Instruction) {
		if r, ok := i.(*ssa.Return); ok {
			for _, res := range r.Results {
				if types.Identical(res.Type(), errT) && flowsFrom(res, func(x ssa.Value) bool { return x == ev }) {
					returned = true
				}
			}
		}
	})
	if !returned {
		return nil
	}
	return errNotNilIfI(cs)
}

// uniqueSiteArg: the argument bound to parameter p when p's function (unexported, named, never used
// as a value) is invoked from exactly one place — by call, defer or go. Unlike inlineArg this does
// not depend on inline mode and also covers deferred helpers (`defer a.finish(ticks, &wg, results)`).
func uniqueSiteArg(p *ssa.Parameter) ssa.Value {
	if curProgram == nil {
		return nil
	}
	f := p.Parent()
	if f == nil || f.Parent() != nil || f.Synthetic != "" || f.Pkg == nil || !curProgram.isRepoPkg(f.Pkg.Pkg.Path()) {
		return nil
	}
	if obj := f.Object(); obj == nil || obj.Exported() {
		return nil
	}
	if siteProg != curProgram.SSA {
		buildSiteIndex(curProgram)
	}
	if siteValue[f] || len(siteIndex[f]) != 1 {
		return nil
	}
	args := siteIndex[f][0].Common().Args
	for k, q := range f.Params {
		if q == p && k < len(args) {
			return args[k]
		}
	}
	return nil
}

// uniqueSite: the one instruction (call, defer or go) that invokes f, or nil.
func uniqueSite(f *ssa.Function) ssa.CallInstruction {
	if curProgram == nil || f == nil || len(f.Params) == 0 && f.Parent() != nil {
		return nil
	}
	if siteProg != curProgram.SSA {
		buildSiteIndex(curProgram)
	}
	if siteValue[f] || len(siteIndex[f]) != 1 {
		return nil
	}
	return siteIndex[f][0]
}
