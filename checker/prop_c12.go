package main

import (
	"fmt"
	"go/token"
	"go/types"
	"strings"

	"golang.org/x/tools/go/ssa"
)

func histField(v ssa.Value, field string) bool {
	ld, ok := isLoad(v)
	if !ok {
		return false
	}
	fa, ok := ld.X.(*ssa.FieldAddr)
	return ok && isNamedType(fa.X.Type(), "lib", "Histogram") && fieldName(fa.X.Type(), fa.Field) == field
}

func lenOf(v ssa.Value, pred func(ssa.Value) bool) bool {
	v = stripConv(resolveOnce(stripConv(v)))
	call, ok := v.(*ssa.Call)
	return ok && callName(&call.Call) == "builtin:len" && pred(call.Call.Args[0])
}

func runC12(c *Ctx) {
	add := c.P.Func("lib", "Histogram.Add")
	if add == nil {
		c.Undecided("anchor:lib.Histogram", "anchors resolve", "Histogram.Add not found")
		return
	}
	c.Saw("function " + shortFn(add))
	c12ExactlyOne(c, add)
	c12CountsLen(c)
	c12Nth(c)
	c12Unmarshal(c)
	c12ReportPlumbing(c)
	c12RenderOwned(c)
}

// c12RenderOwned: a rendering handed out by MarshalJSON shows the counts at the time of the call
// for as long as the caller keeps it. It therefore must not be (a re-slice of) storage held in the
// histogram itself, which the next rendering would overwrite.
func c12RenderOwned(c *Ctx) {
	const rule = "the bytes returned by Histogram.MarshalJSON are not backed by a field of the histogram (a reused scratch buffer would change a rendering the caller kept)"
	fn := c.P.Func("lib", "Histogram.MarshalJSON")
	key := "render-owned:(*lib.Histogram).MarshalJSON"
	if fn == nil {
		c.Undecided(key, rule, "Histogram.MarshalJSON not found")
		return
	}
	var bad []ssa.Instruction
	n := 0
	eachInstr(fn, func(i ssa.Instruction) {
		r, ok := i.(*ssa.Return)
		if !ok || len(r.Results) == 0 {
			return
		}
		n++
		if flowsFromOwnField(r.Results[0], fn) {
			bad = append(bad, r)
		}
	})
	if n == 0 {
		c.Undecided(key, rule, "no return")
		return
	}
	c.Check(len(bad) == 0, key, rule, "returned bytes are not backed by receiver storage", "MarshalJSON returns (a slice of) a buffer kept in the histogram: the next call overwrites a rendering the caller still holds", c.atsOr(bad, fn)...)
}

// flowsFromOwnField: v is, or is re-sliced / appended from, a slice loaded from a field of fn's receiver.
func flowsFromOwnField(v ssa.Value, fn *ssa.Function) bool {
	if len(fn.Params) == 0 {
		return false
	}
	recv := fn.Params[0]
	seen := map[ssa.Value]bool{}
	var rec func(v ssa.Value, depth int) bool
	rec = func(v ssa.Value, depth int) bool {
		if v == nil || seen[v] || depth > 12 {
			return false
		}
		seen[v] = true
		switch x := v.(type) {
		case *ssa.UnOp:
			if x.Op != token.MUL {
				return false
			}
			if fa, isFA := x.X.(*ssa.FieldAddr); isFA {
				base := fa.X
				if ld, isL := isLoad(base); isL {
					base = ld.X
				}
				if base == ssa.Value(recv) {
					_, isSlice := x.Type().Underlying().(*types.Slice)
					return isSlice
				}
				if al, isAl := base.(*ssa.Alloc); isAl { // spilled receiver
					for _, r := range refs(al) {
						if st, isSt := r.(*ssa.Store); isSt && st.Addr == ssa.Value(al) && st.Val == ssa.Value(recv) {
							_, isSlice := x.Type().Underlying().(*types.Slice)
							return isSlice
						}
					}
				}
			}
			if al, isAl := x.X.(*ssa.Alloc); isAl {
				for _, r := range refs(al) {
					if st, isSt := r.(*ssa.Store); isSt && st.Addr == ssa.Value(al) && rec(st.Val, depth+1) {
						return true
					}
				}
			}
		case *ssa.Slice:
			return rec(x.X, depth+1)
		case *ssa.Phi:
			for _, e := range x.Edges {
				if rec(e, depth+1) {
					return true
				}
			}
		case *ssa.Call:
			n := callName(&x.Call)
			if n == "builtin:append" || strings.HasPrefix(n, "strconv.Append") || n == "encoding/base64.(*Encoding).AppendEncode" {
				return rec(x.Call.Args[0], depth+1)
			}
		}
		return false
	}
	return rec(v, 0)
}

func c12ExactlyOne(c *Ctx, add *ssa.Function) {
	withInline(func() { c12ExactlyOneIn(c, add) }, add)
}

func c12ExactlyOneIn(c *Ctx, add *ssa.Function) {
	const r1 = "every path through Histogram.Add increments exactly one element of Counts by one and Total by one, outside any loop"
	const r2 = "the scan leaves the loop at index i iff Latency ≥ Buckets[i] && Latency < Buckets[i+1]; it is bounded by len(Buckets)-1 (last bucket = overflow); the element counted is Counts[i] for that i"
	var countStores, totalStores []*ssa.Store
	eachInstr(add, func(i ssa.Instruction) {
		st, ok := i.(*ssa.Store)
		if !ok {
			return
		}
		switch a := st.Addr.(type) {
		case *ssa.IndexAddr:
			if histField(a.X, "Counts") {
				countStores = append(countStores, st)
			}
		case *ssa.FieldAddr:
			if isNamedType(a.X.Type(), "lib", "Histogram") && fieldName(a.X.Type(), a.Field) == "Total" {
				totalStores = append(totalStores, st)
			}
		}
	})
	key1 := "exactly-one:(*lib.Histogram).Add"
	if len(countStores) != 1 || len(totalStores) != 1 {
		c.Fail(key1, r1, fmt.Sprintf("%d stores to Counts[...] and %d stores to Total; want one each", len(countStores), len(totalStores)), c.fnAt(add))
		return
	}
	cs, ts := countStores[0], totalStores[0]
	isIncr := func(st *ssa.Store) bool {
		bo, ok := st.Val.(*ssa.BinOp)
		if !ok || bo.Op != token.ADD {
			return false
		}
		one, ok := constInt(bo.Y)
		if !ok || one != 1 {
			return false
		}
		ld, ok := isLoad(bo.X)
		if !ok {
			return false
		}
		// same cell
		switch a := st.Addr.(type) {
		case *ssa.FieldAddr:
			return path(ld.X) == path(a)
		case *ssa.IndexAddr:
			b, ok := ld.X.(*ssa.IndexAddr)
			return ok && b.Index == a.Index && (b.X == a.X || histField(b.X, "Counts") && histField(a.X, "Counts"))
		}
		return false
	}
	ok := isIncr(cs) && isIncr(ts)
	why := "Counts/Total are not incremented by exactly one"
	if ok {
		for _, st := range []*ssa.Store{cs, ts} {
			set := explore(add.Blocks[0].Instrs[0], true, func(i ssa.Instruction) bool { return i == ssa.Instruction(st) })
			if len(returnsIn(set)) > 0 {
				ok, why = false, "some path through Add does not count the result"
			}
			if loopHeaderOf(st.Block()) != nil {
				ok, why = false, "a result can be counted more than once (increment inside the scan loop)"
			}
		}
	}
	c.Check(ok, key1, r1, "one Counts[i]++ and one Total++ on every path, after the scan", why, c.at(cs), c.at(ts))

	// boundary polarity
	key2 := "boundary-polarity:(*lib.Histogram).Add"
	idx := cs.Addr.(*ssa.IndexAddr).Index
	scanFn := add
	// the scan may live in a single-site helper (Buckets.index(latency)) that returns its loop variable
	if call, isCall := idx.(*ssa.Call); isCall {
		if h := call.Call.StaticCallee(); h != nil && singleSite(c.P, h) == call {
			var ret ssa.Value
			same := true
			eachInstr(h, func(i ssa.Instruction) {
				if r, isR := i.(*ssa.Return); isR && len(r.Results) == 1 {
					if ret != nil && ret != r.Results[0] {
						same = false
					}
					ret = r.Results[0]
				}
			})
			if same && ret != nil {
				idx, scanFn = ret, h
				c.Saw("function " + shortFn(h))
			}
		}
	}
	phi, isPhi := idx.(*ssa.Phi)
	if !isPhi || !isRangeIndex(phi) {
		c.Fail(key2, r2, "the counted index is not the scan's loop variable", c.at(cs))
		return
	}
	isBucketsVal := func(v ssa.Value) bool { return histField(v, "Buckets") || describeVal(v) == "recv.Buckets" }
	isLat := func(v ssa.Value) bool { return describeVal(v) == "arg0.Latency" }
	isBucketAt := func(v ssa.Value, want ssa.Value, plusOne bool) bool {
		ld, ok := isLoad(v)
		if !ok {
			return false
		}
		ia, ok := ld.X.(*ssa.IndexAddr)
		if !ok || !isBucketsVal(ia.X) {
			return false
		}
		if !plusOne {
			return ia.Index == want
		}
		bo, ok := ia.Index.(*ssa.BinOp)
		if !ok || bo.Op != token.ADD || bo.X != want {
			return false
		}
		one, ok := constInt(bo.Y)
		return ok && one == 1
	}
	var lower, upper, bound *ssa.BinOp
	lowerIn, upperIn := true, true // which outcome of the comparison means "inside this bucket's bound"
	eachInstr(scanFn, func(i ssa.Instruction) {
		bo, ok := i.(*ssa.BinOp)
		if !ok {
			return
		}
		switch {
		case bo.Op == token.GEQ && isLat(bo.X) && isBucketAt(bo.Y, phi, false), bo.Op == token.LEQ && isLat(bo.Y) && isBucketAt(bo.X, phi, false):
			lower, lowerIn = bo, true
		case bo.Op == token.LSS && isLat(bo.X) && isBucketAt(bo.Y, phi, false), bo.Op == token.GTR && isLat(bo.Y) && isBucketAt(bo.X, phi, false):
			lower, lowerIn = bo, false // negated: true means "below this bucket"
		case bo.Op == token.LSS && isLat(bo.X) && isBucketAt(bo.Y, phi, true), bo.Op == token.GTR && isLat(bo.Y) && isBucketAt(bo.X, phi, true):
			upper, upperIn = bo, true
		case bo.Op == token.GEQ && isLat(bo.X) && isBucketAt(bo.Y, phi, true), bo.Op == token.LEQ && isLat(bo.Y) && isBucketAt(bo.X, phi, true):
			upper, upperIn = bo, false // negated: true means "at or above the next bound"
		case bo.Op == token.LSS && bo.X == ssa.Value(phi):
			if sub, ok := bo.Y.(*ssa.BinOp); ok && sub.Op == token.SUB && lenOf(sub.X, isBucketsVal) {
				if one, ok := constInt(sub.Y); ok && one == 1 {
					bound = bo
				}
			}
		}
	})
	switch {
	case lower == nil:
		c.Fail(key2, r2, "no lower-inclusive test `Latency >= Buckets[i]`", c.fnAt(add))
		return
	case upper == nil:
		c.Fail(key2, r2, "no upper-exclusive test `Latency < Buckets[i+1]`", c.fnAt(add))
		return
	case bound == nil:
		c.Fail(key2, r2, "the scan is not bounded by `i < len(Buckets)-1`", c.fnAt(add))
		return
	}
	// control: the count block is reached from the loop (a) via bound false, or (b) via lower true && upper true; every other outcome increments i and loops.
	ifB, ifL, ifU := trueImpliesIf(bound), implIf(lower, lowerIn, 0), implIf(upper, upperIn, 0)
	if ifL == nil {
		ifL = implIf(lower, !lowerIn, 0)
	}
	if ifU == nil {
		ifU = implIf(upper, !upperIn, 0)
	}
	sideOf := func(ifi *ssa.If, in bool) (inSucc, outSucc *ssa.BasicBlock) {
		if in {
			return ifi.Block().Succs[0], ifi.Block().Succs[1]
		}
		return ifi.Block().Succs[1], ifi.Block().Succs[0]
	}
	okP := ifB != nil && ifL != nil && ifU != nil
	why2 := "the comparisons do not control the scan"
	if okP {
		countBlk := ts.Block()
		if !cs.Block().Dominates(countBlk) && !countBlk.Dominates(cs.Block()) {
			okP, why2 = false, "Counts and Total are updated in unrelated blocks"
		}
		exit := func(b *ssa.BasicBlock) bool {
			if scanFn != add {
				// in the helper: outside the loop, on the way to `return i`
				return loopHeaderOf(b) == nil
			}
			return b == countBlk || b == cs.Block() || b.Dominates(countBlk) && loopHeaderOf(b) == nil
		}
		// bound false → exit
		if !exit(ifB.Block().Succs[1]) {
			okP, why2 = false, "running out of bounds does not fall through to the last (overflow) bucket"
		}
		// lower true → evaluates upper; upper true → exit; lower false/upper false → continue (back to header through i+1)
		lIn, lOut := sideOf(ifL, lowerIn)
		uIn, uOut := sideOf(ifU, upperIn)
		if lIn != upper.Block() {
			okP, why2 = false, "the upper bound is not tested on the `Latency >= Buckets[i]` edge"
		}
		if !exit(uIn) {
			okP, why2 = false, "a latency inside [Buckets[i], Buckets[i+1]) does not stop the scan at i"
		}
		if exit(lOut) || exit(uOut) {
			okP, why2 = false, "the scan stops at a bucket that does not contain the latency"
		}
		if lOut != uOut {
			okP, why2 = false, "the two 'not this bucket' outcomes do not both advance to the next bucket"
		}
		// body entered on bound true
		if !edgeDominates(ifB.Block(), 0, lower.Block()) {
			okP, why2 = false, "the bucket test is not inside the bounded loop"
		}
	}
	c.Check(okP, key2, r2, "lower-inclusive, upper-exclusive, overflow fall-through", why2, c.at(lower), c.at(upper), c.at(bound))
}

// c12CountsLen: every use of Histogram.Counts as an indexable slice is
// preceded by establishing len(Counts) == len(Buckets).
func c12CountsLen(c *Ctx) {
	const rule = "a function that indexes or ranges over Histogram.Counts first establishes len(Counts) == len(Buckets): either the resize idiom (if len(Counts) != len(Buckets) { Counts = make(.., len(Buckets)) }) dominates the use, or the use is on a local that is Counts on the equal-length edge and make(.., len(Buckets)) otherwise"
	isCounts := func(v ssa.Value) bool { return histField(v, "Counts") }
	isBuckets := func(v ssa.Value) bool { return histField(v, "Buckets") }
	isLenCmp := func(bo *ssa.BinOp) bool {
		if bo.Op != token.NEQ && bo.Op != token.EQL {
			return false
		}
		return lenOf(bo.X, isCounts) && lenOf(bo.Y, isBuckets) || lenOf(bo.X, isBuckets) && lenOf(bo.Y, isCounts)
	}
	n := 0
	for _, fn := range c.P.RepoFuncs("lib") {
		var loads []*ssa.UnOp
		eachInstr(fn, func(i ssa.Instruction) {
			if u, ok := i.(*ssa.UnOp); ok && isCounts(u) {
				loads = append(loads, u)
			}
		})
		if len(loads) == 0 {
			continue
		}
		// guards in this function
		var guards []*ssa.BinOp
		eachInstr(fn, func(i ssa.Instruction) {
			if bo, ok := i.(*ssa.BinOp); ok && isLenCmp(bo) {
				guards = append(guards, bo)
			}
		})
		key := "counts-len:" + shortFn(fn)
		n++
		okFn := true
		why := ""
		var sites []string
		// collect indexing uses of each load (through φ)
		for _, ld := range loads {
			sites = append(sites, c.at(ld))
			seen := map[ssa.Value]bool{}
			var uses func(v ssa.Value, viaPhi *ssa.Phi)
			uses = func(v ssa.Value, viaPhi *ssa.Phi) {
				if seen[v] {
					return
				}
				seen[v] = true
				for _, r := range refs(v) {
					switch x := r.(type) {
					case *ssa.Call:
						if callName(&x.Call) == "builtin:len" {
							// len(Counts) in a guard is fine; len used as a loop bound counts as ranging
							isGuard := false
							for _, rr := range refs(x) {
								if bo, ok := rr.(*ssa.BinOp); ok && isLenCmp(bo) {
									isGuard = true
								}
							}
							if isGuard && len(refs(x)) == 1 {
								continue
							}
							if !c12Normalised(fn, ld, viaPhi, x, guards, isBuckets) {
								okFn, why = false, "len(Counts) bounds a loop without the lengths having been made equal"
							}
							continue
						}
						okFn, why = false, "Counts is passed to "+callName(&x.Call)
					case *ssa.Phi:
						uses(x, x)
					case *ssa.IndexAddr, *ssa.Index, *ssa.Range, *ssa.Slice:
						if !c12Normalised(fn, ld, viaPhi, r, guards, isBuckets) {
							okFn, why = false, "Counts is indexed without first making len(Counts) equal len(Buckets) (panics or shows no bucket before the first Add)"
						}
					case *ssa.Return:
						// a normalising helper: returns Counts only where the lengths are known equal
						// (or the φ of Counts-when-equal and a fresh slice)
						if viaPhi != nil {
							if !c12Normalised(fn, ld, viaPhi, r, guards, isBuckets) {
								okFn, why = false, "Counts is returned without the lengths having been made equal"
							}
							continue
						}
						okRet := false
						for _, f := range factsAt(x.Block()) {
							bo, isBo := f.Cond.(*ssa.BinOp)
							if isBo && isLenCmp(bo) && (bo.Op == token.EQL && f.Val || bo.Op == token.NEQ && !f.Val) {
								okRet = true
							}
						}
						stored := false
						eachInstr(fn, func(j ssa.Instruction) {
							if st, isSt := j.(*ssa.Store); isSt {
								if fa, isFA := st.Addr.(*ssa.FieldAddr); isFA && fieldName(fa.X.Type(), fa.Field) == "Counts" {
									stored = true
								}
							}
						})
						if !okRet || stored {
							okFn, why = false, "Counts is returned without the lengths being known equal"
						}
					case *ssa.Store:
						// storing the slice elsewhere
						if x.Val == v {
							okFn, why = false, "Counts escapes"
						}
					case *ssa.DebugRef:
					default:
						okFn, why = false, fmt.Sprintf("unrecognised use of Counts (%T)", r)
					}
				}
			}
			uses(ld, nil)
		}
		c.Check(okFn, key, rule, "lengths established before use", why, sites...)
	}
	if n == 0 {
		c.Undecided("counts-len:lib", rule, "no function reads Histogram.Counts")
	}
}

// c12Normalised decides whether, at instruction `use`, the slice derived from
// load ld (possibly through φ) is known to have len == len(Buckets).
func c12Normalised(fn *ssa.Function, ld *ssa.UnOp, viaPhi *ssa.Phi, use ssa.Instruction, guards []*ssa.BinOp, isBuckets func(ssa.Value) bool) bool {
	isFresh := func(v ssa.Value) bool {
		mk, ok := v.(*ssa.MakeSlice)
		return ok && lenOf(mk.Len, isBuckets)
	}
	for _, g := range guards {
		ifi := trueImpliesIf(g)
		if ifi == nil {
			ifi = falseImpliesIf(g)
		}
		if ifi == nil {
			continue
		}
		neqSucc, eqSucc := ifi.Block().Succs[0], ifi.Block().Succs[1]
		if g.Op == token.EQL {
			neqSucc, eqSucc = eqSucc, neqSucc
		}
		if viaPhi != nil {
			// φ idiom: edges are {ld via the equal edge, fresh make}
			okPhi := len(viaPhi.Edges) == 2
			for k, e := range viaPhi.Edges {
				pred := viaPhi.Block().Preds[k]
				switch {
				case e == ssa.Value(ld):
					// must arrive on the equal-length edge and ld must be the load the guard measured
					if !(pred == ifi.Block() && eqSucc == viaPhi.Block() || eqSucc.Dominates(pred)) {
						okPhi = false
					}
					if !guardMeasures(g, ld) {
						okPhi = false
					}
				case isFresh(e):
				default:
					okPhi = false
				}
			}
			if okPhi {
				return true
			}
			continue
		}
		// resize idiom: the not-equal branch stores a fresh slice into h.Counts and the guard dominates the use,
		// and ld is loaded after the guard's merge (re-load) or on the equal edge
		if !instrDominates(ifi, use) {
			continue
		}
		stored := false
		for _, i := range neqSucc.Instrs {
			if st, ok := i.(*ssa.Store); ok && isFresh(st.Val) {
				if fa, ok := st.Addr.(*ssa.FieldAddr); ok && fieldName(fa.X.Type(), fa.Field) == "Counts" {
					stored = true
				}
			}
		}
		if !stored {
			continue
		}
		// ld must be re-loaded after the guard (dominated by the If) or be on the equal edge
		if instrDominates(ifi, ld) || eqSucc.Dominates(ld.Block()) {
			return true
		}
	}
	return false
}

func guardMeasures(g *ssa.BinOp, ld *ssa.UnOp) bool {
	for _, side := range []ssa.Value{g.X, g.Y} {
		if call, ok := side.(*ssa.Call); ok && call.Call.Args[0] == ssa.Value(ld) {
			return true
		}
	}
	return false
}

func c12Nth(c *Ctx) {
	const rule = "Buckets.Nth(i) reads bs[i+1] only when i < len(bs)-1"
	fn := c.P.Func("lib", "Buckets.Nth")
	key := "nth-bounds:(lib.Buckets).Nth"
	if fn == nil {
		c.Undecided(key, rule, "Buckets.Nth not found")
		return
	}
	c.Saw("function " + shortFn(fn))
	ok := true
	n := 0
	eachInstr(fn, func(i ssa.Instruction) {
		ia, isIA := i.(*ssa.IndexAddr)
		if !isIA {
			return
		}
		bo, isBo := ia.Index.(*ssa.BinOp)
		if !isBo || bo.Op != token.ADD {
			return
		}
		n++
		// need fact: !(i >= len(bs)-1) or i < len(bs)-1
		good := false
		for _, f := range factsAt(ia.Block()) {
			cmp, isCmp := f.Cond.(*ssa.BinOp)
			if !isCmp || cmp.X != bo.X {
				continue
			}
			sub, isSub := cmp.Y.(*ssa.BinOp)
			if !isSub || sub.Op != token.SUB {
				continue
			}
			if one, isOne := constInt(sub.Y); !isOne || one != 1 {
				continue
			}
			if cmp.Op == token.GEQ && !f.Val || cmp.Op == token.LSS && f.Val {
				good = true
			}
		}
		if !good {
			ok = false
		}
	})
	c.Check(ok && n == 1, key, rule, "bs[i+1] under i < len(bs)-1", "bs[i+1] is read without the bound", c.fnAt(fn))
}

func c12Unmarshal(c *Ctx) {
	fn := c.P.Func("lib", "Buckets.UnmarshalText")
	const rule = "UnmarshalText appends each parsed duration exactly once per element in input order; the only other append is the constant 0 under (first element ∧ value > 0); an empty list is rejected; value[0] / value[len-1] / value[1:len-1] are guarded by len(value) >= 2"
	key := "unmarshal-buckets:(*lib.Buckets).UnmarshalText"
	if fn == nil {
		c.Undecided(key, rule, "Buckets.UnmarshalText not found")
		return
	}
	c.Saw("function " + shortFn(fn))
	var appends []*ssa.Call
	eachInstr(fn, func(i ssa.Instruction) {
		if call, ok := i.(*ssa.Call); ok && callName(&call.Call) == "builtin:append" {
			appends = append(appends, call)
		}
	})
	var parse *ssa.Call
	eachInstr(fn, func(i ssa.Instruction) {
		if call, ok := i.(*ssa.Call); ok && callName(&call.Call) == "time.ParseDuration" {
			parse = call
		}
	})
	if parse == nil {
		// a same-package wrapper whose every result is time.ParseDuration's, unchanged
		eachInstr(fn, func(i ssa.Instruction) {
			call, ok := i.(*ssa.Call)
			if !ok || parse != nil {
				return
			}
			h := call.Call.StaticCallee()
			if h == nil || h.Pkg != fn.Pkg || len(h.Blocks) == 0 || h.Signature.Results().Len() != 2 || !isNamedType(h.Signature.Results().At(0).Type(), "time", "Duration") {
				return
			}
			inner := callsNamed(h, "time.ParseDuration")
			pure := len(inner) > 0
			eachInstr(h, func(j ssa.Instruction) {
				ret, isR := j.(*ssa.Return)
				if !isR {
					return
				}
				switch v := ret.Results[0].(type) {
				case *ssa.Extract:
					pc, isCall := v.Tuple.(*ssa.Call)
					if !isCall || v.Index != 0 || callName(&pc.Call) != "time.ParseDuration" {
						pure = false
					}
				case *ssa.Const:
					if z, isZ := constInt(v); !isZ || z != 0 || isNilConst(ret.Results[1]) {
						pure = false
					}
				default:
					pure = false
				}
			})
			if pure {
				parse = call
				c.Saw("function " + shortFn(h))
			} else if len(inner) > 0 || strings.Contains(strings.ToLower(h.Name()), "pars") {
				c.Fail(key, rule, "bounds are produced by "+shortFn(h)+", which does not return time.ParseDuration's result unchanged on every path (a bound computed another way, e.g. through float64, is not the bound that was given)", c.fnAt(h))
			}
		})
	}
	if parse == nil {
		c.Fail(key, rule, "no time.ParseDuration call", c.fnAt(fn))
		return
	}
	var d ssa.Value
	for _, r := range refs(parse) {
		if ex, ok := r.(*ssa.Extract); ok && ex.Index == 0 {
			d = ex
		}
	}
	// "arbitrary spacing": every field is trimmed of all white space (strings.TrimSpace / Fields /
	// TrimFunc) before it is parsed — removing only blanks rejects tabs and line breaks
	{
		trimmed := false
		withInline(func() {
			eachInstrI(fn, func(i ssa.Instruction) {
				call, ok := i.(*ssa.Call)
				if !ok || callName(&call.Call) != "time.ParseDuration" {
					return
				}
				if flowsFrom(call.Call.Args[0], func(v ssa.Value) bool {
					tc, isCall := v.(*ssa.Call)
					if !isCall {
						return false
					}
					switch callName(&tc.Call) {
					case "strings.TrimSpace", "strings.Fields", "strings.TrimFunc", "bytes.TrimSpace", "bytes.Fields":
						return true
					}
					return false
				}) {
					trimmed = true
				}
			})
		}, fn)
		if !trimmed {
			c.Fail(key, rule, "the fields are not trimmed of white space (strings.TrimSpace) before time.ParseDuration: specifications spaced with tabs or line breaks are rejected", c.at(parse))
			return
		}
	}
	var main_, zero *ssa.Call
	bad := ""
	for _, a := range appends {
		elems, ok := sliceElems(a.Call.Args[1])
		if !ok || len(elems) != 1 {
			bad = "an append with unknown elements"
			continue
		}
		if elems[0] == d {
			if main_ != nil {
				bad = "the parsed duration is appended twice"
			}
			main_ = a
		} else if z, ok := constInt(elems[0]); ok && z == 0 {
			if zero != nil {
				bad = "the implicit zero is appended at two sites"
			}
			zero = a
		} else {
			bad = "a value other than the parsed duration or 0 is appended"
		}
	}
	if bad != "" || main_ == nil {
		if bad == "" {
			bad = "the parsed duration is never appended"
		}
		c.Fail(key, rule, bad, c.at(parse))
		return
	}
	// main append: must-pass on every iteration that parsed successfully (from parse's err==nil edge to back edge)
	ifErr := errNotNilIf(parse, parse)
	if ifErr == nil {
		c.Fail(key, rule, "the parse error is not tested", c.at(parse))
		return
	}
	header := loopHeaderOf(parse.Block())
	okM := header != nil
	why := "parsing is not inside a loop"
	if okM {
		// from the success edge, reaching the loop header again without passing the main append is a skip
		set := exploreBlock(ifErr.Block().Succs[1], func(i ssa.Instruction) bool { return i == ssa.Instruction(main_) })
		for i := range set {
			if i.Block() == header {
				okM, why = false, "an iteration can finish without appending the parsed duration"
			}
		}
		if len(returnsIn(set)) > 0 {
			okM, why = false, "the function can return between parsing and appending"
		}
		// the appended slice is stored back into *bs
		stored := false
		for _, r := range refs(main_) {
			if st, ok := r.(*ssa.Store); ok && st.Addr == ssa.Value(fn.Params[0]) {
				stored = true
			}
		}
		if !stored {
			okM, why = false, "the append result is not stored back"
		}
	}
	// zero append: under i == 0 && d > 0, and before the main append
	if okM && zero != nil {
		hasFirst, hasPos := false, false
		for _, f := range factsAt(zero.Block()) {
			bo, ok := f.Cond.(*ssa.BinOp)
			if !ok || !f.Val {
				continue
			}
			if z, isZ := constInt(bo.Y); isZ && z == 0 {
				if bo.Op == token.EQL && isRangeIndex(bo.X) {
					hasFirst = true
				}
				if bo.Op == token.GTR && bo.X == d {
					hasPos = true
				}
			}
		}
		if !hasFirst || !hasPos {
			okM, why = false, "the implicit zero bound is not added exactly when the first bound is positive"
		}
		if !instrDominates(zero, main_) && !zero.Block().Dominates(main_.Block()) {
			// zero block must flow into the main append
			set := explore(zero, false, func(i ssa.Instruction) bool { return i == ssa.Instruction(main_) })
			for i := range set {
				if i.Block() == header {
					okM, why = false, "the implicit zero is not followed by the bound itself"
				}
			}
		}
	}
	if okM && zero == nil {
		okM, why = false, "no implicit zero lower bound is added when the first bound is positive (latencies below it would fall outside every bucket)"
	}
	// empty rejected
	if okM {
		okEmpty := false
		eachInstr(fn, func(i ssa.Instruction) {
			bo, ok := i.(*ssa.BinOp)
			if !ok || bo.Op != token.EQL {
				return
			}
			if z, isZ := constInt(bo.Y); !isZ || z != 0 {
				return
			}
			if lenOf(bo.X, func(v ssa.Value) bool { ld, ok := isLoad(v); return ok && ld.X == ssa.Value(fn.Params[0]) }) {
				if ifi := trueImpliesIf(bo); ifi != nil {
					set := exploreBlock(ifi.Block().Succs[0], nil)
					for _, r := range returnsIn(set) {
						if k, isC := r.(*ssa.Return).Results[0].(*ssa.Const); !isC || k.Value != nil {
							okEmpty = true
						}
					}
				}
			}
		})
		if !okEmpty {
			okM, why = false, "an empty bucket list is accepted"
		}
	}
	// index guards on value
	if okM {
		eachInstr(fn, func(i ssa.Instruction) {
			var idxUse ssa.Instruction
			switch x := i.(type) {
			case *ssa.IndexAddr:
				if x.X == ssa.Value(fn.Params[1]) {
					idxUse = x
				}
			case *ssa.Slice:
				if x.X == ssa.Value(fn.Params[1]) {
					idxUse = x
				}
			}
			if idxUse == nil {
				return
			}
			guard := false
			for _, f := range factsAt(idxUse.Block()) {
				bo, ok := f.Cond.(*ssa.BinOp)
				if !ok {
					continue
				}
				if lenOf(bo.X, func(v ssa.Value) bool { return v == ssa.Value(fn.Params[1]) }) {
					if k, isK := constInt(bo.Y); isK && (bo.Op == token.LSS && !f.Val && k >= 2 || bo.Op == token.GEQ && f.Val && k >= 2) {
						guard = true
					}
				}
			}
			if !guard {
				okM, why = false, "value is indexed/sliced without len(value) >= 2 being known"
			}
		})
	}
	c.Check(okM, key, rule, "one append per element, implicit zero under first∧positive, empty rejected, indexes guarded", why, c.at(parse), c.at(main_))
}

func c12ReportPlumbing(c *Ctx) {
	withInline(func() { c12ReportPlumbingIn(c) }, c.P.Func("", "report"))
}

func c12ReportPlumbingIn(c *Ctx) {
	const rule = "in the report command the -buckets text and the hist[...] suffix both reach Buckets.UnmarshalText of the histogram that receives Add and is rendered"
	rep := c.P.Func("", "report")
	key := "report-plumbing:main.report:buckets"
	if rep == nil {
		c.Undecided(key, rule, "main.report not found")
		return
	}
	um := callsNamedI(rep, "(*lib.Buckets).UnmarshalText")
	if len(um) < 2 {
		c.Fail(key, rule, fmt.Sprintf("%d UnmarshalText calls in report, expected one for json+buckets and one for hist", len(um)), c.fnAt(rep))
		return
	}
	ok := true
	why := ""
	for _, u := range um {
		call := u.(*ssa.Call)
		// receiver: &X.Buckets with X the histogram local; argument derives from the bucketsStr parameter or typ[4:]
		fa, isFA := call.Call.Args[0].(*ssa.FieldAddr)
		if !isFA || fieldName(fa.X.Type(), fa.Field) != "Buckets" {
			ok, why = false, "UnmarshalText is not applied to a histogram's Buckets"
			continue
		}
		argOK := flowsFrom(call.Call.Args[1], func(v ssa.Value) bool {
			// a string parameter of the report command itself (the -buckets text or the -type text)
			p, isP := v.(*ssa.Parameter)
			if !isP || p.Parent() != rep {
				return false
			}
			b, isB := p.Type().Underlying().(*types.Basic)
			return isB && b.Kind() == types.String
		})
		if !argOK {
			ok, why = false, "the parsed text is not the command's bucket specification"
		}
		// error propagated
		if errNotNilIf(call, call) == nil {
			ok, why = false, "a bucket parse error is ignored"
		}
	}
	// hist: the histogram handed to NewHistogramReporter is the one used as report
	hr := callsNamedI(rep, "lib.NewHistogramReporter")
	if len(hr) != 1 {
		ok, why = false, "NewHistogramReporter is not called exactly once"
	} else {
		hv := hr[0].(*ssa.Call).Call.Args[0]
		same := false
		eachInstrI(rep, func(i ssa.Instruction) {
			if mi, isMI := i.(*ssa.MakeInterface); isMI && mi.X == hv && types.Identical(mi.Type(), c.P.Named("lib", "Report")) {
				same = true
			}
		})
		if !same {
			ok, why = false, "the histogram rendered is not the one that receives Add"
		}
		// and its Buckets were parsed
		parsed := false
		for _, u := range um {
			if fa, isFA := u.(*ssa.Call).Call.Args[0].(*ssa.FieldAddr); isFA && fa.X == hv {
				parsed = true
			}
		}
		if !parsed {
			ok, why = false, "the rendered histogram's buckets are never parsed"
		}
	}
	// UnmarshalText appends to its receiver: the command must hand it buckets nobody has filled before
	// (defaults stored first would stay in front of the bounds given on the command line)
	eachInstrI(rep, func(i ssa.Instruction) {
		st, isSt := i.(*ssa.Store)
		if !isSt {
			return
		}
		if fa, isFA := st.Addr.(*ssa.FieldAddr); isFA && isNamedType(fa.X.Type(), "lib", "Histogram") && fieldName(fa.X.Type(), fa.Field) == "Buckets" {
			ok, why = false, "the command stores into Histogram.Buckets itself ("+c.at(st)+"): UnmarshalText appends to what is already there, so the given bounds are not the histogram's bounds"
		}
	})
	// the hist[...] suffix is sliced out of the report type only when it is long enough
	eachInstrI(rep, func(i ssa.Instruction) {
		if sl, isSl := i.(*ssa.Slice); isSl && rootVal(sl.X) == ssa.Value(rep.Params[1]) {
			if _, why2, ok2, isSite := dischargeSlice(sl.Parent(), sl); isSite && !ok2 {
				ok, why = false, "the report type is sliced without a length guard: "+why2
			}
		}
	})
	var sites []string
	for _, u := range um {
		sites = append(sites, c.at(u))
	}
	_ = strings.Join
	c.Check(ok, key, rule, "both bucket sources parsed into the rendered histogram", why, sites...)
}
