package main

import (
	"fmt"
	"go/constant"
	"go/token"
	"go/types"
	"os"
	"path/filepath"
	"sort"
	"strings"
	"time"

	"golang.org/x/tools/go/ssa"
)

func init() {
	register(&propSpec{
		ID:    "C19",
		Title: "Command-line values mean what the manual says",
		Explanation: "DECIDED (path, table and provenance rules): set-stores (every path of every flag.Value Set method in the command that can return a nil error has stored into the flag's target, unless the target pointer itself is nil) — an accepted-but-ignored value is a violation; rate-complete (after a non-zero frequency is stored, the time unit is stored on every accepting path, so an earlier -rate cannot leak its unit; the word \"infinity\" stores frequency 0; the default unit literal is \"1s\"; bare units get the prefix \"1\"; String's separator is the one Set splits on); unlimited-rate guard (maxWorkers == DefaultMaxWorkers ∧ rate.Freq == 0 → error, evaluated before any attack can start); verbatim (no case-folding or canonicalising call lies between the flag text and the stored header key / connect-to addresses; -connect-to stores src→dst under the key parts[0]:parts[1] after validating both with net.SplitHostPort and requiring exactly four parts); special values (-max-body and -dns-ttl map \"-1\" to -1 and otherwise propagate the parser's error; -max-body rejects values above MaxInt64); plumbing table (every flag name is registered once, bound to one attackOpts field, and that field reaches the documented consumer: option constructor, Attack argument, targeter argument or resolver); resolver address normalisation (default port 53, host:port / port range / IP validated, errors returned). " +
			"NOT DECIDED: numeric meaning of every N/D, datasize notations and duration syntax are strconv / datasize / time behaviour.",
		Assumptions: []string{"flag package calls Set once per occurrence in command-line order", "strconv.Atoi, time.ParseDuration, datasize.UnmarshalText parse as documented"},
		MinObs:      36,
		Run:         runC19,
	})
}

// flagValueTypes: named types of package main with Set(string) error and String() string.
func flagSetMethods(c *Ctx) []*ssa.Function {
	pk := c.P.Pkg("")
	var out []*ssa.Function
	if pk == nil {
		return nil
	}
	names := pk.Types.Scope().Names()
	sort.Strings(names)
	for _, n := range names {
		tn, ok := pk.Types.Scope().Lookup(n).(*types.TypeName)
		if !ok {
			continue
		}
		named, ok := tn.Type().(*types.Named)
		if !ok {
			continue
		}
		for i := 0; i < named.NumMethods(); i++ {
			m := named.Method(i)
			sig := m.Type().(*types.Signature)
			if m.Name() == "Set" && sig.Params().Len() == 1 && sig.Results().Len() == 1 && types.Identical(sig.Params().At(0).Type(), types.Typ[types.String]) {
				if f := c.P.SSA.FuncValue(m); f != nil && len(f.Blocks) > 0 {
					out = append(out, f)
				}
			}
		}
	}
	return out
}

// rootedAtReceiver: the address is reached from the method receiver (through fields / loads).
func rootedAt(v ssa.Value, root ssa.Value) bool {
	seen := map[ssa.Value]bool{}
	var rec func(v ssa.Value) bool
	rec = func(v ssa.Value) bool {
		if v == nil || seen[v] {
			return false
		}
		seen[v] = true
		if v == root {
			return true
		}
		switch x := v.(type) {
		case *ssa.FieldAddr:
			return rec(x.X)
		case *ssa.Field:
			return rec(x.X)
		case *ssa.IndexAddr:
			return rec(x.X)
		case *ssa.UnOp:
			return rec(x.X)
		case *ssa.ChangeType:
			return rec(x.X)
		case *ssa.Alloc:
			// spilled value receiver
			for _, r := range refs(x) {
				if st, ok := r.(*ssa.Store); ok && st.Addr == ssa.Value(x) && st.Val == root {
					return true
				}
			}
		case *ssa.Phi:
			for _, e := range x.Edges {
				if rec(e) {
					return true
				}
			}
		}
		return false
	}
	return rec(v)
}

func isTargetStore(i ssa.Instruction, recv ssa.Value) bool {
	switch x := i.(type) {
	case *ssa.Store:
		if _, isIdx := x.Addr.(*ssa.IndexAddr); isIdx {
			// element of a local slice (ps[1] = ...) is not the target
			ia := x.Addr.(*ssa.IndexAddr)
			return rootedAt(ia.X, recv)
		}
		return rootedAt(x.Addr, recv)
	case *ssa.MapUpdate:
		return rootedAt(x.Map, recv)
	}
	return false
}

func provablyNonNilErr(r *ssa.Return) bool {
	v := r.Results[0]
	if call, ok := v.(*ssa.Call); ok {
		n := callName(&call.Call)
		if n == "fmt.Errorf" || n == "errors.New" {
			return true
		}
	}
	for _, f := range factsAt(r.Block()) {
		if bo, ok := f.Cond.(*ssa.BinOp); ok && bo.Op == token.NEQ && f.Val && bo.X == v {
			if k, isC := bo.Y.(*ssa.Const); isC && k.Value == nil {
				return true
			}
		}
	}
	return false
}

func runC19(c *Ctx) {
	sets := flagSetMethods(c)
	const rSet = "every path of a flag.Value Set method that can return a nil error has stored into the flag's target (accepted ⇒ recorded), unless the path is guarded by 'target pointer is nil'"
	if len(sets) < 6 {
		c.Fail("set-stores:main", rSet, fmt.Sprintf("only %d Set methods found; expected headers, localAddr, csl, rateFlag, maxBodyFlag, dnsTTLFlag, connectToFlag", len(sets)))
	}
	for _, fn := range sets {
		c.Saw("function " + shortFn(fn))
		key := "set-stores:" + shortFn(fn)
		recv := ssa.Value(fn.Params[0])
		ok := true
		why := ""
		var site ssa.Instruction
		eachInstr(fn, func(i ssa.Instruction) {
			r, isRet := i.(*ssa.Return)
			if !isRet || len(r.Block().Preds) == 0 && r.Block() != fn.Blocks[0] {
				return
			}
			if provablyNonNilErr(r) {
				return
			}
			// nil-target guard
			for _, f := range factsAt(r.Block()) {
				if bo, isBo := f.Cond.(*ssa.BinOp); isBo && bo.Op == token.EQL && f.Val {
					if k, isC := bo.Y.(*ssa.Const); isC && k.Value == nil && rootedAt(bo.X, recv) {
						return
					}
				}
			}
			set := explore(fn.Blocks[0].Instrs[0], true, func(x ssa.Instruction) bool { return isTargetStore(x, recv) })
			if set[i] {
				ok = false
				why = "a value is accepted (nil error) on a path that never stores it: the previous/default setting silently stays in force"
				site = i
			}
		})
		if ok {
			c.Pass(key, rSet, "every accepting path stores", c.fnAt(fn))
		} else {
			c.Fail(key, rSet, why, c.at(site))
		}
	}

	c19Rate(c)
	c19Guard(c)
	c19Verbatim(c)
	c19Special(c)
	c19SpecialReachesOption(c)
	c19Plumbing(c)
	c19Resolver(c)
	c19Manual(c)
	c06HeaderCase(c)
}

func c19Rate(c *Ctx) {
	fn := c.P.Func("", "rateFlag.Set")
	str := c.P.Func("", "rateFlag.String")
	const rule = "rateFlag.Set: \"infinity\" stores frequency 0; a bare frequency gets the unit \"1s\"; bare unit names get the prefix \"1\"; once a non-zero frequency is stored the unit is stored too on every accepting path; String prints freq<sep>unit with the separator Set splits on"
	if fn == nil || str == nil {
		c.Undecided("rate-complete:(*main.rateFlag).Set", rule, "rateFlag.Set/String not found")
		return
	}
	isFieldStore := func(i ssa.Instruction, field string) (*ssa.Store, bool) {
		st, ok := i.(*ssa.Store)
		if !ok {
			return nil, false
		}
		fa, ok := st.Addr.(*ssa.FieldAddr)
		if !ok || !isNamedType(fa.X.Type(), "lib", "ConstantPacer") || fieldName(fa.X.Type(), fa.Field) != field {
			return nil, false
		}
		return st, true
	}
	// infinity
	keyI := "rate-infinity:(*main.rateFlag).Set"
	var inf *ssa.BinOp
	eachInstr(fn, func(i ssa.Instruction) {
		if bo, ok := i.(*ssa.BinOp); ok && bo.Op == token.EQL {
			if s, isS := constString(bo.Y); isS && s == "infinity" {
				inf = bo
			}
		}
	})
	if inf == nil {
		c.Fail(keyI, rule, "the documented word \"infinity\" is not recognised", c.fnAt(fn))
	} else {
		ifi := trueImpliesIf(inf)
		okI := false
		why := "the \"infinity\" path does not store frequency 0"
		if ifi != nil {
			set := exploreBlock(ifi.Block().Succs[0], func(i ssa.Instruction) bool {
				if st, ok := isFieldStore(i, "Freq"); ok {
					if z, isZ := constInt(st.Val); isZ && z == 0 {
						return true
					}
				}
				return false
			})
			okI = len(returnsIn(set)) == 0
			// accepted alternative: the value is rewritten to "0" and joins the general path: then no return is reached either
		}
		c.Check(okI, keyI, rule, "infinity → Freq = 0", why, c.at(inf))
	}
	// rate-complete
	keyC := "rate-complete:(*main.rateFlag).Set"
	var freqStores []*ssa.Store
	eachInstr(fn, func(i ssa.Instruction) {
		if st, ok := isFieldStore(i, "Freq"); ok {
			if _, isC := constInt(st.Val); !isC {
				freqStores = append(freqStores, st)
			}
		}
	})
	if len(freqStores) != 1 {
		c.Fail(keyC, rule, fmt.Sprintf("%d stores of a parsed frequency", len(freqStores)), c.fnAt(fn))
	} else {
		fs := freqStores[0]
		set := explore(fs, false, func(i ssa.Instruction) bool { _, ok := isFieldStore(i, "Per"); return ok })
		ok := true
		why := ""
		for _, r := range returnsIn(set) {
			ret := r.(*ssa.Return)
			if provablyNonNilErr(ret) {
				continue
			}
			// allowed: the frequency-zero early return
			zero := false
			for _, f := range factsAt(ret.Block()) {
				if bo, isBo := f.Cond.(*ssa.BinOp); isBo && bo.Op == token.EQL && f.Val && strings.HasSuffix(describeVal(bo.X), ".Freq") {
					if z, isZ := constInt(bo.Y); isZ && z == 0 {
						zero = true
					}
				}
			}
			if !zero && len(ret.Block().Preds) > 1 && len(ret.Results) == 1 {
				// a return shared by `err != nil || f.Freq == 0`: decide edge by edge
				all := true
				for _, p := range ret.Block().Preds {
					fs := factsAt(p)
					if ifi, isIf := p.Instrs[len(p.Instrs)-1].(*ssa.If); isIf && p.Succs[0] != p.Succs[1] {
						fs = append(fs, fact{Cond: ifi.Cond, Val: p.Succs[0] == ret.Block(), If: ifi})
					}
					okP := false
					for _, f := range fs {
						bo, isBo := f.Cond.(*ssa.BinOp)
						if !isBo || (bo.Op != token.EQL && bo.Op != token.NEQ) {
							continue
						}
						eq := (bo.Op == token.EQL) == f.Val
						if z, isZ := constInt(bo.Y); isZ && z == 0 && eq && strings.HasSuffix(describeVal(bo.X), ".Freq") {
							okP = true
						}
						if isNilConst(bo.Y) && !eq && sameLoadedValue(bo.X, ret.Results[0]) {
							okP = true // this edge returns a non-nil error: the value is rejected
						}
					}
					if !okP {
						all = false
					}
				}
				zero = all
			}
			if !zero {
				ok, why = false, "a non-zero frequency can be accepted without storing its time unit: the unit of an earlier -rate (or the default) leaks into this one"
			}
		}
		// the unit stored comes from time.ParseDuration of the second part
		okSrc := false
		eachInstr(fn, func(i ssa.Instruction) {
			if st, isSt := isFieldStore(i, "Per"); isSt {
				if ex, isEx := st.Val.(*ssa.Extract); isEx {
					if call, isCall := ex.Tuple.(*ssa.Call); isCall && callName(&call.Call) == "time.ParseDuration" {
						okSrc = true
					} else if isCall && ex.Index == 0 {
						// a helper of this package whose every return hands back time.ParseDuration's results unchanged
						if h := call.Call.StaticCallee(); h != nil && h.Pkg == fn.Pkg && len(h.Blocks) > 0 {
							all, n := true, 0
							eachInstr(h, func(j ssa.Instruction) {
								r, isR := j.(*ssa.Return)
								if !isR {
									return
								}
								n++
								good := false
								if len(r.Results) == 2 {
									if e0, is0 := r.Results[0].(*ssa.Extract); is0 && e0.Index == 0 {
										if pc, isPC := e0.Tuple.(*ssa.Call); isPC && callName(&pc.Call) == "time.ParseDuration" {
											if e1, is1 := r.Results[1].(*ssa.Extract); is1 && e1.Tuple == e0.Tuple && e1.Index == 1 {
												good = true
											}
										}
									}
								}
								if !good {
									all = false
								}
							})
							if all && n > 0 {
								okSrc = true
							}
						}
					}
				}
			}
		})
		if ok && !okSrc {
			ok, why = false, "the unit is not the parsed duration of the text after the separator"
		}
		c.Check(ok, keyC, rule, "Freq stored ⇒ Per stored (except Freq == 0)", why, c.at(fs))
	}
	// default unit "1s" and unit prefix "1", separator agreement
	keyD := "rate-syntax:(*main.rateFlag).Set"
	sep := ""
	eachInstr(fn, func(i ssa.Instruction) {
		if call, ok := i.(*ssa.Call); ok {
			switch callName(&call.Call) {
			case "strings.SplitN", "strings.Split", "strings.Cut":
				sep, _ = constString(call.Call.Args[1])
			}
		}
	})
	has1s, hasPrefix := false, false
	units := map[string]bool{}
	// the default unit "1s" and the "1"+unit prefix must reach time.ParseDuration's argument
	for _, f := range region(fn) {
		eachInstr(f, func(i ssa.Instruction) {
			call, ok := i.(*ssa.Call)
			if !ok || callName(&call.Call) != "time.ParseDuration" {
				return
			}
			flowsFrom(call.Call.Args[0], func(v ssa.Value) bool {
				if s, ok := constString(v); ok && s == "1s" {
					has1s = true
				}
				if bo, ok := v.(*ssa.BinOp); ok && bo.Op == token.ADD {
					if s, ok := constString(bo.X); ok && s == "1" {
						hasPrefix = true
					}
				}
				// a literal slice element holding the default
				if st, ok := v.(*ssa.Alloc); ok {
					_ = st
				}
				return false
			})
		})
		eachInstr(f, func(i ssa.Instruction) {
			switch x := i.(type) {
			case *ssa.Call:
				// slices.Contains(<package-level literal table>, unit)
				if strings.HasPrefix(callName(&x.Call), "slices.Contains") && len(x.Call.Args) == 2 {
					if lit := globalLiteral(c, loadedGlobal(x.Call.Args[0])); lit != nil {
						for _, e := range lit.Elems {
							if e != nil && e.Kind() == constant.String {
								units[constant.StringVal(e)] = true
							}
						}
					}
				}
			case *ssa.Lookup:
				// bareUnits[unit] on a package-level set written once: map[string]bool (true entries) or a comma-ok lookup
				if lit := globalLiteral(c, loadedGlobal(x.X)); lit != nil {
					for _, k := range lit.Keys {
						if k == nil || k.Kind() != constant.String {
							continue
						}
						ks := constant.StringVal(k)
						if v, has := lit.Consts[ks]; x.CommaOk || (has && v.Kind() == constant.Bool && constant.BoolVal(v)) {
							units[ks] = true
						}
					}
				}
			case *ssa.Store:
				if s, ok := constString(x.Val); ok && s == "1s" {
					has1s = true
				}
			case *ssa.Phi:
				// `per = "1s"` on one branch, merged with the text after the separator
				for _, e := range x.Edges {
					if s, ok := constString(e); ok && s == "1s" {
						has1s = true
					}
				}
			case *ssa.BinOp:
				if x.Op == token.ADD {
					if s, ok := constString(x.X); ok && s == "1" {
						hasPrefix = true
					}
				}
				if x.Op == token.EQL {
					if s, ok := constString(x.Y); ok && s != "infinity" && s != "" && len(s) <= 3 {
						units[s] = true
					}
					// the text compared with each element of a local literal table: `for _, u := range [...]string{...} { if s == u`
					for _, side := range []ssa.Value{x.X, x.Y} {
						var arr ssa.Value
						switch e := side.(type) {
						case *ssa.Index:
							arr = e.X
						case *ssa.UnOp:
							if ia, isIA := e.X.(*ssa.IndexAddr); isIA && e.Op == token.MUL {
								arr = ia.X
							}
						}
						if arr == nil {
							continue
						}
						if ld, isLd := isLoad(arr); isLd {
							arr = ld.X
						}
						if sl, isSl := arr.(*ssa.Slice); isSl {
							arr = sl.X
						}
						al, isAl := arr.(*ssa.Alloc)
						if !isAl {
							continue
						}
						for _, r := range refs(al) {
							ia, isIA := r.(*ssa.IndexAddr)
							if !isIA {
								continue
							}
							for _, r2 := range refs(ia) {
								if st, isSt := r2.(*ssa.Store); isSt {
									if s, ok := constString(st.Val); ok && s != "" && len(s) <= 3 {
										units[s] = true
									}
								}
							}
						}
					}
				}
			}
		})
	}
	wantUnits := []string{"h", "m", "ms", "ns", "s", "us", "µs"}
	var gotUnits []string
	for u := range units {
		gotUnits = append(gotUnits, u)
	}
	sort.Strings(gotUnits)
	fmtStr := ""
	eachInstr(str, func(i ssa.Instruction) {
		if call, ok := i.(*ssa.Call); ok && callName(&call.Call) == "fmt.Sprintf" {
			fmtStr, _ = constString(call.Call.Args[0])
		}
	})
	if fmtStr == "" {
		// concatenation form: strconv.Itoa(f.Freq) + "/" + f.Per.String()
		eachInstr(str, func(i ssa.Instruction) {
			bo, ok := i.(*ssa.BinOp)
			if !ok || bo.Op != token.ADD {
				return
			}
			inner, isInner := bo.X.(*ssa.BinOp)
			if !isInner || inner.Op != token.ADD {
				return
			}
			num, isNum := inner.X.(*ssa.Call)
			mid, isMid := constString(inner.Y)
			dur, isDur := bo.Y.(*ssa.Call)
			if !isNum || !isMid || !isDur {
				return
			}
			nn := callName(&num.Call)
			if (nn == "strconv.Itoa" || nn == "strconv.FormatInt") && strings.HasSuffix(describeVal(num.Call.Args[0]), ".Freq") || strings.HasSuffix(describeVal(stripConv(num.Call.Args[0])), ".Freq") {
				if callName(&dur.Call) == "(time.Duration).String" && strings.HasSuffix(describeVal(dur.Call.Args[0]), ".Per") {
					fmtStr = "%d" + mid + "%s"
				}
			}
		})
	}
	okD := has1s && hasPrefix && strings.Join(gotUnits, ",") == strings.Join(wantUnits, ",") && sep == "/" && fmtStr == "%d"+sep+"%s"
	c.Check(okD, keyD, rule, "default 1s; units "+strings.Join(gotUnits, ",")+" prefixed with 1; separator "+sep+"; String "+fmtStr,
		fmt.Sprintf("default-unit=%v unit-prefix=%v units=%v separator=%q String-format=%q", has1s, hasPrefix, gotUnits, sep, fmtStr), c.fnAt(fn), c.fnAt(str))
}

func c19Guard(c *Ctx) {
	const rule = "attack() rejects an unlimited rate (rate.Freq == 0) when -max-workers was left at its default, before anything can start an attack"
	fn := c.P.Func("", "attack")
	key := "unlimited-rate-guard:main.attack"
	if fn == nil {
		c.Undecided(key, rule, "main.attack not found")
		return
	}
	var cmpF, cmpW *ssa.BinOp
	eachInstr(fn, func(i ssa.Instruction) {
		bo, ok := i.(*ssa.BinOp)
		if !ok || bo.Op != token.EQL {
			return
		}
		f, isOpt := optsFieldOf(bo.X)
		if !isOpt {
			return
		}
		if f == "rate" {
			if z, isZ := constInt(bo.Y); isZ && z == 0 && strings.HasSuffix(describeVal(bo.X), ".Freq") {
				cmpF = bo
			}
		}
		if f == "maxWorkers" {
			if k, isK := bo.Y.(*ssa.Const); isK && k.Value != nil && k.Value.Kind() == constant.Int {
				if u, isU := constant.Uint64Val(k.Value); isU && u == ^uint64(0) {
					cmpW = bo
				}
			}
		}
	})
	if cmpF == nil || cmpW == nil {
		c.Fail(key, rule, "the guard `maxWorkers == DefaultMaxWorkers && rate.Freq == 0` is missing", c.fnAt(fn))
		return
	}
	ifW, ifF := trueImpliesIf(cmpW), trueImpliesIf(cmpF)
	starts := callsNamed(fn, "(*lib.Attacker).Attack", "lib.NewAttacker")
	ok := ifW != nil && ifF != nil && len(starts) >= 1
	why := "guard does not control a branch"
	if ok {
		first, second := ifW, ifF
		if instrDominates(ifF, ifW) {
			first, second = ifF, ifW
		}
		if first != second && first.Block().Succs[0] != second.Block() {
			ok, why = false, "the two halves of the guard are not a conjunction"
		}
		for _, s := range starts {
			if !instrDominates(first, s) {
				ok, why = false, "an attack can be started without evaluating the guard"
			}
		}
		if ok {
			set := exploreBlock(second.Block().Succs[0], nil)
			for _, s := range starts {
				if set[s] {
					ok, why = false, "the guard does not stop the command"
				}
			}
			for _, r := range returnsIn(set) {
				_ = r
			}
			if len(returnsIn(set)) == 0 {
				ok, why = false, "the guard does not return an error"
			}
		}
		// nothing with effects before the guard
		if ok && first.Block() != fn.Blocks[0] {
			ok, why = false, "the guard is not the first thing attack() does"
		}
	}
	c.Check(ok, key, rule, "guard dominates NewAttacker/Attack and returns an error", why, c.at(cmpW), c.at(cmpF))
}

var rewritingCalls = map[string]bool{
	"strings.ToLower": true, "strings.ToUpper": true, "strings.Title": true, "strings.ToTitle": true,
	"strings.ToLowerSpecial": true, "strings.ToUpperSpecial": true, "strings.Map": true, "strings.ReplaceAll": true, "strings.Replace": true,
	"net/textproto.CanonicalMIMEHeaderKey": true, "net/http.CanonicalHeaderKey": true,
	"net.JoinHostPort": false,
}

func c19Verbatim(c *Ctx) {
	const rule = "-header keys and -connect-to addresses are stored verbatim: no case-folding / canonicalising / rewriting call lies between the flag text and the stored key or value (only splitting, trimming of surrounding blanks for headers, and concatenation)"
	for _, name := range []string{"headers.Set", "connectToFlag.Set"} {
		fn := c.P.Func("", name)
		key := "verbatim:" + name
		if fn == nil {
			c.Undecided(key, rule, name+" not found")
			continue
		}
		var bad []ssa.Instruction
		n := 0
		eachInstr(fn, func(i ssa.Instruction) {
			mu, ok := i.(*ssa.MapUpdate)
			if !ok {
				return
			}
			n++
			for _, v := range []ssa.Value{mu.Key, mu.Value} {
				flowsFrom(v, func(x ssa.Value) bool {
					if call, isCall := x.(*ssa.Call); isCall && rewritingCalls[callName(&call.Call)] {
						bad = append(bad, call)
					}
					return false
				})
			}
		})
		if n == 0 {
			c.Fail(key, rule, "the flag never stores into its map", c.fnAt(fn))
			continue
		}
		c.Check(len(bad) == 0, key, rule, "key and value derive from the flag text by split/trim/concat only", "the stored key or value passes through a rewriting call (e.g. case folding): the map no longer matches what net/http will look up", c.atsOr(bad, fn)...)
	}
	// connect-to structure
	const rCT = "-connect-to requires exactly four colon-separated parts, validates src and dst with net.SplitHostPort, and appends dst (parts[2]:parts[3]) under key src (parts[0]:parts[1])"
	fn := c.P.Func("", "connectToFlag.Set")
	key := "connect-to-mapping:(*main.connectToFlag).Set"
	if fn == nil {
		return
	}
	old := inlineAware
	inlineAware = true
	defer func() { inlineAware = old }()
	var mu *ssa.MapUpdate
	eachInstr(fn, func(i ssa.Instruction) {
		if m, ok := i.(*ssa.MapUpdate); ok {
			mu = m
		}
	})
	ok := mu != nil
	why := "no map update"
	if ok {
		partIdx := func(v ssa.Value) []int64 {
			var idx []int64
			flowsFrom(v, func(x ssa.Value) bool {
				if ia, isIA := x.(*ssa.IndexAddr); isIA {
					if k, isK := constInt(ia.Index); isK {
						idx = append(idx, k)
					}
				}
				// strings.Join(parts[lo:hi], ":") names parts lo … hi-1 (an open end means the four parts required above)
				if call, isCall := x.(*ssa.Call); isCall && callName(&call.Call) == "strings.Join" {
					if sep, isK := call.Call.Args[1].(*ssa.Const); isK && sep.Value != nil && sep.Value.Kind() == constant.String && constant.StringVal(sep.Value) == ":" {
						if sl, isSl := call.Call.Args[0].(*ssa.Slice); isSl {
							lo, hi := int64(0), int64(4)
							if sl.Low != nil {
								lo, _ = constInt(sl.Low)
							}
							if sl.High != nil {
								hi, _ = constInt(sl.High)
							}
							for k := lo; k < hi; k++ {
								idx = append(idx, k)
							}
						}
					}
				}
				return false
			})
			sort.Slice(idx, func(a, b int) bool { return idx[a] < idx[b] })
			return idx
		}
		ki := partIdx(mu.Key)
		var vi []int64
		if call, isCall := mu.Value.(*ssa.Call); isCall && callName(&call.Call) == "builtin:append" {
			if el, isEl := sliceElems(call.Call.Args[1]); isEl && len(el) == 1 {
				vi = partIdx(el[0])
			}
			// appended onto the existing list for the same key
			if lk, isLk := call.Call.Args[0].(*ssa.Lookup); !isLk || describeVal(lk.Index) != describeVal(mu.Key) {
				ok, why = false, "the destination is not appended to the existing list of the same source (repeated flags would not accumulate)"
			}
		}
		if ok && (fmt.Sprint(ki) != "[0 1]" || fmt.Sprint(vi) != "[2 3]") {
			ok, why = false, fmt.Sprintf("key built from parts %v and value from parts %v; want [0 1] and [2 3]", ki, vi)
		}
		if ok {
			// len(parts) != 4 → error: the map update is unreachable from the "not four parts" outcome
			// (path form, so that it also holds when parsing lives in a single-site helper)
			okLen := false
			eachInstrI(fn, func(i ssa.Instruction) {
				bo, isBo := i.(*ssa.BinOp)
				if !isBo || (bo.Op != token.NEQ && bo.Op != token.EQL) {
					return
				}
				if four, isF := constInt(bo.Y); !isF || four != 4 {
					return
				}
				if call, isCall := bo.X.(*ssa.Call); !isCall || callName(&call.Call) != "builtin:len" {
					return
				}
				ifi := trueImpliesIf(bo)
				if ifi == nil {
					return
				}
				bad := ifi.Block().Succs[0]
				if bo.Op == token.EQL {
					bad = ifi.Block().Succs[1]
				}
				if !exploreBlock(bad, nil)[ssa.Instruction(mu)] {
					okLen = true
				}
			})
			nSplit := 0
			eachInstrI(fn, func(i ssa.Instruction) {
				if call, isCall := i.(*ssa.Call); isCall && callName(&call.Call) == "net.SplitHostPort" {
					if ifi := errNotNilIfI(call); ifi != nil && !exploreBlock(ifi.Block().Succs[0], nil)[ssa.Instruction(mu)] && exploreBlock(ifi.Block().Succs[1], nil)[ssa.Instruction(mu)] {
						nSplit++
					}
				}
				// or through a predicate helper: `if !isHostPort(addr) { return error }`
				if call, isCall := i.(*ssa.Call); isCall && isHostPortPredicate(call.Call.StaticCallee()) {
					if ifi := trueImpliesIf(call); ifi != nil && !exploreBlock(ifi.Block().Succs[1], nil)[ssa.Instruction(mu)] {
						nSplit++
					} else if ifi := falseImpliesIf(call); ifi != nil && !exploreBlock(ifi.Block().Succs[1], nil)[ssa.Instruction(mu)] {
						nSplit++
					}
				}
			})
			if !okLen || nSplit != 2 {
				ok, why = false, fmt.Sprintf("four-part check=%v, validated addresses=%d (want 2)", okLen, nSplit)
			}
		}
	}
	c.Check(ok, key, rCT, "4 parts; both validated; src → append(dst)", why, c.fnAt(fn))
}

// isHostPortPredicate: a one-parameter function returning bool that is true only
// when net.SplitHostPort accepted its parameter.
func isHostPortPredicate(h *ssa.Function) bool {
	if h == nil || len(h.Blocks) == 0 || len(h.Params) != 1 || h.Signature.Results().Len() != 1 {
		return false
	}
	if b, ok := h.Signature.Results().At(0).Type().Underlying().(*types.Basic); !ok || b.Kind() != types.Bool {
		return false
	}
	calls := callsNamed(h, "net.SplitHostPort")
	if len(calls) != 1 {
		return false
	}
	call := calls[0].(*ssa.Call)
	if call.Call.Args[0] != ssa.Value(h.Params[0]) {
		return false
	}
	var errEx ssa.Value
	for _, r := range refs(call) {
		if ex, ok := r.(*ssa.Extract); ok && ex.Index == 2 {
			errEx = ex
		}
	}
	if errEx == nil {
		return false
	}
	ifi := errNotNilIf(call, call)
	okAll := true
	n := 0
	eachInstr(h, func(i ssa.Instruction) {
		ret, isR := i.(*ssa.Return)
		if !isR {
			return
		}
		n++
		switch v := ret.Results[0].(type) {
		case *ssa.BinOp:
			if !(v.Op == token.EQL && v.X == errEx && isNilConst(v.Y)) {
				okAll = false
			}
		case *ssa.Const:
			if v.Value == nil || ifi == nil {
				okAll = false
			} else if constant.BoolVal(v.Value) && !edgeDominates(ifi.Block(), 1, ret.Block()) {
				okAll = false // true returned although the address was rejected
			}
		default:
			okAll = false
		}
	})
	return okAll && n > 0
}

// c19SpecialReachesOption: the documented special values (-1 = disabled / unlimited, 0 = forever /
// none) are told apart inside the library options. The option must test the value it was given:
// a parameter rewritten first (`ttl = ttl.Truncate(time.Millisecond)` turns -1ns into 0) changes
// which special case applies.
func c19SpecialReachesOption(c *Ctx) {
	const rule = "the options that interpret special values (DNSCaching, MaxBody, Redirects) never reassign the parameter carrying the value before interpreting it"
	for _, name := range []string{"DNSCaching", "MaxBody", "Redirects"} {
		fn := c.P.Func("lib", name)
		key := "special-reaches-option:lib." + name
		if fn == nil {
			c.Undecided(key, rule, "lib."+name+" not found")
			continue
		}
		c.Saw("function " + shortFn(fn))
		var bad []ssa.Instruction
		for _, p := range fn.Params {
			// a parameter that is captured or assigned lives in a cell initialised from it
			for _, r := range refs(p) {
				st, ok := r.(*ssa.Store)
				if !ok || st.Val != ssa.Value(p) {
					continue
				}
				cell := st.Addr
				for _, g := range withAnon(fn) {
					eachInstr(g, func(i ssa.Instruction) {
						s2, isSt := i.(*ssa.Store)
						if !isSt || s2 == st {
							return
						}
						if rootCell(s2.Addr) == cell || s2.Addr == cell {
							bad = append(bad, s2)
						}
					})
				}
			}
		}
		sortInstrs(bad)
		c.Check(len(bad) == 0, key, rule, "the value is interpreted as given", "the parameter is rewritten before it is interpreted: a special value (-1, 0) can turn into another one", c.atsOr(bad, fn)...)
	}
}

func c19Special(c *Ctx) {
	const rule = "\"-1\" maps to -1 for -max-body and -dns-ttl; any other text goes through the documented parser whose error is returned; -max-body rejects sizes above MaxInt64"
	for _, w := range []struct{ name, parser string }{{"maxBodyFlag.Set", "(*github.com/c2h5oh/datasize.ByteSize).UnmarshalText"}, {"dnsTTLFlag.Set", "time.ParseDuration"}} {
		fn := c.P.Func("", w.name)
		key := "special-values:" + w.name
		if fn == nil {
			c.Undecided(key, rule, w.name+" not found")
			continue
		}
		var m1 *ssa.BinOp
		eachInstr(fn, func(i ssa.Instruction) {
			if bo, ok := i.(*ssa.BinOp); ok && bo.Op == token.EQL {
				if s, isS := constString(bo.Y); isS && s == "-1" {
					m1 = bo
				}
			}
		})
		ok := m1 != nil
		why := "\"-1\" is not special-cased"
		if ok {
			ifi := trueImpliesIf(m1)
			stored := false
			if ifi != nil {
				for i := range exploreBlock(ifi.Block().Succs[0], nil) {
					if st, isSt := i.(*ssa.Store); isSt {
						if v, isV := constInt(st.Val); isV && v == -1 {
							stored = true
						}
					}
				}
			}
			if !stored {
				ok, why = false, "\"-1\" does not store -1"
			}
		}
		if ok {
			ps := callsNamed(fn, w.parser)
			if len(ps) != 1 {
				ok, why = false, "the documented parser "+w.parser+" is not used"
			} else {
				// its error reaches a return
				call := ps[0].(*ssa.Call)
				okErr := errNotNilIf(call, call) != nil
				if !okErr {
					// `*(f.ttl), err = ParseDuration(v); return err`
					for _, r := range refs(call) {
						if ex, isEx := r.(*ssa.Extract); isEx && ex.Index == 1 {
							eachInstr(fn, func(i ssa.Instruction) {
								if ret, isR := i.(*ssa.Return); isR && flowsFrom(ret.Results[0], func(v ssa.Value) bool { return v == ssa.Value(ex) }) {
									okErr = true
								}
							})
						}
					}
				}
				if !okErr {
					ok, why = false, "the parser's error is dropped (malformed values would be accepted)"
				}
				// what is stored is the parsed value itself (conversions only): rounding, truncating
				// or clamping it maps some texts onto a different documented meaning
				if ok {
					for _, g := range region(fn) {
						eachInstr(g, func(i ssa.Instruction) {
							st, isSt := i.(*ssa.Store)
							if !isSt || !ok {
								return
							}
							if _, local := st.Addr.(*ssa.Alloc); local {
								return
							}
							if _, isK := st.Val.(*ssa.Const); isK {
								return
							}
							rewritten := ""
							fromParser := false
							flowsFrom(st.Val, func(v ssa.Value) bool {
								switch x := v.(type) {
								case *ssa.Call:
									if x == call {
										fromParser = true
									} else if f := x.Call.StaticCallee(); f == nil || f.Pkg != fn.Pkg {
										rewritten = callName(&x.Call)
									}
								case *ssa.BinOp:
									rewritten = x.Op.String()
								}
								return false
							})
							if fromParser && rewritten != "" {
								ok, why = false, "the parsed value is rewritten ("+rewritten+") before it is stored: some inputs end up with a different documented meaning"
							}
						})
					}
				}
			}
		}
		if ok && w.name == "maxBodyFlag.Set" {
			okOv := false
			eachInstr(fn, func(i ssa.Instruction) {
				if bo, isBo := i.(*ssa.BinOp); isBo && bo.Op == token.GTR {
					if k, isK := bo.Y.(*ssa.Const); isK && k.Value != nil {
						if u, isU := constant.Uint64Val(k.Value); isU && u == uint64(1<<63-1) {
							if ifi := trueImpliesIf(bo); ifi != nil {
								for _, r := range returnsIn(exploreBlock(ifi.Block().Succs[0], nil)) {
									if provablyNonNilErr(r.(*ssa.Return)) {
										okOv = true
									}
								}
							}
						}
					}
				}
			})
			if !okOv {
				ok, why = false, "sizes above MaxInt64 are not rejected (they would wrap negative = unlimited)"
			}
		}
		c.Check(ok, key, rule, "\"-1\" → -1; parser error returned", why, c.fnAt(fn))
	}
}

func c19Plumbing(c *Ctx) {
	const rule = "each flag name is registered exactly once, bound to one attackOpts field, and that field reaches the documented consumer"
	fp := flagPlumbing(c)
	type row struct {
		flag, consumer string
		pos            int // argument position for multi-argument consumers (-1: first field-derived argument)
	}
	rows := []row{
		{"rate", "(*lib.Attacker).Attack", 2}, {"duration", "(*lib.Attacker).Attack", 3}, {"name", "(*lib.Attacker).Attack", 4},
		{"max-body", "lib.MaxBody", -1}, {"dns-ttl", "lib.DNSCaching", -1}, {"connect-to", "lib.ConnectTo", -1},
		{"workers", "lib.Workers", -1}, {"max-workers", "lib.MaxWorkers", -1}, {"connections", "lib.Connections", -1},
		{"max-connections", "lib.MaxConnections", -1}, {"redirects", "lib.Redirects", -1}, {"timeout", "lib.Timeout", -1},
		{"keepalive", "lib.KeepAlive", -1}, {"http2", "lib.HTTP2", -1}, {"h2c", "lib.H2C", -1}, {"chunked", "lib.ChunkedBody", -1},
		{"unix-socket", "lib.UnixSocket", -1}, {"proxy-header", "lib.ProxyHeader", -1}, {"session-tickets", "lib.SessionTickets", -1},
		{"laddr", "lib.LocalAddr", -1}, {"resolvers", "internal/resolver.NewResolver", -1},
		{"header", "lib.NewHTTPTargeter", 2}, {"header", "lib.NewJSONTargeter", 2},
	}
	for _, r := range rows {
		key := "flag-plumbing:" + r.flag + "→" + r.consumer
		f, ok := fp.flagField[r.flag]
		if !ok {
			if r.flag == "resolvers" && c.P.Config != "" && strings.HasPrefix(c.P.Config, "windows") {
				continue
			}
			c.Fail(key, rule, "flag -"+r.flag+" is not registered", c.fnAt(c.P.Func("", "attackCmd")))
			continue
		}
		if fp.flagCount[r.flag] != 1 {
			c.Fail(key, rule, fmt.Sprintf("flag -%s is registered %d times", r.flag, fp.flagCount[r.flag]), fp.sites[r.flag])
			continue
		}
		args, ok := fp.optionArgs[r.consumer]
		if !ok {
			c.Fail(key, rule, "consumer "+r.consumer+" is never given a command-line option", fp.sites[r.flag])
			continue
		}
		got := ""
		if r.pos >= 0 && r.pos < len(args) {
			got = args[r.pos]
		} else if r.pos < 0 {
			got = fp.optionField[r.consumer]
		}
		c.Check(got == f, key, rule, fmt.Sprintf("-%s → opts.%s → %s", r.flag, f, r.consumer), fmt.Sprintf("-%s is bound to opts.%s but %s receives opts.%s", r.flag, f, r.consumer, got), fp.sites[r.flag], fp.sites[r.consumer])
	}
	// two flags must not share a field
	byField := map[string][]string{}
	for fl, f := range fp.flagField {
		byField[f] = append(byField[f], fl)
	}
	var shared []string
	for f, fls := range byField {
		if len(fls) > 1 {
			sort.Strings(fls)
			shared = append(shared, f+"←"+strings.Join(fls, ","))
		}
	}
	sort.Strings(shared)
	c.Check(len(shared) == 0, "flag-plumbing:distinct-fields", "no two flags are bound to the same attackOpts field", fmt.Sprintf("%d flags, distinct fields", len(fp.flagField)), "flags share a field: "+strings.Join(shared, "; "), c.fnAt(c.P.Func("", "attackCmd")))
	// lazy and format select the targeter
	fn := c.P.Func("", "attack")
	okLazy, okFmt := false, false
	visit := func(i ssa.Instruction) {
		if ifi, ok := i.(*ssa.If); ok {
			if f, isOpt := optsFieldOf(ifi.Cond); isOpt && f == "lazy" {
				okLazy = true
			}
		}
		if bo, ok := i.(*ssa.BinOp); ok && bo.Op == token.EQL {
			if f, isOpt := optsFieldOf(bo.X); isOpt && f == "format" {
				okFmt = true
			}
		}
	}
	// the selection may have been moved into a single-site helper (newTargeter(opts, …))
	withInline(func() { eachInstrI(fn, visit) }, fn)
	c.Check(okLazy && okFmt && fp.flagField["lazy"] == "lazy" && fp.flagField["format"] == "format", "flag-plumbing:lazy,format", "-lazy and -format select eager/lazy reading and the targets format", "both consulted in attack()", "lazy/format are not consulted", c.fnAt(fn))
}

func c19Resolver(c *Ctx) {
	withInline(func() { c19ResolverIn(c) }, c.P.Func("internal/resolver", "normalizeAddrs"))
}

func c19ResolverIn(c *Ctx) {
	const rule = "resolver addresses: a missing port defaults to 53; host:port, the 16-bit port and the IP are validated and any failure is returned; the normalised address is what is stored"
	fn := c.P.Func("internal/resolver", "normalizeAddrs")
	key := "resolver-normalise:internal/resolver.normalizeAddrs"
	if fn == nil {
		c.Undecided(key, rule, "normalizeAddrs not found")
		return
	}
	c.Saw("function " + shortFn(fn))
	ok := true
	why := ""
	has53 := false
	eachInstrI(fn, func(i ssa.Instruction) {
		if bo, isBo := i.(*ssa.BinOp); isBo && bo.Op == token.ADD {
			if s, isS := constString(bo.Y); isS && s == ":53" {
				has53 = true
				guarded := false
				for _, f := range factsAt(bo.Block()) {
					switch x := f.Cond.(type) {
					case *ssa.Call:
						// !strings.Contains(addr, ":") / !strings.ContainsRune(addr, ':')
						if n := callName(&x.Call); (n == "strings.Contains" || n == "strings.ContainsRune" || n == "strings.ContainsAny") && !f.Val {
							guarded = true
						}
					case *ssa.BinOp:
						// strings.IndexByte(addr, ':') < 0  /  == -1  /  LastIndex…
						if call, isCall := x.X.(*ssa.Call); isCall && strings.HasPrefix(callName(&call.Call), "strings.") && strings.Contains(callName(&call.Call), "Index") {
							if k, isK := constInt(x.Y); isK {
								if x.Op == token.LSS && k == 0 && f.Val || x.Op == token.EQL && k == -1 && f.Val || x.Op == token.GEQ && k == 0 && !f.Val || x.Op == token.NEQ && k == -1 && !f.Val {
									guarded = true
								}
							}
						}
					}
				}
				if !guarded {
					ok, why = false, "the default port is appended even when a port is present"
				}
			}
		}
	})
	if !has53 {
		ok, why = false, "the default DNS port 53 is not applied"
	}
	for _, n := range []string{"net.SplitHostPort", "strconv.ParseUint"} {
		cs := callsNamedI(fn, n)
		if len(cs) != 1 || errNotNilIfI(cs[0].(*ssa.Call)) == nil {
			ok, why = false, n+" validation missing or its error ignored"
		} else if n == "strconv.ParseUint" {
			if bits, isB := constInt(cs[0].(*ssa.Call).Call.Args[2]); !isB || bits != 16 {
				ok, why = false, "the port is not validated as a 16-bit number"
			}
		}
	}
	ips := callsNamedI(fn, "net.ParseIP")
	if len(ips) != 1 {
		ok, why = false, "the host is not validated as an IP address"
	}
	// every listed address is used: an iteration ends by keeping the normalised address (element store
	// or append) or by returning the error — none is dropped on the way (de-duplication by host alone
	// would drop the second of two servers on one IP with different ports)
	if ok && len(ips) == 1 {
		header := loopHeaderOf(liftBlock(ips[0].Block(), fn))
		if header == nil {
			ok, why = false, "the addresses are not validated in a loop over the list"
		} else {
			keep := func(i ssa.Instruction) bool {
				if st, isSt := i.(*ssa.Store); isSt {
					if _, isIA := st.Addr.(*ssa.IndexAddr); isIA {
						return true
					}
				}
				return isCallTo(i, "builtin:append")
			}
			for _, succ := range header.Succs {
				if loopHeaderOf(succ) != header && succ != header {
					continue
				}
				for i := range exploreBlock(succ, keep) {
					if i.Block() == header && !keep(i) {
						ok, why = false, "an iteration can go on to the next address without keeping this one: a listed resolver is never used"
					}
				}
			}
		}
	}
	c.Check(ok, key, rule, "default :53; SplitHostPort, ParseUint(…,16), ParseIP checked; every address kept", why, c.fnAt(fn))
}

// ---- manual agreement ------------------------------------------------------

type flagReg struct {
	name, kind, usage, def string
	usageConst, defConst   bool
	site                   string
}

func attackFlagRegs(c *Ctx) []flagReg {
	var out []flagReg
	for _, fname := range []string{"attackCmd", "systemSpecificFlags"} {
		fn := c.P.Func("", fname)
		if fn == nil {
			continue
		}
		eachInstr(fn, func(i ssa.Instruction) {
			call, ok := i.(*ssa.Call)
			if !ok {
				return
			}
			n := callName(&call.Call)
			if !strings.HasPrefix(n, "(*flag.FlagSet).") {
				return
			}
			kind := strings.TrimPrefix(n, "(*flag.FlagSet).")
			args := call.Call.Args
			if len(args) < 4 {
				return
			}
			name, ok := constString(args[2])
			if !ok {
				return
			}
			r := flagReg{name: name, kind: kind, site: c.at(call)}
			usageArg := args[len(args)-1]
			r.usage, r.usageConst = constString(usageArg)
			if kind != "Var" && len(args) == 5 {
				switch kind {
				case "StringVar":
					if s, ok := constString(args[3]); ok {
						r.def, r.defConst = s, true
					}
				case "BoolVar":
					if b, ok := constBool(args[3]); ok {
						r.def, r.defConst = fmt.Sprint(b), true
					}
				case "DurationVar":
					if k, ok := constInt(args[3]); ok {
						r.def, r.defConst = time.Duration(k).String(), true
					}
				case "Uint64Var":
					if k, isK := args[3].(*ssa.Const); isK && k.Value != nil {
						r.def, r.defConst = k.Value.ExactString(), true
					}
				default:
					if k, ok := constInt(args[3]); ok {
						r.def, r.defConst = fmt.Sprint(k), true
					}
				}
			}
			out = append(out, r)
		})
	}
	return out
}

type manualFlag struct {
	name, typ, usage, def string
}

func readmeAttackFlags(dir string) ([]manualFlag, bool) {
	b, err := os.ReadFile(filepath.Join(dir, "README.md"))
	if err != nil {
		return nil, false
	}
	text := string(b)
	i := strings.Index(text, "\nattack command:\n")
	if i < 0 {
		return nil, false
	}
	rest := text[i+len("\nattack command:\n"):]
	var out []manualFlag
	var cur *manualFlag
	for _, line := range strings.Split(rest, "\n") {
		switch {
		case strings.HasPrefix(line, "  -"):
			f := strings.Fields(strings.TrimSpace(line))
			out = append(out, manualFlag{name: strings.TrimPrefix(f[0], "-")})
			cur = &out[len(out)-1]
			if len(f) > 1 {
				cur.typ = f[1]
			}
		case strings.HasPrefix(line, "    \t") && cur != nil:
			if cur.usage != "" {
				cur.usage += "\n"
			}
			cur.usage += strings.TrimPrefix(line, "    \t")
		default:
			if strings.TrimSpace(line) == "" || !strings.HasPrefix(line, " ") {
				goto done
			}
		}
	}
done:
	for k := range out {
		u := out[k].usage
		if j := strings.LastIndex(u, " (default "); j >= 0 && strings.HasSuffix(u, ")") {
			out[k].def = strings.Trim(u[j+len(" (default "):len(u)-1], "\"")
			out[k].usage = u[:j]
		}
	}
	return out, len(out) > 0
}

func c19Manual(c *Ctx) {
	const rule = "the attack command's flag listing in README.md names exactly the registered flags, with the registered usage text and default value (platform-specific flags excepted)"
	regs := attackFlagRegs(c)
	man, ok := readmeAttackFlags(c.P.Dir)
	if !ok || len(regs) == 0 {
		c.Undecided("manual:README.md:attack-flags", rule, "no 'attack command:' flag listing found in README.md or no registrations found (unresolved anchor)")
		return
	}
	byName := map[string]flagReg{}
	for _, r := range regs {
		byName[r.name] = r
	}
	manBy := map[string]manualFlag{}
	for _, m := range man {
		manBy[m.name] = m
	}
	var problems []string
	var sites []string
	for _, r := range regs {
		m, ok := manBy[r.name]
		if !ok {
			problems = append(problems, "-"+r.name+" is registered but not in the manual")
			sites = append(sites, r.site)
			continue
		}
		if r.usageConst && m.usage != r.usage {
			problems = append(problems, fmt.Sprintf("-%s: manual says %q, flag says %q", r.name, m.usage, r.usage))
			sites = append(sites, r.site)
		}
		if r.defConst {
			zero := r.def == "" || r.def == "0" || r.def == "false" || r.def == "0s"
			if zero && m.def != "" || !zero && m.def != r.def {
				problems = append(problems, fmt.Sprintf("-%s: manual default %q, registered default %q", r.name, m.def, r.def))
				sites = append(sites, r.site)
			}
		}
	}
	for _, m := range man {
		if _, ok := byName[m.name]; !ok {
			if m.name == "resolvers" && strings.HasPrefix(c.P.Config, "windows") {
				continue
			}
			problems = append(problems, "-"+m.name+" is in the manual but not registered")
		}
	}
	sort.Strings(problems)
	if len(sites) == 0 {
		sites = []string{"README.md"}
	}
	c.Check(len(problems) == 0, "manual:README.md:attack-flags", rule, fmt.Sprintf("%d flags agree in name, usage and default", len(regs)), strings.Join(problems, "; "), sites...)
}
