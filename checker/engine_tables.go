package main

import (
	"go/ast"
	"go/token"
	"go/types"
	"reflect"
	"regexp"
	"strconv"
	"strings"

	"golang.org/x/tools/go/packages"
)

// jsonEntry is one key handled by a generated easyjson encoder or decoder.
type jsonEntry struct {
	Key    string
	Field  string // struct field read / written
	Method string // jwriter / jlexer method carrying the value
	Pos    token.Pos
	Extra  string // e.g. "MarshalJSON", "UnmarshalJSON", "omitempty-guard"
}

// easyjsonTables extracts the key→field→method tables from the generated
// encoder and decoder of the given json alias type (jsonResult / jsonTarget),
// found by signature: encoder func(*jwriter.Writer, T), decoder func(*jlexer.Lexer, *T).
func easyjsonTables(pk *packages.Package, typeName string) (enc, dec []jsonEntry, encFn, decFn *ast.FuncDecl) {
	isT := func(e ast.Expr, ptr bool) bool {
		if ptr {
			s, ok := e.(*ast.StarExpr)
			if !ok {
				return false
			}
			e = s.X
		}
		id, ok := e.(*ast.Ident)
		return ok && id.Name == typeName
	}
	isSel := func(e ast.Expr, pkg, name string) bool {
		s, ok := e.(*ast.StarExpr)
		if !ok {
			return false
		}
		se, ok := s.X.(*ast.SelectorExpr)
		if !ok {
			return false
		}
		id, ok := se.X.(*ast.Ident)
		return ok && id.Name == pkg && se.Sel.Name == name
	}
	for _, f := range pk.Syntax {
		for _, d := range f.Decls {
			fd, ok := d.(*ast.FuncDecl)
			if !ok || fd.Type.Params == nil {
				continue
			}
			if fd.Recv == nil && len(fd.Type.Params.List) == 2 {
				p0, p1 := fd.Type.Params.List[0].Type, fd.Type.Params.List[1].Type
				switch {
				case isSel(p0, "jwriter", "Writer") && isT(p1, false):
					encFn = fd
				case isSel(p0, "jlexer", "Lexer") && isT(p1, true):
					decFn = fd
				}
			}
			// method form: func (t T) encode(out *jwriter.Writer) / func (t *T) decode(in *jlexer.Lexer)
			if fd.Recv != nil && len(fd.Recv.List) == 1 && len(fd.Type.Params.List) == 1 {
				rt, p0 := fd.Recv.List[0].Type, fd.Type.Params.List[0].Type
				switch {
				case isSel(p0, "jwriter", "Writer") && isT(rt, false) && fd.Name.Name != "MarshalEasyJSON":
					encFn = fd
				case isSel(p0, "jlexer", "Lexer") && isT(rt, true) && fd.Name.Name != "UnmarshalEasyJSON":
					decFn = fd
				}
			}
		}
	}
	if encFn != nil {
		enc = easyjsonEncoderEntries(pk, encFn)
	}
	if decFn != nil {
		dec = easyjsonDecoderEntries(pk, decFn)
	}
	return
}

var prefixRe = regexp.MustCompile(`^,?"([^"]+)":$`)

// structFieldOf returns the name of the field selected on identifier base in e (first match, outermost).
func fieldSelectedOn(e ast.Node, base string) string {
	found := ""
	ast.Inspect(e, func(n ast.Node) bool {
		if found != "" {
			return false
		}
		if se, ok := n.(*ast.SelectorExpr); ok {
			if id, ok := se.X.(*ast.Ident); ok && id.Name == base {
				found = se.Sel.Name
				return false
			}
		}
		return true
	})
	return found
}

func easyjsonEncoderEntries(pk *packages.Package, fd *ast.FuncDecl) []jsonEntry {
	outName := fd.Type.Params.List[0].Names[0].Name
	inName := ""
	if fd.Recv != nil {
		inName = fd.Recv.List[0].Names[0].Name
	} else {
		inName = fd.Type.Params.List[1].Names[0].Name
	}
	var out []jsonEntry
	// every block `{ const prefix string = ",\"k\":" ; ... }`, possibly wrapped in `if cond { ... }` for omitempty
	var visit func(stmts []ast.Stmt, guard string)
	visit = func(stmts []ast.Stmt, guard string) {
		for _, st := range stmts {
			switch s := st.(type) {
			case *ast.BlockStmt:
				if e, ok := encBlock(pk, s, outName, inName); ok {
					e.Extra = strings.TrimSpace(e.Extra + " " + guard)
					out = append(out, e)
				} else {
					visit(s.List, guard)
				}
			case *ast.IfStmt:
				g := "guard:" + types.ExprString(s.Cond)
				if e, ok := encBlock(pk, s.Body, outName, inName); ok {
					e.Extra = strings.TrimSpace(e.Extra + " " + g)
					out = append(out, e)
				} else {
					visit(s.Body.List, g)
				}
			}
		}
	}
	visit(fd.Body.List, "")
	return out
}

func encBlock(pk *packages.Package, b *ast.BlockStmt, outName, inName string) (jsonEntry, bool) {
	var e jsonEntry
	if len(b.List) == 0 {
		return e, false
	}
	ds, ok := b.List[0].(*ast.DeclStmt)
	if !ok {
		return e, false
	}
	gd, ok := ds.Decl.(*ast.GenDecl)
	if !ok || gd.Tok != token.CONST || len(gd.Specs) != 1 {
		return e, false
	}
	vs := gd.Specs[0].(*ast.ValueSpec)
	if len(vs.Values) != 1 {
		return e, false
	}
	lit, ok := vs.Values[0].(*ast.BasicLit)
	if !ok || lit.Kind != token.STRING {
		return e, false
	}
	sv, err := strconv.Unquote(lit.Value)
	if err != nil {
		return e, false
	}
	m := prefixRe.FindStringSubmatch(sv)
	if m == nil {
		return e, false
	}
	e.Key = m[1]
	e.Pos = b.Pos()
	// first out.<Method>(...) call whose arguments mention in.<Field>
	ast.Inspect(b, func(n ast.Node) bool {
		if e.Method != "" {
			return false
		}
		call, ok := n.(*ast.CallExpr)
		if !ok {
			return true
		}
		se, ok := call.Fun.(*ast.SelectorExpr)
		if !ok {
			return true
		}
		id, ok := se.X.(*ast.Ident)
		if !ok || id.Name != outName {
			return true
		}
		for _, a := range call.Args {
			if f := fieldSelectedOn(a, inName); f != "" {
				e.Method, e.Field = se.Sel.Name, f
				if strings.Contains(types.ExprString(a), "MarshalJSON") {
					e.Extra = "MarshalJSON"
				}
				return false
			}
		}
		return true
	})
	if e.Method == "" {
		// nested containers (headers): field mentioned anywhere, value writer = the innermost out.String etc.
		e.Field = fieldSelectedOn(b, inName)
		e.Method = "nested"
	}
	return e, true
}

func easyjsonDecoderEntries(pk *packages.Package, fd *ast.FuncDecl) []jsonEntry {
	inName := fd.Type.Params.List[0].Names[0].Name
	outName := ""
	if fd.Recv != nil {
		outName = fd.Recv.List[0].Names[0].Name
	} else {
		outName = fd.Type.Params.List[1].Names[0].Name
	}
	var out []jsonEntry
	ast.Inspect(fd.Body, func(n ast.Node) bool {
		sw, ok := n.(*ast.SwitchStmt)
		if !ok {
			return true
		}
		if id, ok := sw.Tag.(*ast.Ident); !ok || id.Name != "key" {
			return true
		}
		for _, cs := range sw.Body.List {
			cc := cs.(*ast.CaseClause)
			for _, l := range cc.List {
				lit, ok := l.(*ast.BasicLit)
				if !ok {
					continue
				}
				key, _ := strconv.Unquote(lit.Value)
				e := jsonEntry{Key: key, Pos: cc.Pos()}
				// field assigned: out.<F> = ... or (out.<F>).UnmarshalJSON(...) or (out.<F>)[k] = ...
				for _, st := range cc.Body {
					ast.Inspect(st, func(m ast.Node) bool {
						switch x := m.(type) {
						case *ast.AssignStmt:
							for _, lhs := range x.Lhs {
								if f := fieldSelectedOn(lhs, outName); f != "" && e.Field == "" {
									e.Field = f
								}
							}
						case *ast.CallExpr:
							if se, ok := x.Fun.(*ast.SelectorExpr); ok {
								if se.Sel.Name == "UnmarshalJSON" {
									if f := fieldSelectedOn(se.X, outName); f != "" {
										if e.Field == "" {
											e.Field = f
										}
										e.Extra = "UnmarshalJSON"
									}
								}
								if id, ok := se.X.(*ast.Ident); ok && id.Name == inName {
									switch se.Sel.Name {
									case "IsNull", "Skip", "Delim", "IsDelim", "WantColon", "WantComma", "Ok", "AddError", "SkipRecursive", "Consumed", "IsStart":
									default:
										if e.Method == "" {
											e.Method = se.Sel.Name
										} else if e.Method != se.Sel.Name && !strings.Contains(e.Method, se.Sel.Name) {
											e.Method += "+" + se.Sel.Name
										}
									}
								}
							}
						}
						return true
					})
				}
				out = append(out, e)
			}
		}
		return false
	})
	return out
}

// structJSONTags returns field name → (json key, omitempty) for a named struct.
func structJSONTags(n *types.Named) (map[string]string, map[string]bool, []string) {
	st, ok := n.Underlying().(*types.Struct)
	tags, omit := map[string]string{}, map[string]bool{}
	var order []string
	if !ok {
		return tags, omit, nil
	}
	for i := 0; i < st.NumFields(); i++ {
		f := st.Field(i)
		order = append(order, f.Name())
		tag := reflect.StructTag(st.Tag(i)).Get("json")
		parts := strings.Split(tag, ",")
		if parts[0] != "" {
			tags[f.Name()] = parts[0]
		}
		for _, p := range parts[1:] {
			if p == "omitempty" {
				omit[f.Name()] = true
			}
		}
	}
	return tags, omit, order
}

// numberedList extracts "  N. text" items following a marker line.
var listItemRe = regexp.MustCompile(`^\s*(\d+)\.\s+(.+?)\s*$`)

func numberedListAfter(text, marker string) []string {
	i := strings.Index(text, marker)
	if i < 0 {
		return nil
	}
	var items []string
	started := false
	for _, line := range strings.Split(text[i+len(marker):], "\n") {
		m := listItemRe.FindStringSubmatch(line)
		if m == nil {
			if started && strings.TrimSpace(line) != "" {
				break
			}
			if started && strings.TrimSpace(line) == "" {
				break
			}
			continue
		}
		started = true
		n, _ := strconv.Atoi(m[1])
		if n != len(items)+1 {
			break
		}
		items = append(items, m[2])
	}
	return items
}

// stringConst finds the value of a package-level string constant.
func stringConst(pk *packages.Package, name string) (string, token.Pos) {
	o := pk.Types.Scope().Lookup(name)
	c, ok := o.(*types.Const)
	if !ok {
		return "", token.NoPos
	}
	s, err := strconv.Unquote(c.Val().ExactString())
	if err != nil {
		return "", token.NoPos
	}
	return s, c.Pos()
}
