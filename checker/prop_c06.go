package main

import (
	"fmt"
	"go/token"
	"go/types"
	"sort"
	"strings"

	"golang.org/x/tools/go/ssa"
)

func init() {
	register(&propSpec{
		ID:    "C06",
		Title: "Each result faithfully describes its HTTP exchange",
		Explanation: "DECIDED (path, provenance and who-may-call rules): body-closed (defer r.Body.Close() registered right after client.Do succeeds, before any later return); body-drained (on the success edge of the possibly limited io.ReadAll, io.Copy(io.Discard, <the unlimited body>) is passed before any return, unconditionally); limit-reader (ReadAll reads r.Body directly or io.LimitReader(r.Body, a.maxBody) under a.maxBody >= 0); no-lost-error (every fallible call in hit stores its error into the one cell the deferred closure turns into Result.Error, tests it, and the error edge returns without clearing it); code-only-on-success (the only store to Result.Code is dominated by the err == nil edges of Do, ReadAll and the drain); success-range agreement with the report (all 65536 codes); field provenance (Method←target.Method, URL←target.URL, Attack←attack name, Headers←response.Header, Code←response.StatusCode, BytesIn←len(captured body), BytesOut←request.ContentLength when != -1, Body←ReadAll, Error←response.Status / err.Error()); header-case (no canonicalising net/http or textproto API receives a non-constant key in Target.Request, the target parsers or the -header flag; injected headers use the constant keys X-Vegeta-Attack (only when the name is non-empty) and X-Vegeta-Seq formatted from this result's Seq); Target.Request copies header values, passes method/URL/body through and sets Host from the Host header; redirect policy shape. " +
			"NOT DECIDED: byte-exact capture of max-body bytes, redirect counting and what net/http puts on the wire are net/http run-time behaviour.",
		Assumptions: []string{"net/http Client/Transport, io.ReadAll, io.LimitReader, io.Copy behave as documented"},
		MinObs:      22,
		Run:         runC06,
	})
}

func runC06(c *Ctx) {
	a := resolveAttack(c)
	if !a.ok(c, "C06") {
		return
	}
	// hit may delegate parts of the exchange to single-site helpers (readBody, …): analysed as inlined
	withInline(func() { runC06Hit(c, a) }, a.Hit)
}

func runC06Hit(c *Ctx, a *attackAnchors) {
	hit := a.Hit
	dos := callsNamedI(hit, "(*net/http.Client).Do")
	if len(dos) != 1 {
		c.Undecided("anchor:lib.hit:client.Do", "anchors resolve", fmt.Sprintf("%d client.Do calls in hit", len(dos)), c.fnAt(hit))
		return
	}
	do := dos[0].(*ssa.Call)
	var resp ssa.Value
	for _, r := range refs(do) {
		if ex, ok := r.(*ssa.Extract); ok && ex.Index == 0 {
			resp = ex
		}
	}
	doIf := errNotNilIf(do, do)
	if resp == nil || doIf == nil {
		c.Fail("no-lost-error:(*lib.Attacker).hit:Do", "errors are tested", "the result of client.Do is not tested", c.at(do))
		return
	}
	isRespBody := func(v ssa.Value) bool {
		for k := 0; k < 4; k++ {
			v = stripIface(v)
			if r := rootVal(v); r != v {
				v = r
				continue
			}
			break
		}
		ld, ok := isLoad(v)
		if !ok {
			return false
		}
		fa, ok := ld.X.(*ssa.FieldAddr)
		return ok && fa.X == resp && fieldName(fa.X.Type(), fa.Field) == "Body"
	}

	// ---- body closed
	const rClose = "the response body is closed on every exit after client.Do succeeded: defer r.Body.Close() is registered on the success edge before anything that can return"
	var closeDefer *ssa.Defer
	eachInstrI(hit, func(i ssa.Instruction) {
		if d, ok := i.(*ssa.Defer); ok && d.Call.IsInvoke() && d.Call.Method.Name() == "Close" && isRespBody(d.Call.Value) {
			closeDefer = d
		}
	})
	okClose := closeDefer != nil && edgeDominates(doIf.Block(), 1, closeDefer.Block())
	whyClose := "no `defer r.Body.Close()` on the success edge of client.Do"
	if okClose {
		set := exploreBlock(doIf.Block().Succs[1], func(i ssa.Instruction) bool { return i == ssa.Instruction(closeDefer) })
		if len(returnsIn(set)) > 0 {
			okClose, whyClose = false, "a return after a successful Do precedes the deferred Close (body leaked)"
		}
		for i := range set {
			if call, isCall := i.(ssa.CallInstruction); isCall && !isCallTo(i, "builtin:len") {
				if _, isDefer := i.(*ssa.Defer); !isDefer {
					_ = call
					okClose, whyClose = false, "calls happen between Do and the deferred Close"
				}
			}
		}
	}
	c.Check(okClose, "body-closed:(*lib.Attacker).hit", rClose, "deferred right after Do", whyClose, c.at(do))

	// ---- read + drain
	const rDrain = "after the (possibly limited) io.ReadAll succeeds, io.Copy(io.Discard, r.Body) on the unlimited body is passed before any return, unconditionally, and its error is checked"
	ras := callsNamedI(hit, "io.ReadAll")
	cps := callsNamedI(hit, "io.Copy")
	var ra, cp *ssa.Call
	if len(ras) == 1 {
		ra = ras[0].(*ssa.Call)
	}
	if len(cps) == 1 {
		cp = cps[0].(*ssa.Call)
	}
	if ra == nil || cp == nil {
		c.Fail("body-drained:(*lib.Attacker).hit", rDrain, fmt.Sprintf("%d io.ReadAll and %d io.Copy calls in hit; want 1 and 1", len(ras), len(cps)), c.fnAt(hit))
	} else {
		raIf := errNotNilIfI(ra)
		ok := raIf != nil
		why := "the ReadAll error is not tested"
		if ok {
			set := exploreBlock(raIf.Block().Succs[1], func(i ssa.Instruction) bool { return i == ssa.Instruction(cp) })
			if len(returnsIn(set)) > 0 {
				ok, why = false, "the remainder of the body is drained only conditionally: some path returns after ReadAll without io.Copy(io.Discard, r.Body)"
			}
		}
		if ok {
			if !isRespBody(cp.Call.Args[1]) {
				ok, why = false, "the drain does not read the unlimited response body"
			}
			if describeVal(cp.Call.Args[0]) != "*Discard" && describeVal(cp.Call.Args[0]) != "Discard" {
				ok, why = false, "the drain does not discard (dst is "+describeVal(cp.Call.Args[0])+")"
			}
			if errNotNilIfI(cp) == nil {
				ok, why = false, "a read error while draining is ignored"
			}
		}
		c.Check(ok, "body-drained:(*lib.Attacker).hit", rDrain, "ReadAll ok → io.Copy(io.Discard, r.Body) → err checked", why, c.at(ra), c.at(cp))

		// limit reader
		const rLimit = "ReadAll reads r.Body itself, or io.LimitReader(r.Body, a.maxBody) exactly when a.maxBody >= 0"
		okL := false
		whyL := "ReadAll's source is not {r.Body | LimitReader(r.Body, a.maxBody) when a.maxBody >= 0}"
		if phi, isPhi := ra.Call.Args[0].(*ssa.Phi); isPhi && len(phi.Edges) == 2 {
			var plain, lim ssa.Value
			var limPred *ssa.BasicBlock
			for k, e := range phi.Edges {
				if isRespBody(e) {
					plain = e
				} else if call, isCall := e.(*ssa.Call); isCall && callName(&call.Call) == "io.LimitReader" {
					lim = e
					limPred = phi.Block().Preds[k]
				}
			}
			if plain != nil && lim != nil {
				lc := lim.(*ssa.Call)
				okL = isRespBody(lc.Call.Args[0]) && attackerFieldLoad(rootVal(lc.Call.Args[1]), "maxBody")
				if okL {
					okL = false
					for _, f := range factsAt(limPred) {
						if bo, isBo := f.Cond.(*ssa.BinOp); isBo && f.Val && bo.Op == token.GEQ && attackerFieldLoad(rootVal(bo.X), "maxBody") {
							if z, isZ := constInt(bo.Y); isZ && z == 0 {
								okL = true
							}
						}
					}
					if !okL {
						whyL = "the limit is not applied exactly when a.maxBody >= 0"
					}
				}
			}
		} else if isRespBody(ra.Call.Args[0]) {
			whyL = "max-body is never applied"
		}
		c.Check(okL, "limit-reader:(*lib.Attacker).hit", rLimit, "φ[r.Body, LimitReader(r.Body, a.maxBody) | maxBody >= 0]", whyL, c.at(ra))
	}

	// ---- no lost error
	const rErr = "every fallible call in hit stores its error into the one cell that the deferred closure converts to Result.Error; the error edge returns without clearing the cell"
	var errCell ssa.Value
	if a.HitDefer != nil {
		eachInstr(a.HitDefer, func(i ssa.Instruction) {
			if st, ok := resultFieldStore(i, "Error"); ok {
				if call, isCall := st.Val.(*ssa.Call); isCall && call.Call.IsInvoke() && call.Call.Method.Name() == "Error" {
					errCell = loadedCell(call.Call.Value)
				}
			}
		})
	}
	if errCell == nil && c06ErrorReturnStyle(c, hit, rErr) {
		// error-return style handled
	} else if errCell == nil {
		c.Fail("no-lost-error:(*lib.Attacker).hit", rErr, "the deferred closure does not set Result.Error from the captured err", c.fnAt(hit))
	} else {
		// the deferred store is guarded by err != nil on the same cell
		okG := false
		eachInstr(a.HitDefer, func(i ssa.Instruction) {
			if st, ok := resultFieldStore(i, "Error"); ok {
				for _, f := range factsAt(st.Block()) {
					// `err != nil` known true, or `err == nil` known false (guard clause with an early return)
					if bo, isBo := f.Cond.(*ssa.BinOp); isBo && (bo.Op == token.NEQ && f.Val || bo.Op == token.EQL && !f.Val) && loadedCell(bo.X) == errCell && isNilConst(bo.Y) {
						okG = true
					}
				}
			}
		})
		c.Check(okG, "no-lost-error:(*lib.Attacker).hit:deferred", rErr, "Result.Error = err.Error() when err != nil", "the deferred conversion of err is missing its err != nil guard or reads another variable", c.fnAt(a.HitDefer))
		errT := types.Universe.Lookup("error").Type()
		n := 0
		eachInstrI(hit, func(i ssa.Instruction) {
			call, ok := i.(*ssa.Call)
			if !ok {
				return
			}
			var ev ssa.Value
			if types.Identical(call.Type(), errT) {
				ev = call
			}
			for _, r := range refs(call) {
				if ex, isEx := r.(*ssa.Extract); isEx && types.Identical(ex.Type(), errT) {
					ev = ex
				}
			}
			if tup, isTup := call.Type().(*types.Tuple); isTup && ev == nil {
				for k := 0; k < tup.Len(); k++ {
					if types.Identical(tup.At(k).Type(), errT) {
						c.Fail("no-lost-error:(*lib.Attacker).hit:"+callLabel(call), rErr, "the error result of "+callLabel(call)+" is discarded", c.at(call))
						n++
						return
					}
				}
			}
			if ev == nil {
				return
			}
			n++
			key := "no-lost-error:(*lib.Attacker).hit:" + callLabel(call)
			stored := false
			for _, r := range refs(ev) {
				if st, isSt := r.(*ssa.Store); isSt && st.Val == ev && rootCell(st.Addr) == errCell {
					stored = true
				}
			}
			fromEv := func(v ssa.Value) bool { return flowsFrom(v, func(x ssa.Value) bool { return x == ev }) }
			if !stored && call.Parent() != hit {
				// inside a helper: the error reaches the reported cell through the helper's result
				eachInstr(hit, func(j ssa.Instruction) {
					if st, isSt := j.(*ssa.Store); isSt && rootCell(st.Addr) == errCell && fromEv(st.Val) {
						stored = true
					}
				})
			}
			if !stored {
				c.Fail(key, rErr, "the error of "+callLabel(call)+" is kept in a different variable than the one reported (shadowed err): a failure would produce an empty error text", c.at(call))
				return
			}
			ifi := errNotNilIfI(call)
			if ifi == nil {
				c.Fail(key, rErr, "the error of "+callLabel(call)+" is never tested", c.at(call))
				return
			}
			set := exploreBlock(ifi.Block().Succs[0], nil)
			bad := len(returnsIn(set)) == 0
			for x := range set {
				if st, isSt := x.(*ssa.Store); isSt && rootCell(st.Addr) == errCell && !(call.Parent() != hit && fromEv(st.Val)) {
					bad = true
				}
				if _, isIf := x.(*ssa.If); isIf {
					bad = true
				}
			}
			c.Check(!bad, key, rErr, "stored, tested, error edge returns", "the error edge of "+callLabel(call)+" does not simply return with the error in place", c.at(call))
		})
		if n < 5 {
			c.Fail("no-lost-error:(*lib.Attacker).hit", rErr, fmt.Sprintf("only %d fallible calls found in hit; expected targeter, Request, Do, ReadAll, Copy", n), c.fnAt(hit))
		}
	}

	// ---- code only on success
	const rCode = "Result.Code is stored once, from the response's StatusCode, and only after Do, ReadAll and the drain all succeeded (a failed exchange never carries a status)"
	var codeStores []*ssa.Store
	hitScope := withAnon(hit)
	for _, g := range inlinedRegion(c.P, hit) {
		if g != hit {
			hitScope = append(hitScope, withAnon(g)...)
		}
	}
	for _, fn := range hitScope {
		eachInstr(fn, func(i ssa.Instruction) {
			if st, ok := resultFieldStore(i, "Code"); ok {
				codeStores = append(codeStores, st)
			}
		})
	}
	if len(codeStores) != 1 {
		c.Fail("code-only-on-success:(*lib.Attacker).hit", rCode, fmt.Sprintf("%d stores to Result.Code", len(codeStores)), c.fnAt(hit))
	} else {
		cs := codeStores[0]
		ok := true
		why := ""
		for _, call := range []*ssa.Call{do, ra, cp} {
			if call == nil {
				continue
			}
			ifi := errNotNilIfI(call)
			okDom := ifi != nil
			if okDom {
				if ifi.Parent() == cs.Parent() {
					okDom = edgeDominates(ifi.Block(), 1, cs.Block())
				} else {
					// the test lives in a helper: the store is unreachable from its error edge and reachable from its ok edge
					okDom = !exploreBlock(ifi.Block().Succs[0], nil)[ssa.Instruction(cs)] && exploreBlock(ifi.Block().Succs[1], nil)[ssa.Instruction(cs)]
				}
			}
			if !okDom {
				ok, why = false, "the status code is recorded before "+callLabel(call)+" is known to have succeeded: a body read error would leave a success status next to an error"
			}
		}
		c.Check(ok, "code-only-on-success:(*lib.Attacker).hit", rCode, "dominated by the ok edges of Do, ReadAll, Copy", why, c.at(cs))
	}

	// ---- success range
	c10SuccessRange(c)

	// ---- provenance
	const rProv = "each Result field set by hit comes from the documented source and from nothing else"
	want := map[string][]string{
		"Attack":    {"arg1.name"},
		"Method":    {"var<lib.Target>.Method"},
		"URL":       {"var<lib.Target>.URL"},
		"Body":      {"io.ReadAll(body)#0"},
		"BytesIn":   {"builtin:len(var<lib.Result>.Body)"},
		"BytesOut":  {"req.ContentLength"},
		"Code":      {"resp.StatusCode"},
		"Headers":   {"resp.Header"},
		"Error":     {"resp.Status", "invoke:error.Error()"}, // the status text of a non-2xx/3xx response, or the text of the error that ended the exchange
		"Timestamp": nil, "Seq": nil, "Latency": nil,
	}
	var reqVal ssa.Value
	eachInstrI(hit, func(i ssa.Instruction) {
		if call, ok := i.(*ssa.Call); ok && callName(&call.Call) == "(*lib.Target).Request" {
			for _, r := range refs(call) {
				if ex, isEx := r.(*ssa.Extract); isEx && ex.Index == 0 {
					reqVal = ex
				}
			}
		}
	})
	norm := func(v ssa.Value) string {
		v = helperResult(v)
		if ex, ok := v.(*ssa.Extract); ok {
			if call, isCall := ex.Tuple.(*ssa.Call); isCall && callName(&call.Call) == "io.ReadAll" {
				return "io.ReadAll(body)#0"
			}
		}
		core := stripConv(v)
		if ld, ok := isLoad(core); ok {
			if fa, isFA := ld.X.(*ssa.FieldAddr); isFA {
				switch {
				case fa.X == resp:
					return "resp." + fieldName(fa.X.Type(), fa.Field)
				case reqVal != nil && fa.X == reqVal:
					return "req." + fieldName(fa.X.Type(), fa.Field)
				}
			}
		}
		return describeVal(v)
	}
	seenF := map[string]bool{}
	eachInstrI(hit, func(i ssa.Instruction) {
		st, ok := i.(*ssa.Store)
		if !ok {
			return
		}
		fa, ok := st.Addr.(*ssa.FieldAddr)
		if !ok || !isNamedType(fa.X.Type(), "lib", "Result") {
			return
		}
		f := fieldName(fa.X.Type(), fa.Field)
		w, known := want[f]
		if !known {
			c.Fail("provenance:lib.Result."+f, rProv, "hit writes a Result field that is not in the provenance table", c.at(st))
			return
		}
		if w == nil {
			return // decided by C02/C05
		}
		seenF[f] = true
		got := norm(st.Val)
		okP := false
		for _, x := range w {
			if got == x {
				okP = true
			}
		}
		why := fmt.Sprintf("Result.%s is set from %s, want %s", f, got, strings.Join(w, " | "))
		if okP && f == "BytesOut" {
			okP = false
			why = "BytesOut is not guarded by req.ContentLength != -1"
			for _, fct := range factsAt(st.Block()) {
				if bo, isBo := fct.Cond.(*ssa.BinOp); isBo && bo.Op == token.NEQ && fct.Val && norm(bo.X) == "req.ContentLength" {
					if m, isM := constInt(bo.Y); isM && m == -1 {
						okP = true
					}
				}
			}
		}
		c.Check(okP, "provenance:lib.Result."+f, rProv, f+" ← "+got, why, c.at(st))
	})
	var missing []string
	for f, w := range want {
		if w != nil && !seenF[f] {
			missing = append(missing, f)
		}
	}
	sort.Strings(missing)
	for _, f := range missing {
		c.Fail("provenance:lib.Result."+f, rProv, "hit never sets Result."+f, c.fnAt(hit))
	}

	// ---- injected headers
	const rInj = "hit injects X-Vegeta-Attack (only when the attack has a name, with that name) and X-Vegeta-Seq (the decimal of this result's Seq) with constant keys"
	var sets []ssa.Instruction
	for _, f := range region(hit) {
		if f.Pkg == hit.Pkg && (f == hit || f.Parent() == hit || onlyCalledFrom(c, f, hit)) {
			sets = append(sets, callsNamed(f, "(net/http.Header).Set")...)
		}
	}
	gotKeys := map[string]bool{}
	okInj := true
	whyInj := ""
	isAttackName := func(v ssa.Value) bool {
		v = throughParam(c, v)
		ld, ok := isLoad(v)
		if !ok {
			return false
		}
		fa, ok := ld.X.(*ssa.FieldAddr)
		return ok && a.atkField(fa, "name")
	}
	isThisSeq := func(v ssa.Value) bool {
		v = throughParam(c, stripConv(v))
		ld, ok := isLoad(v)
		if !ok {
			return false
		}
		fa, ok := ld.X.(*ssa.FieldAddr)
		if !ok || !isNamedType(fa.X.Type(), "lib", "Result") || fieldName(fa.X.Type(), fa.Field) != "Seq" {
			return false
		}
		// the result being built by this hit: hit's own local, or a helper parameter fed with it
		base := throughParam(c, fa.X)
		al, isAl := rootCell(base).(*ssa.Alloc)
		return isAl && al.Parent() == hit
	}
	for _, s := range sets {
		call := s.(*ssa.Call)
		k, isK := constString(call.Call.Args[1])
		if !isK {
			okInj, whyInj = false, "Header.Set with a non-constant key canonicalises user data"
			continue
		}
		gotKeys[k] = true
		switch k {
		case "X-Vegeta-Attack":
			if !isAttackName(call.Call.Args[2]) {
				okInj, whyInj = false, "X-Vegeta-Attack does not carry the attack name"
			}
			guarded := false
			for _, f := range factsAt(call.Block()) {
				if bo, isBo := f.Cond.(*ssa.BinOp); isBo && bo.Op == token.NEQ && f.Val && isAttackName(bo.X) {
					guarded = true
				}
			}
			if !guarded {
				okInj, whyInj = false, "X-Vegeta-Attack is sent even for an unnamed attack"
			}
		case "X-Vegeta-Seq":
			dec, isCall := call.Call.Args[2].(*ssa.Call)
			okSeq := false
			if isCall {
				switch callName(&dec.Call) {
				case "strconv.FormatUint", "strconv.FormatInt":
					if b, isB := constInt(dec.Call.Args[1]); isB && b == 10 {
						okSeq = isThisSeq(dec.Call.Args[0])
					}
				case "strconv.Itoa":
					okSeq = isThisSeq(dec.Call.Args[0])
				}
			}
			if !okSeq {
				okInj, whyInj = false, "X-Vegeta-Seq is "+describeVal(call.Call.Args[2])+", not the decimal of this result's sequence number"
			}
			// on every path from hit's entry to the transport
			var gate ssa.Instruction = call
			inlined := false
			for f := call.Parent(); f != hit; {
				cs := singleSite(c.P, f)
				if cs == nil {
					break
				}
				f = cs.Parent()
				if f == hit {
					inlined = true
				}
			}
			if call.Parent() != hit && !inlined {
				eachInstr(hit, func(i ssa.Instruction) {
					if ci, ok := i.(*ssa.Call); ok && ci.Call.StaticCallee() == call.Parent() {
						gate = ci
					}
				})
				if set := explore(call.Parent().Blocks[0].Instrs[0], true, func(i ssa.Instruction) bool { return i == ssa.Instruction(call) }); len(returnsIn(set)) > 0 {
					okInj, whyInj = false, "X-Vegeta-Seq is not set on every path of the helper"
				}
			}
			set := explore(hit.Blocks[0].Instrs[0], true, func(i ssa.Instruction) bool { return i == gate })
			if set[ssa.Instruction(do)] {
				okInj, whyInj = false, "X-Vegeta-Seq is not set on every path to the transport"
			}
		default:
			okInj, whyInj = false, "unexpected injected header "+k
		}
	}
	if okInj && (!gotKeys["X-Vegeta-Attack"] || !gotKeys["X-Vegeta-Seq"]) {
		okInj, whyInj = false, "an injected header is missing"
	}
	c.Check(okInj, "injected-headers:(*lib.Attacker).hit", rInj, "constant keys, documented values", whyInj, c.atsOr(sets, hit)...)

	// ---- chunked
	const rChunk = "the chunked option appends \"chunked\" to the request's TransferEncoding exactly when set"
	okCh := false
	var chunkFns []*ssa.Function
	for _, f := range region(hit) {
		if f == hit || f.Parent() == hit || onlyCalledFrom(c, f, hit) {
			chunkFns = append(chunkFns, f)
		}
	}
	for _, cf := range chunkFns {
		eachInstr(cf, func(i ssa.Instruction) {
			if st, ok := i.(*ssa.Store); ok {
				if fa, isFA := st.Addr.(*ssa.FieldAddr); isFA && fieldName(fa.X.Type(), fa.Field) == "TransferEncoding" {
					if call, isCall := st.Val.(*ssa.Call); isCall && callName(&call.Call) == "builtin:append" {
						if el, isEl := sliceElems(call.Call.Args[1]); isEl && len(el) == 1 {
							if s, isS := constString(el[0]); isS && s == "chunked" {
								for _, f := range factsAt(st.Block()) {
									if attackerFieldLoad(f.Cond, "chunked") && f.Val {
										okCh = true
									}
								}
							}
						}
					}
				}
			}
		})
	}
	c.Check(okCh, "chunked-option:(*lib.Attacker).hit", rChunk, "append under a.chunked", "the chunked option is not applied as documented", c.fnAt(hit))

	// ---- the request handed to the transport is the target's request: hit adjusts only its header
	// and transfer encoding. In particular ContentLength is what bytes-out is read from.
	const rReqW = "hit writes no field of the *http.Request it got from Target.Request other than TransferEncoding (headers go through Header.Set): ContentLength, Body, Method, URL and Host reach the transport as the target defined them"
	var reqWrites []ssa.Instruction
	var badField string
	builder := map[*ssa.Function]bool{} // Target.Request and what it calls build the request: not "hit touching it"
	if rq := c.P.Func("lib", "Target.Request"); rq != nil {
		for _, g := range region(rq) {
			builder[g] = true
		}
	}
	for _, cf := range chunkFns {
		if builder[cf] {
			continue
		}
		eachInstr(cf, func(i ssa.Instruction) {
			st, ok := i.(*ssa.Store)
			if !ok {
				return
			}
			fa, ok := st.Addr.(*ssa.FieldAddr)
			if !ok || !isNamedType(fa.X.Type(), "net/http", "Request") {
				return
			}
			if f := fieldName(fa.X.Type(), fa.Field); f != "TransferEncoding" {
				reqWrites = append(reqWrites, st)
				badField = f
			}
		})
	}
	c.Check(len(reqWrites) == 0, "request-untouched:(*lib.Attacker).hit", rReqW, "only TransferEncoding is assigned", "hit overwrites Request."+badField+" (bytes-out is taken from ContentLength; method, URL and body are the target's)", c.atsOr(reqWrites, hit)...)

	// ---- and the builder leaves the length http.NewRequest derived from the body alone: bytes-out is
	// read from Request.ContentLength, so a builder that declares the length unknown (-1, chunked) or
	// swaps the body loses it although the whole body is sent
	const rReqB = "Target.Request lets http.NewRequest derive ContentLength and Body from the target's body and stores neither afterwards (bytes-out is read from Request.ContentLength)"
	if rq := c.P.Func("lib", "Target.Request"); rq == nil {
		c.Undecided("request-length:(*lib.Target).Request", rReqB, "lib.Target.Request not found")
	} else {
		var bad, mk []ssa.Instruction
		for _, g := range region(rq) {
			eachInstr(g, func(i ssa.Instruction) {
				if isCallTo(i, "net/http.NewRequest", "net/http.NewRequestWithContext") {
					mk = append(mk, i)
				}
				st, ok := i.(*ssa.Store)
				if !ok {
					return
				}
				fa, ok := st.Addr.(*ssa.FieldAddr)
				if !ok || !isNamedType(fa.X.Type(), "net/http", "Request") {
					return
				}
				switch fieldName(fa.X.Type(), fa.Field) {
				case "ContentLength", "Body", "GetBody":
					bad = append(bad, st)
				}
			})
		}
		sortInstrs(bad)
		if len(bad) > 0 {
			c.Fail("request-length:(*lib.Target).Request", rReqB, "the request builder overwrites the length or body http.NewRequest set up: bytes-out no longer equals the request body length", c.ats(bad)...)
		} else {
			c.Check(len(mk) == 1, "request-length:(*lib.Target).Request", rReqB, "http.NewRequest(method, url, body reader); length and body left alone", fmt.Sprintf("%d http.NewRequest calls in Target.Request", len(mk)), c.atsOr(mk, rq)...)
		}
	}

	c06HeaderCase(c)
	c06Request(c)
	c06Redirects(c)
}

// c06ErrorReturnStyle: hit delegates the exchange to a single-site helper that RETURNS the error
// (`err := a.roundTrip(…); if err != nil { res.Error = err.Error() }`) instead of leaving it in a
// variable read by a deferred closure. Every fallible call of the helper must test its error, and
// its error edge must lead — through the helper's return and hit's test — to the conversion store
// before hit returns. Reports its own obligations; returns false when the shape is not present.
func c06ErrorReturnStyle(c *Ctx, hit *ssa.Function, rErr string) bool {
	var errStore *ssa.Store
	var hcall *ssa.Call
	eachInstr(hit, func(i ssa.Instruction) {
		st, ok := resultFieldStore(i, "Error")
		if !ok {
			return
		}
		call, isCall := st.Val.(*ssa.Call)
		if !isCall || !call.Call.IsInvoke() || call.Call.Method.Name() != "Error" {
			return
		}
		v := call.Call.Value
		if ld, isL := isLoad(v); isL {
			if al, isAl := ld.X.(*ssa.Alloc); isAl {
				for _, r := range refs(al) {
					if s2, isS := r.(*ssa.Store); isS && s2.Addr == ssa.Value(al) {
						v = s2.Val
					}
				}
			}
		}
		var hc *ssa.Call
		switch x := v.(type) {
		case *ssa.Call:
			hc = x
		case *ssa.Extract:
			hc, _ = x.Tuple.(*ssa.Call)
		}
		if hc == nil {
			return
		}
		if h := hc.Call.StaticCallee(); h != nil && singleSite(c.P, h) == hc {
			// guarded by err != nil on that very value
			for _, f := range factsAt(st.Block()) {
				if bo, isBo := f.Cond.(*ssa.BinOp); isBo && bo.Op == token.NEQ && f.Val && isNilConst(bo.Y) && (bo.X == call.Call.Value || bo.X == v) {
					errStore, hcall = st, hc
				}
			}
		}
	})
	if errStore == nil {
		return false
	}
	h := hcall.Call.StaticCallee()
	c.Saw("function " + shortFn(h))
	c.Pass("no-lost-error:(*lib.Attacker).hit:deferred", rErr, "Result.Error = err.Error() when the exchange helper returned an error", c.at(errStore))
	errT := types.Universe.Lookup("error").Type()
	n := 0
	for _, g := range inlinedRegion(c.P, h) {
		eachInstr(g, func(i ssa.Instruction) {
			call, ok := i.(*ssa.Call)
			if !ok {
				return
			}
			if f := call.Call.StaticCallee(); f != nil && singleSite(c.P, f) == call {
				return // a nested helper: its own calls are judged
			}
			var ev ssa.Value
			if types.Identical(call.Type(), errT) {
				ev = call
			}
			for _, r := range refs(call) {
				if ex, isEx := r.(*ssa.Extract); isEx && types.Identical(ex.Type(), errT) {
					ev = ex
				}
			}
			if tup, isTup := call.Type().(*types.Tuple); isTup && ev == nil {
				for k := 0; k < tup.Len(); k++ {
					if types.Identical(tup.At(k).Type(), errT) {
						c.Fail("no-lost-error:(*lib.Attacker).hit:"+callLabel(call), rErr, "the error result of "+callLabel(call)+" is discarded", c.at(call))
						n++
						return
					}
				}
			}
			if ev == nil {
				return
			}
			n++
			key := "no-lost-error:(*lib.Attacker).hit:" + callLabel(call)
			ifi := errNotNilIfI(call)
			if ifi == nil {
				c.Fail(key, rErr, "the error of "+callLabel(call)+" is never tested", c.at(call))
				return
			}
			// the helper hands this error back…
			returned := false
			for _, gg := range inlinedRegion(c.P, h) {
				eachInstr(gg, func(j ssa.Instruction) {
					if r, isR := j.(*ssa.Return); isR {
						for _, res := range r.Results {
							if types.Identical(res.Type(), errT) && flowsFrom(res, func(x ssa.Value) bool { return x == ev }) {
								returned = true
							}
						}
					}
				})
			}
			// …and from its error edge hit cannot return without converting it
			set := exploreBlock(ifi.Block().Succs[0], func(x ssa.Instruction) bool { return x == ssa.Instruction(errStore) })
			bad := !returned || len(returnsIn(set)) > 0
			for x := range set {
				if _, isIf := x.(*ssa.If); isIf {
					bad = true
				}
			}
			c.Check(!bad, key, rErr, "tested; returned; converted to Result.Error before hit returns", "the error of "+callLabel(call)+" does not reach Result.Error (not returned by the helper, or hit can return without converting it)", c.at(call))
		})
	}
	if n < 5 {
		c.Fail("no-lost-error:(*lib.Attacker).hit", rErr, fmt.Sprintf("only %d fallible calls found in the exchange helper; expected targeter, Request, Do, ReadAll, Copy", n), c.fnAt(h))
	}
	return true
}

func stripIface(v ssa.Value) ssa.Value {
	for {
		switch x := v.(type) {
		case *ssa.ChangeInterface:
			v = x.X
		case *ssa.MakeInterface:
			v = x.X
		case *ssa.ChangeType:
			v = x.X
		default:
			return v
		}
	}
}

func callLabel(call *ssa.Call) string {
	n := callName(&call.Call)
	if n == "dynamic" {
		if p, ok := call.Call.Value.(*ssa.Parameter); ok {
			return p.Name() + "()"
		}
	}
	if i := strings.LastIndex(n, "."); i >= 0 {
		return n[i+1:]
	}
	return n
}

var canonicalising = map[string]bool{
	"(net/http.Header).Set": true, "(net/http.Header).Add": true, "(net/http.Header).Del": true,
	"(net/http.Header).Get": true, "(net/http.Header).Values": true,
	"(net/textproto.MIMEHeader).Set": true, "(net/textproto.MIMEHeader).Add": true, "(net/textproto.MIMEHeader).Del": true,
	"(net/textproto.MIMEHeader).Get": true, "(net/textproto.MIMEHeader).Values": true,
	"net/textproto.CanonicalMIMEHeaderKey": true, "net/http.CanonicalHeaderKey": true,
}

// c06HeaderCase: who-may-call rule for canonicalising APIs on user-supplied keys.
func c06HeaderCase(c *Ctx) {
	const rule = "no canonicalising header API (Header.Set/Add/Del/Get/Values, MIMEHeader.*, CanonicalMIMEHeaderKey) is given a non-constant key in Target.Request, the target parsers, hit, or the -header flag: user header keys keep their letter case; keys are written by direct map update"
	scopes := []struct{ short, name string }{
		{"lib", "Target.Request"}, {"lib", "NewHTTPTargeter"}, {"lib", "NewJSONTargeter"}, {"lib", "Attacker.hit"}, {"", "headers.Set"},
		// the JSON target codec handles the same user keys (written and read back verbatim)
		{"lib", "jsonTarget.encode"}, {"lib", "jsonTarget.decode"}, {"lib", "Target.Equal"},
	}
	n := 0
	for _, s := range scopes {
		fn := c.P.Func(s.short, s.name)
		if fn == nil {
			if strings.HasPrefix(s.name, "jsonTarget.") || s.name == "Target.Equal" {
				continue // optional scope
			}
			c.Undecided("header-case:"+s.name, rule, "function not found")
			continue
		}
		var bad []ssa.Instruction
		updates := 0
		for _, f := range region(fn) {
			c.Saw("function " + shortFn(f))
			eachInstr(f, func(i ssa.Instruction) {
				if call, ok := i.(ssa.CallInstruction); ok {
					cn := callName(call.Common())
					if canonicalising[cn] {
						n++
						args := call.Common().Args
						keyArg := args[len(args)-1]
						if strings.HasPrefix(cn, "(") && len(args) >= 2 {
							keyArg = args[1]
						}
						if _, isConst := constString(keyArg); !isConst {
							bad = append(bad, i)
						}
					}
				}
				if mu, ok := i.(*ssa.MapUpdate); ok && isNamedType(mu.Map.Type(), "net/http", "Header") {
					updates++
				}
			})
		}
		c.Check(len(bad) == 0, "header-case:"+shortFn(fn), rule, fmt.Sprintf("%d direct map updates, no canonicalising call on user keys", updates), "a canonicalising header API is called with a user-supplied key (letter case is lost)", c.atsOr(bad, fn)...)
	}
	// positive example for the zero-count rule: the constant-key calls in hit/Request must have been seen
	c.Check(n >= 3, "header-case:matcher-alive", "the canonicalising-call matcher sees the known constant-key calls (Header.Set ×2 in hit, Header.Get(\"Host\") in Request)", fmt.Sprintf("%d canonicalising calls recognised", n), fmt.Sprintf("only %d canonicalising calls recognised: the matcher no longer sees the known sites", n), "lib/attack.go", "lib/targets.go")
}

func c06Request(c *Ctx) {
	withInline(func() { c06RequestIn(c) }, c.P.Func("lib", "Target.Request"))
}

func c06RequestIn(c *Ctx) {
	const rule = "Target.Request passes the target's method and URL to http.NewRequest, a reader over the target's body exactly when it is non-empty, copies every header value slice into a fresh slice under the original key, and sets Host from a non-empty Host header"
	fn := c.P.Func("lib", "Target.Request")
	key := "request-construction:(*lib.Target).Request"
	if fn == nil {
		c.Undecided(key, rule, "Target.Request not found")
		return
	}
	nrs := callsNamed(fn, "net/http.NewRequest", "net/http.NewRequestWithContext")
	if len(nrs) != 1 {
		c.Fail(key, rule, fmt.Sprintf("%d NewRequest calls", len(nrs)), c.fnAt(fn))
		return
	}
	nr := nrs[0].(*ssa.Call)
	args := nr.Call.Args
	if callName(&nr.Call) == "net/http.NewRequestWithContext" {
		args = args[1:]
	}
	ok := describeVal(args[0]) == "recv.Method" && describeVal(args[1]) == "recv.URL"
	why := "method/URL do not come from the target"
	if ok {
		// body φ[nil, bytes.NewReader(t.Body)] under len(t.Body) != 0
		okB := false
		// the candidate values of the body argument, each with the block whose facts guard it:
		// the arms of a φ, or the returns of a single-site helper (t.bodyReader())
		type bodyCase struct {
			v   ssa.Value
			blk *ssa.BasicBlock
		}
		var cases []bodyCase
		switch b := args[2].(type) {
		case *ssa.Phi:
			for k, e := range b.Edges {
				cases = append(cases, bodyCase{e, b.Block().Preds[k]})
			}
		case *ssa.Call:
			if h := b.Call.StaticCallee(); h != nil && singleSite(c.P, h) == b {
				eachInstr(h, func(i ssa.Instruction) {
					if r, isR := i.(*ssa.Return); isR && len(r.Results) == 1 {
						if phi, isPhi := r.Results[0].(*ssa.Phi); isPhi {
							for k, e := range phi.Edges {
								cases = append(cases, bodyCase{e, phi.Block().Preds[k]})
							}
						} else {
							cases = append(cases, bodyCase{r.Results[0], r.Block()})
						}
					}
				})
			}
		}
		nNil := 0
		for _, bc := range cases {
			if isNilConst(bc.v) {
				nNil++
				continue
			}
			if mi, isMI := bc.v.(*ssa.MakeInterface); isMI {
				if call, isCall := mi.X.(*ssa.Call); isCall && callName(&call.Call) == "bytes.NewReader" && describeVal(call.Call.Args[0]) == "recv.Body" {
					for _, f := range factsAt(bc.blk) {
						if bo, isBo := f.Cond.(*ssa.BinOp); isBo && lenOf(bo.X, func(v ssa.Value) bool { return describeVal(v) == "recv.Body" }) {
							if z, isZ := constInt(bo.Y); isZ && z == 0 && (bo.Op == token.NEQ && f.Val || bo.Op == token.GTR && f.Val || bo.Op == token.EQL && !f.Val) {
								okB = true
							}
						}
					}
					continue
				}
			}
			nNil = -100 // some other reader
		}
		if nNil < 1 {
			okB = false
		}
		if !okB {
			ok, why = false, "the request body is not bytes.NewReader(t.Body) exactly when the body is non-empty (nil otherwise)"
		}
	}
	if ok {
		// header copy: every value stored into the request's header map is a freshly allocated slice
		okH, nUpd := true, 0
		eachInstrI(fn, func(i ssa.Instruction) {
			if mu, isMU := i.(*ssa.MapUpdate); isMU && isNamedType(mu.Map.Type(), "net/http", "Header") {
				nUpd++
				if !isFreshSlice(mu.Value) {
					okH = false
				}
			}
		})
		if !okH || nUpd == 0 {
			ok, why = false, "header values are not copied into fresh slices (the request would alias the target)"
		}
	}
	if ok {
		okHost := false
		eachInstrI(fn, func(i ssa.Instruction) {
			if st, isSt := i.(*ssa.Store); isSt {
				if fa, isFA := st.Addr.(*ssa.FieldAddr); isFA && fieldName(fa.X.Type(), fa.Field) == "Host" && isNamedType(fa.X.Type(), "net/http", "Request") {
					if call, isCall := st.Val.(*ssa.Call); isCall && callName(&call.Call) == "(net/http.Header).Get" {
						if k, isK := constString(call.Call.Args[1]); isK && k == "Host" {
							okHost = true
						}
					}
				}
			}
		})
		if !okHost {
			ok, why = false, "a Host header does not set the request host"
		}
	}
	// error propagated
	if ok && errNotNilIf(nr, nr) == nil {
		ok, why = false, "the NewRequest error is ignored"
	}
	c.Check(ok, key, rule, "method, URL, body-when-non-empty, copied headers, Host override", why, c.at(nr))
}

func c06Redirects(c *Ctx) {
	const rule = "the redirect policy returns http.ErrUseLastResponse when n == NoFollow, an error when more than n redirects were followed (n < len(via)), nil otherwise"
	outer := c.P.Func("lib", "Redirects")
	key := "redirect-policy:lib.Redirects"
	var fn *ssa.Function
	if outer != nil {
		for _, f := range withAnon(outer) {
			eachInstr(f, func(i ssa.Instruction) {
				if st, ok := i.(*ssa.Store); ok {
					if fa, ok := st.Addr.(*ssa.FieldAddr); ok && fieldName(fa.X.Type(), fa.Field) == "CheckRedirect" {
						if cl := closureOf(st.Val); cl != nil {
							fn = cl
						}
					}
				}
			})
		}
	}
	if fn == nil {
		c.Undecided(key, rule, "no closure is installed as CheckRedirect")
		return
	}
	c.Saw("function " + shortFn(fn))
	var noFollow, limit *ssa.BinOp
	eachInstr(fn, func(i ssa.Instruction) {
		bo, ok := i.(*ssa.BinOp)
		if !ok {
			return
		}
		if bo.Op == token.EQL {
			if k, isK := constInt(bo.Y); isK && k == -1 {
				noFollow = bo
			}
		}
		if bo.Op == token.LSS && lenOf(bo.Y, func(v ssa.Value) bool { _, isP := v.(*ssa.Parameter); return isP }) {
			limit = bo
		}
		if bo.Op == token.GTR && lenOf(bo.X, func(v ssa.Value) bool { _, isP := v.(*ssa.Parameter); return isP }) {
			limit = bo
		}
	})
	ok := noFollow != nil && limit != nil
	why := "the policy does not test n == NoFollow and n < len(via)"
	if ok {
		ifN, ifL := trueImpliesIf(noFollow), trueImpliesIf(limit)
		ok = ifN != nil && ifL != nil
		if ok {
			for _, r := range returnsIn(exploreBlock(ifN.Block().Succs[0], nil)) {
				if describeVal(r.(*ssa.Return).Results[0]) != "*ErrUseLastResponse" && describeVal(r.(*ssa.Return).Results[0]) != "ErrUseLastResponse" {
					ok, why = false, "NoFollow does not return http.ErrUseLastResponse"
				}
			}
			for _, r := range returnsIn(exploreBlock(ifL.Block().Succs[0], nil)) {
				if k, isC := r.(*ssa.Return).Results[0].(*ssa.Const); isC && k.Value == nil {
					ok, why = false, "exceeding the redirect limit is not an error"
				}
			}
			for _, r := range returnsIn(exploreBlock(ifL.Block().Succs[1], nil)) {
				if k, isC := r.(*ssa.Return).Results[0].(*ssa.Const); !isC || k.Value != nil {
					ok, why = false, "a redirect within the limit is refused"
				}
			}
			if !instrDominates(ifN, ifL) {
				ok, why = false, "the NoFollow test does not come first"
			}
		}
	}
	c.Check(ok, key, rule, "NoFollow → ErrUseLastResponse; n < len(via) → error; else nil", why, c.fnAt(fn))
}

// onlyCalledFrom: f is a named function of the package whose every static call site is in caller.
func onlyCalledFrom(c *Ctx, f, caller *ssa.Function) bool {
	n := 0
	okAll := true
	for _, g := range c.P.AllRepoFuncs() {
		eachInstr(g, func(i ssa.Instruction) {
			if ci, ok := i.(ssa.CallInstruction); ok && ci.Common().StaticCallee() == f {
				n++
				if g != caller {
					okAll = false
				}
			}
		})
	}
	return n > 0 && okAll
}

// throughParam: when v is a parameter of a function that has exactly one
// static call site in the repository, return the argument passed there.
func throughParam(c *Ctx, v ssa.Value) ssa.Value {
	for k := 0; k < 3; k++ {
		p, ok := v.(*ssa.Parameter)
		if !ok {
			// a load of a spilled parameter
			if ld, isL := isLoad(v); isL {
				if pp := paramOfCell(ld); pp != nil {
					p = pp
				}
			}
			if p == nil {
				return v
			}
		}
		fn := p.Parent()
		idx := -1
		for i, q := range fn.Params {
			if q == p {
				idx = i
			}
		}
		var arg ssa.Value
		n := 0
		for _, g := range c.P.AllRepoFuncs() {
			eachInstr(g, func(i ssa.Instruction) {
				if ci, ok := i.(ssa.CallInstruction); ok && ci.Common().StaticCallee() == fn && idx < len(ci.Common().Args) {
					n++
					arg = ci.Common().Args[idx]
				}
			})
		}
		if n != 1 || arg == nil {
			return v
		}
		v = arg
		if _, more := v.(*ssa.Parameter); !more {
			return v // one hop is enough once we reach a non-parameter
		}
	}
	return v
}

// paramReaches: v is target, or a parameter (chain) whose single call site passes target.
func paramReaches(c *Ctx, v, target ssa.Value) bool {
	for k := 0; k < 4; k++ {
		if v == target {
			return true
		}
		p, ok := v.(*ssa.Parameter)
		if !ok {
			return false
		}
		fn := p.Parent()
		idx := -1
		for i, q := range fn.Params {
			if q == p {
				idx = i
			}
		}
		var arg ssa.Value
		n := 0
		for _, g := range c.P.AllRepoFuncs() {
			eachInstr(g, func(i ssa.Instruction) {
				if ci, ok := i.(ssa.CallInstruction); ok && ci.Common().StaticCallee() == fn && idx < len(ci.Common().Args) {
					n++
					arg = ci.Common().Args[idx]
				}
			})
		}
		if n != 1 || arg == nil {
			return false
		}
		v = arg
	}
	return false
}
