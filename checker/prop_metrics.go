package main

import (
	"fmt"
	"go/ast"
	"go/constant"
	"go/token"
	"go/types"
	"math"
	"reflect"
	"sort"
	"strings"

	"golang.org/x/tools/go/ssa"
)

func init() {
	register(&propSpec{
		ID:    "C10",
		Title: "Report metrics equal an exact reference computation, in any order, incrementally",
		Explanation: "DECIDED (structural, all multisets and orders): accumulator-class (every store/map update in Metrics.Add and LatencyMetrics.Add is a sum, a min/max guarded by a strict comparison with the incoming value in the direction the field name documents, a set insert guarded by a membership test, or a delegate; with the documented source field and condition); no in-domain sentinel (the 'first sample' disjunct of a min/max guard must not compare the accumulator itself with a constant; time.Time.IsZero on Earliest accepted: year 1 is outside the timestamp domain); close-pure (fields written by Close, transitively, are disjoint from fields read by Add except lazily initialised containers, and each is assigned in Close before Close reads it, so repeated/intermediate Close cannot change final values); close-division guards; success-range agreement between hit's error mapping and Metrics.Add's success count, decided by evaluating both comparison chains for all 65536 codes; the report command always closes before rendering and renders on every non-error exit. " +
			"NOT DECIDED: numerical equality of rate/throughput/means with a reference computation (floating point).",
		Assumptions: []string{"timestamps are after year 1", "latencies are non-negative (zero value of Max is a lower bound)"},
		MinObs:      18,
		Run:         runC10,
	})
	register(&propSpec{
		ID:    "C11",
		Title: "Latency percentiles are ordered and within a bounded rank error",
		Explanation: "DECIDED (necessary conditions only): sample-reaches-estimator (every path of LatencyMetrics.Add passes exactly one estimator.Add(float64(latency)) with the parameter itself, and Min/Max are updated from that same value); percentile-table (Close assigns P50,P90,P95,P99 from Quantile(0.50,0.90,0.95,0.99) and the JSON tags are \"50th\"…\"99th\": number in field name = constant×100 = number in tag); ladder (the `logarithmic` literal is strictly increasing from 0 to 1 and the HDR reporter walks it in order calling Quantile(q) of the same metrics); estimator-class (the estimator is the t-digest created with compression ≥ 100; Quantile reads it unchanged). " +
			"NOT DECIDED: min ≤ p50 ≤ … ≤ max and the 1% rank-error bound are numerical properties of github.com/influxdata/tdigest on concrete data.",
		Assumptions: []string{"t-digest with compression 100 has ≈1% rank accuracy (its documented class)"},
		MinObs:      8,
		Run:         runC11,
	})
	register(&propSpec{
		ID:    "C12",
		Title: "Histogram buckets partition the results",
		Explanation: "DECIDED (structural, all bucket lists and latencies): exactly-one (every path through Histogram.Add increments exactly one element of Counts and Total exactly once, outside any loop); boundary-polarity (the scan stops at i iff Latency ≥ Buckets[i] && Latency < Buckets[i+1], bounded by len(Buckets)-1 so the last bucket is the overflow, and the element counted is Counts[i] of that same i); counts-len (every function in lib that indexes or ranges over Histogram.Counts first establishes len(Counts)==len(Buckets) by the resize idiom or works on a normalised copy — Add believes the lengths may differ, so its siblings may not assume otherwise; covers rendering before the first Add); Nth bounds; UnmarshalText (each parsed duration appended exactly once in input order; the only other append is constant 0 under first-element ∧ value > 0; empty result rejected; index guards); report plumbing (-buckets and hist[...] text reach UnmarshalText of the histogram that receives Add and is rendered). " +
			"NOT DECIDED: time.ParseDuration's grammar; that the supplied bounds are increasing (a precondition of the property).",
		Assumptions: []string{"bucket bounds are increasing (precondition)"},
		MinObs:      6,
		Run:         runC12,
	})
}

// ------------------------------------------------------------------ C10

// recvPath renders a field address relative to the method receiver: "Latencies.Total".
func recvPath(v ssa.Value) string {
	p := path(v)
	p = strings.TrimPrefix(p, "&")
	if i := strings.Index(p, "."); i >= 0 {
		return p[i+1:]
	}
	return p
}

type accSpec struct {
	kind string // sum | max | min | set | mapsum
	src  string // normalised source description
	cond string // "", "success", "error"
}

func runC10(c *Ctx) {
	mAdd := c.P.Func("lib", "Metrics.Add")
	lAdd := c.P.Func("lib", "LatencyMetrics.Add")
	mClose := c.P.Func("lib", "Metrics.Close")
	if mAdd == nil || lAdd == nil || mClose == nil {
		c.Undecided("anchor:lib.Metrics", "anchors resolve", "Metrics.Add / LatencyMetrics.Add / Metrics.Close not found")
		return
	}
	for _, f := range []*ssa.Function{mAdd, lAdd, mClose} {
		c.Saw("function " + shortFn(f))
	}
	c10Accumulators(c, mAdd, c10MetricsTable)
	c10Accumulators(c, lAdd, c10LatencyTable)
	c10ClosePure(c, mAdd, mClose)
	c10FirstSampleMarker(c, lAdd)
	c10FirstSampleMarker(c, mAdd)
	c10CloseDivisions(c, mClose)
	c10PerSecondGuard(c, mClose)
	c10SuccessRange(c)
	c10EndDefinition(c)
	c10Report(c)
}

var c10MetricsTable = map[string]accSpec{
	"Requests":       {"sum", "1", ""},
	"StatusCodes":    {"mapsum", "decimal(arg0.Code)", ""},
	"BytesOut.Total": {"sum", "arg0.BytesOut", ""},
	"BytesIn.Total":  {"sum", "arg0.BytesIn", ""},
	"Earliest":       {"min", "arg0.Timestamp", ""},
	"Latest":         {"max", "arg0.Timestamp", ""},
	"End":            {"max", "(*lib.Result).End(arg0)", ""},
	"success":        {"sum", "1", "success"},
	"errors":         {"set", "arg0.Error", "error"},
	"Errors":         {"set", "arg0.Error", "error"},
	"call:Latencies": {"delegate", "(*lib.LatencyMetrics).Add(r.Latency)", ""},
	"call:Histogram": {"delegate", "(*lib.Histogram).Add(r)", "histogram"},
	"call:init":      {"delegate", "(*lib.Metrics).init()", ""},
}

var c10LatencyTable = map[string]accSpec{
	"Total":          {"sum", "arg0", ""},
	"Max":            {"max", "arg0", ""},
	"Min":            {"min", "arg0", ""},
	"call:estimator": {"delegate", "estimator.Add(latency)", ""},
	"call:init":      {"delegate", "(*lib.LatencyMetrics).init()", ""},
}

// c10Accumulators classifies every effect of an Add method.
func c10Accumulators(c *Ctx, fn *ssa.Function, table map[string]accSpec) {
	withInline(func() { c10AccumulatorsIn(c, fn, table) }, fn)
}

func c10AccumulatorsIn(c *Ctx, fn *ssa.Function, table map[string]accSpec) {
	const rule = "every effect of Add is a commutative accumulator (sum; min/max by strict comparison with the incoming value in the documented direction, first-sample test not on the accumulator's own value; set insert under a membership test; delegate) fed from the documented field under the documented condition"
	seen := map[string]bool{}
	recv := fn.Params[0].Name()
	norm := func(s string) string {
		return s
	}
	_ = recv
	fail := func(field, why string, at ssa.Instruction) {
		c.Fail("accumulator:"+shortFn(fn)+":"+field, rule, why, c.at(at))
	}
	reg := inlinedRegion(c.P, fn)
	inReg := map[*ssa.Function]bool{}
	for _, g := range reg {
		inReg[g] = true
		if g != fn {
			c.Saw("function " + shortFn(g))
		}
	}
	visit := func(i ssa.Instruction) {
		switch x := i.(type) {
		case *ssa.Store:
			fa, ok := x.Addr.(*ssa.FieldAddr)
			if !ok {
				if _, isIdx := x.Addr.(*ssa.IndexAddr); isIdx {
					// varargs temp for append
					return
				}
				if _, isAlloc := x.Addr.(*ssa.Alloc); isAlloc {
					return
				}
				fail("?", "store through an unrecognised address", x)
				return
			}
			field := recvPath(fa)
			spec, known := table[field]
			if !known {
				fail(field, "Add writes a field that is not in the accumulator table (unclassified effect)", x)
				return
			}
			seen[field] = true
			key := "accumulator:" + shortFn(fn) + ":" + field
			switch spec.kind {
			case "sum":
				bo, ok := x.Val.(*ssa.BinOp)
				okSum := ok && bo.Op == token.ADD
				if okSum {
					ld, isL := isLoad(bo.X)
					okSum = isL && path(ld.X) == path(fa)
				}
				if !okSum {
					fail(field, "not of the form field += value", x)
					return
				}
				if got := norm(describeVal(bo.Y)); got != spec.src {
					fail(field, fmt.Sprintf("adds %s, want %s", got, spec.src), x)
					return
				}
				if why, ok := condMatches(x.Block(), spec.cond); !ok {
					fail(field, why, x)
					return
				}
				c.Pass(key, rule, "sum of "+spec.src+condSuffix(spec.cond), c.at(x))
			case "max", "min":
				if why, handled, ok := builtinMinMax(x.Parent(), x, fa, spec.kind, spec.src, norm); handled {
					if !ok {
						fail(field, why, x)
						return
					}
					c.Pass(key, rule, spec.kind+" of "+spec.src+" ("+why+")", c.at(x))
					return
				}
				if got := norm(describeVal(x.Val)); got != spec.src {
					fail(field, fmt.Sprintf("stores %s, want %s", got, spec.src), x)
					return
				}
				why, ok := minMaxGuard(x.Parent(), x, fa, spec.kind)
				if !ok {
					c.Fail(sentinelKey(fn, field, why), rule, why, c.at(x))
					return
				}
				c.Pass(key, rule, spec.kind+" of "+spec.src+" ("+why+")", c.at(x))
			case "set":
				// Errors = append(Errors, r.Error) under !present
				call, ok := x.Val.(*ssa.Call)
				if !ok || callName(&call.Call) != "builtin:append" {
					fail(field, "not an append", x)
					return
				}
				elems, ok := sliceElems(call.Call.Args[1])
				if !ok || len(elems) != 1 || describeVal(elems[0]) != spec.src {
					fail(field, "does not append exactly "+spec.src, x)
					return
				}
				if ld, isL := isLoad(call.Call.Args[0]); !isL || path(ld.X) != path(fa) {
					fail(field, "appends to a different slice", x)
					return
				}
				if why, ok := membershipGuard(x.Block(), spec.src); !ok {
					fail(field, why, x)
					return
				}
				if why, ok := condMatches(x.Block(), spec.cond); !ok {
					fail(field, why, x)
					return
				}
				c.Pass(key, rule, "set insert of "+spec.src+" under membership test", c.at(x))
			default:
				fail(field, "unexpected store for a "+spec.kind+" accumulator", x)
			}
		case *ssa.MapUpdate:
			ld, ok := isLoad(x.Map)
			if !ok {
				fail("?", "map update on an unrecognised map", x)
				return
			}
			fa, ok := ld.X.(*ssa.FieldAddr)
			if !ok {
				fail("?", "map update on an unrecognised map", x)
				return
			}
			field := recvPath(fa)
			spec, known := table[field]
			if !known {
				fail(field, "Add updates a map that is not in the accumulator table", x)
				return
			}
			seen[field] = true
			key := "accumulator:" + shortFn(fn) + ":" + field
			if got := normDecimal(describeVal(x.Key)); got != spec.src {
				fail(field, fmt.Sprintf("keyed by %s, want %s", got, spec.src), x)
				return
			}
			switch spec.kind {
			case "mapsum":
				bo, ok := x.Value.(*ssa.BinOp)
				okS := ok && bo.Op == token.ADD
				if okS {
					lk, isLk := bo.X.(*ssa.Lookup)
					one, isOne := constInt(bo.Y)
					okS = isLk && isOne && one == 1 && lk.Index == x.Key && !lk.CommaOk
					if okS {
						l2, isL2 := isLoad(lk.X)
						okS = isL2 && path(l2.X) == path(fa)
					}
				}
				if !okS {
					fail(field, "not of the form m[k]++", x)
					return
				}
				if why, ok := condMatches(x.Block(), spec.cond); !ok {
					fail(field, why, x)
					return
				}
				c.Pass(key, rule, "per-key count of "+spec.src, c.at(x))
			case "set":
				if why, ok := membershipGuard(x.Block(), spec.src); !ok {
					fail(field, why, x)
					return
				}
				if why, ok := condMatches(x.Block(), spec.cond); !ok {
					fail(field, why, x)
					return
				}
				c.Pass(key, rule, "set insert of "+spec.src, c.at(x))
			default:
				fail(field, "unexpected map update", x)
			}
		case ssa.CallInstruction:
			cc := x.Common()
			n := callName(cc)
			if f := cc.StaticCallee(); f != nil && f != fn && inReg[f] {
				return // a single-site helper of Add: its instructions are visited as part of Add
			}
			switch {
			case n == "builtin:append" || n == "builtin:len" || n == "builtin:min" || n == "builtin:max" || strings.HasPrefix(n, "strconv.") || n == "(time.Time).IsZero" || n == "(time.Time).After" || n == "(time.Time).Before" || n == "(*lib.Result).End":
				return
			case n == "(*lib.Metrics).init" || n == "(*lib.LatencyMetrics).init":
				seen["call:init"] = true
				c.Pass("accumulator:"+shortFn(fn)+":call:init", rule, "lazy initialisation", c.at(x))
			case n == "(*lib.LatencyMetrics).Add":
				seen["call:Latencies"] = true
				okD := len(cc.Args) == 2 && recvPath(cc.Args[0]) == "Latencies" && describeVal(cc.Args[1]) == "arg0.Latency" && len(factsAt(x.Block())) == 0
				c.Check(okD, "accumulator:"+shortFn(fn)+":call:Latencies", rule, "Latencies.Add(r.Latency) unconditionally", "the latency is not handed unchanged and unconditionally to Latencies.Add", c.at(x))
			case n == "(*lib.Histogram).Add":
				seen["call:Histogram"] = true
				okD := len(cc.Args) == 2 && describeVal(cc.Args[1]) == "arg0"
				// only guard: Histogram != nil
				fs := factsAt(x.Block())
				okD = okD && len(fs) == 1
				if okD {
					bo, isBo := fs[0].Cond.(*ssa.BinOp)
					okD = isBo && bo.Op == token.NEQ && fs[0].Val && strings.HasSuffix(describeVal(bo.X), ".Histogram")
				}
				c.Check(okD, "accumulator:"+shortFn(fn)+":call:Histogram", rule, "Histogram.Add(r) whenever a histogram is configured", "the result is not handed to the histogram exactly when one is configured", c.at(x))
			case cc.IsInvoke() && cc.Method.Name() == "Add" && strings.HasSuffix(describeVal(cc.Value), ".estimator"):
				seen["call:estimator"] = true
				// checked in detail by C11; here: unconditional, argument is the parameter
				okD := len(cc.Args) == 1 && describeVal(cc.Args[0]) == "arg0"
				c.Check(okD, "accumulator:"+shortFn(fn)+":call:estimator", rule, "estimator.Add(float64(latency))", "the estimator is not fed the latency itself", c.at(x))
			default:
				fail("call:"+n, "Add calls "+n+", which is not a recognised accumulator delegate", x)
			}
		}
	}
	for _, g := range reg {
		eachInstr(g, visit)
	}
	var missing []string
	for k := range table {
		if !seen[k] {
			missing = append(missing, k)
		}
	}
	sort.Strings(missing)
	for _, k := range missing {
		c.Fail("accumulator:"+shortFn(fn)+":"+k, rule, "the documented accumulator "+k+" is not updated by Add", c.fnAt(fn))
	}
}

func sentinelKey(fn *ssa.Function, field, why string) string {
	if strings.Contains(why, "sentinel") {
		recvT := "lib.Metrics"
		if strings.Contains(shortFn(fn), "LatencyMetrics") {
			recvT = "lib.LatencyMetrics"
		}
		return "sentinel:" + recvT + "." + field
	}
	return "accumulator:" + shortFn(fn) + ":" + field
}

func condSuffix(cond string) string {
	if cond == "" {
		return " (unconditional)"
	}
	return " (when " + cond + ")"
}

// condMatches checks the branch facts at a block against the documented condition.
func condMatches(b *ssa.BasicBlock, cond string) (string, bool) {
	fs := factsAt(b)
	switch cond {
	case "":
		if len(fs) != 0 {
			return "the accumulator is updated only conditionally", false
		}
		return "", true
	case "success":
		// exactly: Code >= 200 && Code < 400 (decided precisely by success-range); here: guards mention only r.Code
		if len(fs) == 0 {
			return "success count is not conditional on the status code", false
		}
		for _, f := range fs {
			bo, ok := f.Cond.(*ssa.BinOp)
			if !ok || describeVal(bo.X) != "arg0.Code" {
				return "success count depends on something other than r.Code", false
			}
		}
		return "", true
	case "error":
		hasErr := false
		for _, f := range fs {
			switch x := f.Cond.(type) {
			case *ssa.BinOp:
				if describeVal(x.X) == "arg0.Error" {
					if s, ok := constString(x.Y); ok && s == "" && (x.Op == token.NEQ && f.Val || x.Op == token.EQL && !f.Val) {
						hasErr = true
						continue
					}
				}
				return "error set depends on an unexpected condition", false
			case *ssa.Extract:
				// membership flag, checked separately
			default:
				return "error set depends on an unexpected condition", false
			}
		}
		if !hasErr {
			return "error set is not conditional on r.Error != \"\"", false
		}
		return "", true
	}
	return "", true
}

// membershipGuard: the block is dominated by the false edge of the ok flag of a
// comma-ok lookup keyed by src in a set-typed map.
func membershipGuard(b *ssa.BasicBlock, src string) (string, bool) {
	for _, f := range factsAt(b) {
		ex, ok := f.Cond.(*ssa.Extract)
		if !ok || ex.Index != 1 || f.Val {
			continue
		}
		lk, ok := ex.Tuple.(*ssa.Lookup)
		if ok && lk.CommaOk && describeVal(lk.Index) == src {
			return "", true
		}
	}
	return "insert is not guarded by a membership test on the same key (duplicates would be recorded)", false
}

// minMaxGuard checks the guard of `field = v`.
// builtinMinMax handles accumulators written with the min/max builtins:
//
//	x.Max = max(x.Max, v)                                  (unconditional)
//	if first { x.Min = v } else { x.Min = min(x.Min, v) }  (first-sample arm + builtin arm)
//
// handled is false when the store is neither arm of that shape (the comparison-guard rule applies).
func builtinMinMax(fn *ssa.Function, st *ssa.Store, fa *ssa.FieldAddr, kind, src string, norm func(string) string) (why string, handled, ok bool) {
	sameField := func(v ssa.Value) bool {
		ld, isL := isLoad(v)
		return isL && path(ld.X) == path(fa)
	}
	isBuiltinArm := func(s *ssa.Store) (string, bool, bool) {
		call, isCall := s.Val.(*ssa.Call)
		if !isCall {
			return "", false, false
		}
		n := callName(&call.Call)
		if n != "builtin:min" && n != "builtin:max" {
			return "", false, false
		}
		if n != "builtin:"+kind {
			return "the accumulator documented as " + kind + " is updated with " + strings.TrimPrefix(n, "builtin:"), true, false
		}
		if len(call.Call.Args) != 2 {
			return "builtin " + kind + " with other than two operands", true, false
		}
		a, b := call.Call.Args[0], call.Call.Args[1]
		if !(sameField(a) && norm(describeVal(b)) == src || sameField(b) && norm(describeVal(a)) == src) {
			return "builtin " + kind + " is not taken over the accumulator itself and " + src, true, false
		}
		return "builtin " + kind, true, true
	}
	// all stores to this field in Add
	var stores []*ssa.Store
	eachInstr(fn, func(i ssa.Instruction) {
		if s, isS := i.(*ssa.Store); isS {
			if f2, isFA := s.Addr.(*ssa.FieldAddr); isFA && path(f2) == path(fa) {
				stores = append(stores, s)
			}
		}
	})
	var builtinStore *ssa.Store
	for _, s := range stores {
		if _, h, _ := isBuiltinArm(s); h {
			builtinStore = s
		}
	}
	if builtinStore == nil {
		return "", false, false
	}
	if w, h, k := isBuiltinArm(st); h {
		if !k {
			return w, true, false
		}
		// every path through Add updates the accumulator
		set := explore(fn.Blocks[0].Instrs[0], true, func(i ssa.Instruction) bool {
			s, isS := i.(*ssa.Store)
			if !isS {
				return false
			}
			for _, o := range stores {
				if o == s {
					return true
				}
			}
			return false
		})
		if len(returnsIn(set)) > 0 {
			return "the " + kind + " update is skipped on some path through Add", true, false
		}
		if kind == "min" {
			// a zero-valued accumulator would win every min: a first-sample arm must exist
			hasFirst := false
			for _, s := range stores {
				if s != st && norm(describeVal(s.Val)) == src {
					hasFirst = true
				}
			}
			if !hasFirst {
				return "min(accumulator, v) without a first-sample arm: the zero value of the accumulator wins every comparison", true, false
			}
		}
		return w, true, true
	}
	// st is the other arm: the plain value under a first-sample flag that does not depend on the accumulator
	if norm(describeVal(st.Val)) != src {
		return "", false, false
	}
	fs := factsAt(st.Block())
	if len(fs) == 0 {
		return "the accumulator is overwritten unconditionally next to a builtin " + kind, true, false
	}
	for _, f := range fs {
		if flowsFrom(f.Cond, sameField) {
			return "in-domain sentinel: the first-sample test is derived from the accumulator's own value", true, false
		}
		// the builtin arm is on the other edge of the same test
		if f.If != nil {
			other := f.If.Block().Succs[1]
			if !f.Val {
				other = f.If.Block().Succs[0]
			}
			if !(builtinStore.Block() == other || other.Dominates(builtinStore.Block())) {
				return "the first-sample arm and the builtin arm are not the two edges of one test", true, false
			}
		}
	}
	return "first-sample arm of a builtin " + kind, true, true
}

func minMaxGuard(fn *ssa.Function, st *ssa.Store, fa *ssa.FieldAddr, kind string) (string, bool) {
	return minMaxGuardX(fn, st, fa, kind, true)
}

// minMaxSiblings: the other stores of the same value into the same accumulator field
// (`if first { l.Min = v } else if v < l.Min { l.Min = v }` is one update written as two arms).
func minMaxSiblings(fn *ssa.Function, st *ssa.Store, fa *ssa.FieldAddr) []*ssa.Store {
	var out []*ssa.Store
	eachInstr(fn, func(i ssa.Instruction) {
		s, ok := i.(*ssa.Store)
		if !ok || s == st {
			return
		}
		if f2, isFA := s.Addr.(*ssa.FieldAddr); isFA && path(f2) == path(fa) && describeVal(s.Val) == describeVal(st.Val) {
			out = append(out, s)
		}
	})
	return out
}

// armUnder: the sibling store s runs exactly when cond has the value val (besides what both arms share):
// its block's facts contain (cond, val).
func armUnder(s *ssa.Store, cond ssa.Value, val bool) bool {
	for _, f := range factsAt(s.Block()) {
		if f.Cond == cond && f.Val == val {
			return true
		}
	}
	return false
}

func minMaxGuardX(fn *ssa.Function, st *ssa.Store, fa *ssa.FieldAddr, kind string, recurse bool) (string, bool) {
	// the store's block is entered from If(s); collect the disjuncts that lead to it
	blk := st.Block()
	siblings := minMaxSiblings(fn, st, fa)
	var disj []ssa.Value
	var collect func(b *ssa.BasicBlock, depth int)
	seenB := map[*ssa.BasicBlock]bool{}
	collect = func(b *ssa.BasicBlock, depth int) {
		if depth > 6 || seenB[b] {
			return
		}
		seenB[b] = true
		for _, p := range b.Preds {
			ifi, ok := p.Instrs[len(p.Instrs)-1].(*ssa.If)
			if !ok {
				continue
			}
			if p.Succs[0] == b {
				if phi, ok := ifi.Cond.(*ssa.Phi); ok {
					for k, e := range phi.Edges {
						if cb, isC := constBool(e); isC && cb {
							// disjunct evaluated in pred k
							pp := phi.Block().Preds[k]
							if pif, ok := pp.Instrs[len(pp.Instrs)-1].(*ssa.If); ok {
								disj = append(disj, pif.Cond)
							}
						} else if !isC {
							disj = append(disj, e)
						}
					}
				} else {
					disj = append(disj, ifi.Cond)
				}
			}
		}
	}
	collect(blk, 0)
	if len(disj) == 0 {
		return "the store is not guarded by a comparison", false
	}
	// the comparison chain itself must be evaluated unconditionally: every path
	// through Add passes the first test of the chain
	{
		var first *ssa.If
		for _, d := range disj {
			ifi := trueImpliesIf(d)
			if ifi == nil {
				continue
			}
			// the If that evaluates d directly
			for _, r := range refs(d) {
				if x, ok := r.(*ssa.If); ok {
					ifi = x
				}
			}
			if first == nil || instrDominates(ifi, first) {
				first = ifi
			}
		}
		if first != nil {
			set := explore(fn.Blocks[0].Instrs[0], true, func(i ssa.Instruction) bool {
				if i == ssa.Instruction(first) {
					return true
				}
				for _, s := range siblings {
					if i == ssa.Instruction(s) {
						return true // the other arm of a split update assigns the incoming value there
					}
				}
				return false
			})
			if len(returnsIn(set)) > 0 {
				return "the min/max comparison is skipped on some path through Add (an extra condition decides whether the accumulator may move): the result then depends on the order of addition", false
			}
		}
	}
	{
		known := map[ssa.Value]bool{}
		for _, d := range disj {
			known[d] = true
		}
		for _, f := range factsAt(blk) {
			if known[f.Cond] {
				continue
			}
			if phi, isPhi := f.Cond.(*ssa.Phi); isPhi {
				all := true
				for _, e := range phi.Edges {
					if _, isC := e.(*ssa.Const); !isC && !known[e] {
						all = false
					}
				}
				if all {
					continue
				}
			}
			// the other edge of this test is the first-sample arm of the same update
			{
				covered := false
				for _, s := range siblings {
					if armUnder(s, f.Cond, !f.Val) {
						covered = true
					}
				}
				if covered && !flowsFrom(f.Cond, func(v ssa.Value) bool {
					ld, ok := isLoad(stripConv(v))
					return ok && path(ld.X) == path(fa)
				}) {
					continue
				}
			}
			// facts that are negations of earlier disjuncts of the same chain are fine (a || b: b evaluated when !a)
			if f.If != nil && !f.Val {
				isEarlier := false
				for _, d := range disj {
					if d == f.Cond {
						isEarlier = true
					}
				}
				if isEarlier {
					continue
				}
			}
			return "the min/max update is skipped under an extra condition (" + describeVal(f.Cond) + "): the result then depends on the order of addition", false
		}
	}
	fieldPath := path(fa)
	isField := func(v ssa.Value) bool {
		ld, ok := isLoad(stripConv(v))
		return ok && path(ld.X) == fieldPath
	}
	isNew := func(v ssa.Value) bool { return describeVal(v) == describeVal(st.Val) }
	haveCmp := false
	for _, d := range disj {
		switch x := d.(type) {
		case *ssa.BinOp:
			switch {
			case isNew(x.X) && isField(x.Y), isField(x.X) && isNew(x.Y):
				op := x.Op
				if isField(x.X) {
					op = flipOp(op)
				}
				// now: new op field
				dir := ""
				switch op {
				case token.GTR:
					dir = "max"
				case token.LSS:
					dir = "min"
				default:
					return "the comparison with the accumulator is not strict", false
				}
				if dir != kind {
					return fmt.Sprintf("accumulator documented as %s is updated when the new value is %s", kind, map[string]string{"max": "larger", "min": "smaller"}[dir]), false
				}
				haveCmp = true
			case isField(x.X) || isField(x.Y):
				// the accumulator compared with something that is not the incoming value: a sentinel
				other := x.Y
				if isField(x.Y) {
					other = x.X
				}
				if _, isC := other.(*ssa.Const); isC {
					return "in-domain sentinel: the 'first sample' test compares the accumulator itself with a constant the input may equal (" + x.String() + ")", false
				}
				return "the accumulator is compared with something other than the incoming value", false
			default:
				// a first-sample flag computed from other state (e.g. estimator == nil): accepted
				// provided it does not involve the accumulator field
				if flowsFrom(x, func(v ssa.Value) bool { return isField(v) }) {
					return "in-domain sentinel: first-sample test derived from the accumulator's own value", false
				}
			}
		case *ssa.Call:
			n := callName(&x.Call)
			switch n {
			case "(time.Time).After", "(time.Time).Before":
				a, b := x.Call.Args[0], x.Call.Args[1]
				var dir string
				switch {
				case isNew(a) && isField(b):
					dir = map[string]string{"(time.Time).After": "max", "(time.Time).Before": "min"}[n]
				case isField(a) && isNew(b):
					dir = map[string]string{"(time.Time).After": "min", "(time.Time).Before": "max"}[n]
				default:
					return "time comparison is not between the accumulator and the incoming value", false
				}
				if dir != kind {
					return fmt.Sprintf("accumulator documented as %s moves in the %s direction", kind, dir), false
				}
				haveCmp = true
			case "(time.Time).IsZero":
				if !isField(x.Call.Args[0]) {
					return "IsZero on something other than the accumulator", false
				}
				// accepted: year 1 is outside the timestamp domain
			default:
				return "unrecognised guard " + n, false
			}
		default:
			// boolean flag (φ or load): must not derive from the accumulator
			if flowsFrom(d, func(v ssa.Value) bool { return isField(v) }) {
				return "in-domain sentinel: first-sample test derived from the accumulator's own value", false
			}
		}
	}
	if !haveCmp {
		// the first-sample arm of a split update: the comparison lives in the sibling arm, which runs
		// on the other edge of every test that leads here
		if recurse {
			for _, s := range siblings {
				other := true
				for _, d := range disj {
					if !armUnder(s, d, false) {
						other = false
					}
				}
				if _, ok := minMaxGuardX(fn, s, s.Addr.(*ssa.FieldAddr), kind, false); ok {
					if other {
						return "first-sample arm of a split update; strict comparison in the other arm", true
					}
					// not exclusive (`if first { Min = v }; if v < Min { Min = v }`): the first-sample store
					// assigns the incoming value itself, after which the strict comparison cannot fire
					return "first-sample store next to a strictly guarded update of the same accumulator", true
				}
			}
		}
		return "no strict comparison between the accumulator and the incoming value", false
	}
	return "strict comparison", true
}

// c10FirstSampleMarker: when Add decides "this is the first sample" from a field being nil
// (the estimator that Add itself creates), nothing but Add may create that field on the shared
// value: a reader (Quantile, a reporter, Close) that initialises it in place before the first Add
// makes the first sample look like a later one and the minimum stays at its zero value.
func c10FirstSampleMarker(c *Ctx, add *ssa.Function) {
	const rule = "a field whose nil-ness Add uses as its first-sample marker is written on the shared value only on paths that start in Add; other methods touch it only on a private copy (value receiver)"
	recv := add.Params[0]
	markers := map[int]*ssa.BinOp{}
	eachInstr(add, func(i ssa.Instruction) {
		bo, ok := i.(*ssa.BinOp)
		if !ok || (bo.Op != token.EQL && bo.Op != token.NEQ) || !isNilConst(bo.Y) {
			return
		}
		ld, ok := isLoad(bo.X)
		if !ok {
			return
		}
		fa, ok := ld.X.(*ssa.FieldAddr)
		if !ok || fa.X != ssa.Value(recv) {
			return
		}
		// inline lazy initialisation (`if x.f == nil { x.f = new }`) is not a marker use
		lazyOnly := true
		for _, r := range refs(bo) {
			ifi, isIf := r.(*ssa.If)
			if !isIf {
				lazyOnly = false
				continue
			}
			onlyInit := false
			for _, in := range ifi.Block().Succs[0].Instrs {
				if st, isSt := in.(*ssa.Store); isSt {
					if fa2, isFA := st.Addr.(*ssa.FieldAddr); isFA && fa2.X == fa.X && fa2.Field == fa.Field {
						onlyInit = true
					}
				}
			}
			if !onlyInit || bo.Op != token.EQL {
				lazyOnly = false
			}
		}
		if lazyOnly {
			return
		}
		// a marker decides an update of another accumulator field (an optional component
		// such as `if m.Histogram != nil { m.Histogram.Add(r) }` does not)
		decides := false
		eachInstr(add, func(j ssa.Instruction) {
			ifi, isIf := j.(*ssa.If)
			if !isIf || !flowsFrom(ifi.Cond, func(v ssa.Value) bool { return v == ssa.Value(bo) }) {
				return
			}
			eachInstr(add, func(k ssa.Instruction) {
				st, isSt := k.(*ssa.Store)
				if !isSt || st.Block() == ifi.Block() || !ifi.Block().Dominates(st.Block()) {
					return
				}
				if fa2, isFA := st.Addr.(*ssa.FieldAddr); isFA && fa2.X == fa.X && fa2.Field != fa.Field {
					decides = true
				}
			})
		})
		if decides {
			markers[fa.Field] = bo
		}
	})
	for field, bo := range markers {
		name := fieldName(recv.Type(), field)
		key := "first-sample-marker:" + shortFn(add) + ":" + name
		var bad []string
		var sites []string
		nWriters := 0
		// writers of the marker field anywhere in the package
		var sharedWriter func(w *ssa.Function, base ssa.Value, depth int) string
		sharedWriter = func(w *ssa.Function, base ssa.Value, depth int) string {
			switch b := base.(type) {
			case *ssa.Alloc:
				return "" // a private copy or a value under construction
			case *ssa.Parameter:
				if w == add {
					return ""
				}
				if depth > 3 {
					return shortFn(w)
				}
				idx := -1
				for k, p := range w.Params {
					if p == b {
						idx = k
					}
				}
				callers := 0
				for _, g := range c.P.RepoFuncs("lib") {
					var res string
					eachInstr(g, func(i ssa.Instruction) {
						ci, ok := i.(ssa.CallInstruction)
						if !ok || ci.Common().StaticCallee() != w || idx >= len(ci.Common().Args) {
							return
						}
						callers++
						if r := sharedWriter(g, ci.Common().Args[idx], depth+1); r != "" && res == "" {
							res = r
							sites = append(sites, c.at(i))
						}
					})
					if res != "" {
						return res
					}
				}
				if callers == 0 || (w.Object() != nil && w.Object().Exported()) {
					return shortFn(w) // an entry point that writes the marker on its caller's value
				}
				return ""
			default:
				if w == add {
					return ""
				}
				return shortFn(w) + " (through " + describeVal(base) + ")"
			}
		}
		for _, w := range c.P.RepoFuncs("lib") {
			eachInstr(w, func(i ssa.Instruction) {
				st, ok := i.(*ssa.Store)
				if !ok {
					return
				}
				fa, ok := st.Addr.(*ssa.FieldAddr)
				if !ok || fa.Field != field || !types.Identical(fa.X.Type(), recv.Type()) {
					return
				}
				nWriters++
				if r := sharedWriter(w, fa.X, 0); r != "" {
					bad = append(bad, r)
					sites = append(sites, c.at(st))
				}
			})
		}
		sites = append(sites, c.at(bo))
		c.Check(len(bad) == 0, key, rule, fmt.Sprintf("%d writer(s) of %s, all reached from Add or on a private copy", nWriters, name), name+" can be created on the shared value outside Add by "+strings.Join(bad, ", ")+": a report or quantile query before the first sample defeats the first-sample test", sites...)
	}
}

func c10ClosePure(c *Ctx, mAdd, mClose *ssa.Function) {
	const rule = "the fields Close writes (transitively) are disjoint from the fields Add reads, except lazily initialised containers; every field Close writes is assigned in Close before Close reads it"
	addE := transitiveEffects(mAdd)
	closeE := transitiveEffects(mClose)
	lazy := lazyInitFields(append(inPackageCallees([]*ssa.Function{mAdd}), inPackageCallees([]*ssa.Function{mClose})...))
	lazySites := lazyInitStores(inPackageCallees([]*ssa.Function{mClose}))
	var overlap []string
	var sites []string
	for _, k := range sortedKeys(closeE.writes) {
		// the exemption is per store site: only a store that is itself guarded by `field == nil` is lazy initialisation
		var real []ssa.Instruction
		for _, w := range closeE.writes[k] {
			if !lazySites[w] {
				real = append(real, w)
			}
		}
		if len(real) == 0 {
			continue
		}
		if _, rd := addE.reads[k]; rd {
			overlap = append(overlap, k)
			sites = append(sites, c.at(real[0]))
		} else if _, wr := addE.writes[k]; wr {
			overlap = append(overlap, k+" (written by both)")
			sites = append(sites, c.at(real[0]))
		}
	}
	if len(closeE.writes) == 0 {
		c.Undecided("close-pure:(*lib.Metrics).Close", rule, "Close writes nothing: anchor not recognised", c.fnAt(mClose))
		return
	}
	if len(overlap) > 0 {
		c.Fail("close-pure:(*lib.Metrics).Close", rule, "Close modifies accumulator state that Add reads: "+strings.Join(overlap, ", ")+" (an intermediate Close changes later results)", sites...)
	} else {
		c.Pass("close-pure:(*lib.Metrics).Close", rule, fmt.Sprintf("%d fields written by Close, %d read by Add, overlap only lazy-init %v", len(closeE.writes), len(addE.reads), keysOf(lazy)), c.fnAt(mClose))
	}
	// assigned-before-read inside Close
	okABR := true
	for _, fn := range []*ssa.Function{mClose} {
		d := directEffects(fn)
		for _, k := range sortedKeys(d.writes) {
			if lazy[k] {
				continue
			}
			for _, rd := range d.reads[k] {
				// is rd reachable from entry without passing a plain store to k that does not itself depend on a load of k?
				set := explore(fn.Blocks[0].Instrs[0], true, func(i ssa.Instruction) bool {
					st, ok := i.(*ssa.Store)
					if !ok {
						return false
					}
					fa, ok := st.Addr.(*ssa.FieldAddr)
					if !ok || fieldKeyOf(fa.X.Type(), fa.Field) != k {
						return false
					}
					selfDep := flowsFrom(st.Val, func(v ssa.Value) bool {
						ld, ok := isLoad(v)
						if !ok {
							return false
						}
						fa2, ok := ld.X.(*ssa.FieldAddr)
						return ok && fieldKeyOf(fa2.X.Type(), fa2.Field) == k
					})
					return !selfDep
				})
				if set[rd] {
					okABR = false
					c.Fail("close-idempotent:"+k, rule, "Close reads "+k+" before assigning it: its value carries over from the previous Close (closing twice changes the result)", c.at(rd))
				}
			}
		}
	}
	if okABR {
		c.Pass("close-idempotent:(*lib.Metrics).Close", rule, "every derived field is assigned before it is read", c.fnAt(mClose))
	}
}

func keysOf(m map[string]bool) []string {
	var out []string
	for k := range m {
		out = append(out, k)
	}
	sort.Strings(out)
	return out
}

// c10PerSecondGuard: rate and throughput are counts divided by elapsed seconds only when the attack
// lasted longer than an instant. That decision is taken on Duration alone (Wait > 0 with
// Duration == 0 — a single result, or results sharing one timestamp — must not make throughput
// success/Wait): every division by a Seconds() value reachable from Close is dominated by a `> 0`
// test on Duration, in its own function or, when the test is on a parameter, at every call site.
func c10PerSecondGuard(c *Ctx, mClose *ssa.Function) {
	const rule = "whether Rate and Throughput are divided by elapsed seconds is decided by Duration > 0 alone: every division by a time.Duration.Seconds() value reachable from Close is dominated by a > 0 test whose subject is Duration"
	key := "per-second-guard:(*lib.Metrics).Close"
	isDurationField := func(v ssa.Value) bool {
		v = stripConv(v)
		if call, ok := v.(*ssa.Call); ok && callName(&call.Call) == "(time.Duration).Seconds" {
			v = stripConv(call.Call.Args[0])
		}
		d := describeVal(v)
		return strings.HasSuffix(d, ".Duration") && !strings.Contains(d, "(") && !strings.Contains(d, "+")
	}
	subjectOf := func(v ssa.Value) ssa.Value {
		v = stripConv(v)
		if call, ok := v.(*ssa.Call); ok && callName(&call.Call) == "(time.Duration).Seconds" {
			return stripConv(call.Call.Args[0])
		}
		return v
	}
	positiveFacts := func(b *ssa.BasicBlock) []ssa.Value {
		var out []ssa.Value
		withoutInline(func() {
			for _, f := range factsAt(b) {
				cmp, ok := f.Cond.(*ssa.BinOp)
				if !ok {
					continue
				}
				if z, isZ := constInt(cmp.Y); isZ && z == 0 && (cmp.Op == token.GTR && f.Val || cmp.Op == token.LEQ && !f.Val) {
					out = append(out, cmp.X)
				}
			}
		})
		return out
	}
	singleSite(c.P, mClose) // builds the call-site index
	n := 0
	var bad []ssa.Instruction
	var sites []string
	for _, g := range inPackageCallees([]*ssa.Function{mClose}) {
		eachInstr(g, func(i ssa.Instruction) {
			bo, ok := i.(*ssa.BinOp)
			if !ok || bo.Op != token.QUO {
				return
			}
			if !flowsFrom(bo.Y, func(v ssa.Value) bool {
				call, isCall := v.(*ssa.Call)
				return isCall && callName(&call.Call) == "(time.Duration).Seconds"
			}) {
				return
			}
			n++
			sites = append(sites, c.at(bo))
			good := false
			for _, s := range positiveFacts(bo.Block()) {
				if isDurationField(s) {
					good = true
					break
				}
				// the test is on a parameter: every call site passes Duration there, or sits under a Duration > 0 test itself
				p, isP := subjectOf(s).(*ssa.Parameter)
				if !isP || g == mClose {
					continue
				}
				idx := -1
				for k, q := range g.Params {
					if q == p {
						idx = k
					}
				}
				all := idx >= 0 && len(siteIndex[g]) > 0
				for _, cs := range siteIndex[g] {
					okSite := idx < len(cs.Common().Args) && isDurationField(cs.Common().Args[idx])
					for _, s2 := range positiveFacts(cs.Block()) {
						if isDurationField(s2) {
							okSite = true
						}
					}
					if !okSite {
						all = false
					}
				}
				if all {
					good = true
					break
				}
			}
			if !good && g != mClose && len(siteIndex[g]) > 0 {
				// no test in the helper at all: every call of it sits under a Duration > 0 test
				all := true
				for _, cs := range siteIndex[g] {
					okSite := false
					for _, s2 := range positiveFacts(cs.Block()) {
						if isDurationField(s2) {
							okSite = true
						}
					}
					if !okSite {
						all = false
					}
				}
				good = all
			}
			if !good {
				bad = append(bad, bo)
			}
		})
	}
	switch {
	case n == 0:
		c.Undecided(key, rule, "no division by elapsed seconds found under Close", c.fnAt(mClose))
	case len(bad) > 0:
		c.Fail(key, rule, "a count is divided by elapsed seconds under a test that is not Duration > 0 (e.g. on Duration+Wait): a single result, or results sharing one timestamp, would report success/Wait as throughput", c.ats(bad)...)
	default:
		c.Pass(key, rule, fmt.Sprintf("%d divisions by elapsed seconds, all under Duration > 0", n), sites...)
	}
}

func c10CloseDivisions(c *Ctx, mClose *ssa.Function) {
	const rule = "every division in Close by a request-count-derived value is dominated by the Requests == 0 return, and every division by elapsed seconds by the secs > 0 guard"
	n := 0
	okAll := true
	var sites []string
	eachInstr(mClose, func(i ssa.Instruction) {
		bo, ok := i.(*ssa.BinOp)
		if !ok || bo.Op != token.QUO {
			return
		}
		if _, isConst := bo.Y.(*ssa.Const); isConst {
			return
		}
		n++
		sites = append(sites, c.at(bo))
		fs := factsAt(bo.Block())
		fromReq := flowsFrom(bo.Y, func(v ssa.Value) bool {
			return strings.HasSuffix(describeVal(v), ".Requests") && !strings.Contains(describeVal(v), "(")
		})
		guarded := false
		for _, f := range fs {
			cmp, ok := f.Cond.(*ssa.BinOp)
			if !ok {
				continue
			}
			if fromReq && strings.HasSuffix(describeVal(cmp.X), ".Requests") {
				if z, ok := constInt(cmp.Y); ok && z == 0 && (cmp.Op == token.EQL && !f.Val || cmp.Op == token.NEQ && f.Val || cmp.Op == token.GTR && f.Val) {
					guarded = true
				}
			}
			if !fromReq {
				if z, ok := constInt(cmp.Y); ok && z == 0 && cmp.Op == token.GTR && f.Val {
					guarded = true
				}
			}
		}
		if !guarded {
			okAll = false
			c.Fail("close-division:"+describeVal(bo.Y), rule, "division by "+describeVal(bo.Y)+" is not guarded against zero", c.at(bo))
		}
	})
	if n == 0 {
		c.Undecided("close-division:(*lib.Metrics).Close", rule, "no division found in Close", c.fnAt(mClose))
	} else if okAll {
		c.Pass("close-division:(*lib.Metrics).Close", rule, fmt.Sprintf("%d divisions guarded", n), sites...)
	}
}

// successSets evaluates hit's error mapping and Metrics.Add's success test for every uint16 code.
func c10SuccessRange(c *Ctx) {
	const rule = "the status codes for which hit leaves Result.Error empty are exactly those Metrics.Add counts as success, and both equal [200,400) (decided by evaluating both comparison chains for all 65536 codes)"
	key := "success-range:lib.hit↔lib.Metrics.Add"
	hit := c.P.Func("lib", "Attacker.hit")
	add := c.P.Func("lib", "Metrics.Add")
	if hit == nil || add == nil {
		c.Undecided(key, rule, "hit or Metrics.Add not found")
		return
	}
	// hit: target = block storing Result.Error from r.Status; start = the first block of the comparison chain
	var errStore *ssa.Store
	// the store whose value is the response status text (hit may delegate the exchange to a
	// single-site helper; the conversion of a Go error to text is a different store)
	withInline(func() {
		eachInstrI(hit, func(i ssa.Instruction) {
			if st, ok := resultFieldStore(i, "Error"); ok {
				if call, isCall := st.Val.(*ssa.Call); isCall && call.Call.IsInvoke() {
					return // err.Error()
				}
				errStore = st
			}
		})
	}, hit)
	var succStore *ssa.Store
	eachInstr(add, func(i ssa.Instruction) {
		if st, ok := i.(*ssa.Store); ok {
			if fa, ok := st.Addr.(*ssa.FieldAddr); ok && recvPath(fa) == "success" {
				succStore = st
			}
		}
	})
	if errStore == nil || succStore == nil {
		c.Fail(key, rule, "cannot find the status→error store in hit or the success counter in Metrics.Add", c.fnAt(hit), c.fnAt(add))
		return
	}
	isCode := func(v ssa.Value) bool {
		ld, ok := isLoad(v)
		if !ok {
			return false
		}
		fa, ok := ld.X.(*ssa.FieldAddr)
		return ok && isNamedType(fa.X.Type(), "lib", "Result") && fieldName(fa.X.Type(), fa.Field) == "Code"
	}
	chainStart := func(target *ssa.BasicBlock) *ssa.BasicBlock {
		// walk up dominators while the dominator's terminator is an If on a Code comparison (or φ of such)
		start := target
		for cur := target.Idom(); cur != nil; cur = cur.Idom() {
			ifi, ok := cur.Instrs[len(cur.Instrs)-1].(*ssa.If)
			if !ok {
				break
			}
			if _, ok := evalCond(ifi.Cond, isCode, 0, nil, cur); !ok {
				if _, isPhi := ifi.Cond.(*ssa.Phi); !isPhi {
					break
				}
			}
			start = cur
		}
		return start
	}
	hs, as := chainStart(errStore.Block()), chainStart(succStore.Block())
	if hs == errStore.Block() || as == succStore.Block() {
		c.Fail(key, rule, "the error mapping / success count is not controlled by comparisons of Result.Code with constants", c.at(errStore), c.at(succStore))
		return
	}
	mismatch := int64(-1)
	wrong := int64(-1)
	for v := int64(0); v < 65536; v++ {
		isErr, ok1 := evalCodeChain(hs, errStore.Block(), isCode, v)
		isSucc, ok2 := evalCodeChain(as, succStore.Block(), isCode, v)
		if !ok1 || !ok2 {
			c.Undecided(key, rule, "a comparison chain could not be evaluated", c.at(errStore), c.at(succStore))
			return
		}
		if isErr == isSucc && mismatch < 0 {
			mismatch = v
		}
		want := v >= 200 && v < 400
		if isSucc != want && wrong < 0 {
			wrong = v
		}
	}
	switch {
	case mismatch >= 0:
		c.Fail(key, rule, fmt.Sprintf("status %d is treated inconsistently: hit's error mapping and Metrics.Add's success test disagree", mismatch), c.at(errStore), c.at(succStore))
	case wrong >= 0:
		c.Fail(key, rule, fmt.Sprintf("status %d is classified against the documented success range [200,400)", wrong), c.at(errStore), c.at(succStore))
	default:
		c.Pass(key, rule, "65536 codes evaluated; success = [200,400) on both sides", c.at(errStore), c.at(succStore))
	}
}

func c10Report(c *Ctx) {
	const rule = "the report command renders only through writeReport, which closes the report first; the end-of-input and interrupt exits of the decode loop reach the final writeReport"
	rep := c.P.Func("", "report")
	wr := c.P.Func("", "writeReport")
	if rep == nil || wr == nil {
		c.Undecided("report-close:main.report", rule, "main.report / main.writeReport not found")
		return
	}
	c.Saw("function " + shortFn(rep))
	c.Saw("function " + shortFn(wr))
	// all Report calls in main are in writeReport
	var outside []ssa.Instruction
	for _, fn := range c.P.RepoFuncs("") {
		eachInstr(fn, func(i ssa.Instruction) {
			if isCallTo(i, "(lib.Reporter).Report") && fn != wr {
				outside = append(outside, i)
			}
			if call, ok := i.(*ssa.Call); ok && fn != wr && fn.Name() == "report" {
				// direct invocation of the reporter function value
				if _, isRep := call.Call.Value.Type().(*types.Named); isRep && isNamedType(call.Call.Value.Type(), "lib", "Reporter") && call.Call.StaticCallee() == nil && !call.Call.IsInvoke() {
					outside = append(outside, i)
				}
			}
		})
	}
	c.Check(len(outside) == 0, "report-close:only-via-writeReport", rule, "reporter invoked only in writeReport", "a reporter is invoked without closing the report first", c.atsOr(outside, wr)...)
	// writeReport: on rc != nil, Close precedes Report
	reports := callsNamed(wr, "(lib.Reporter).Report")
	closes := findInstrs(wr, func(i ssa.Instruction) bool {
		call, ok := i.(*ssa.Call)
		return ok && call.Call.IsInvoke() && call.Call.Method.Name() == "Close"
	})
	okW := len(reports) == 1 && len(closes) == 1
	if okW {
		okW = false
		for _, f := range factsAt(closes[0].Block()) {
			if bo, ok := f.Cond.(*ssa.BinOp); ok && bo.Op == token.NEQ && f.Val {
				if k, ok := bo.Y.(*ssa.Const); ok && k.Value == nil && bo.X == closes[0].(*ssa.Call).Call.Value {
					// from the true successor, Report is not reachable without Close
					set := exploreBlock(f.If.Block().Succs[0], func(i ssa.Instruction) bool { return i == closes[0] })
					okW = !set[reports[0]] && instrDominates(f.If, reports[0])
				}
			}
		}
	}
	c.Check(okW, "report-close:main.writeReport", rule, "Close() precedes Report() whenever the report has a Close", "writeReport can render without closing first", c.fnAt(wr))
	// final writeReport reached from EOF and signal exits
	wcalls := callsNamed(rep, "main.writeReport")
	if len(wcalls) == 0 {
		c.Fail("report-close:final", rule, "report never calls writeReport", c.fnAt(rep))
		return
	}
	// returns of report: each is an error return (value not the writeReport result) or returns writeReport's result
	var final *ssa.Call
	for _, w := range wcalls {
		set := explore(w, false, nil)
		again := false
		for i := range set {
			if isCallTo(i, "(lib.Decoder).Decode") {
				again = true
			}
		}
		if !again {
			final = w.(*ssa.Call)
		}
	}
	if final == nil {
		c.Fail("report-close:final", rule, "report has no final writeReport after the decode loop", c.fnAt(rep))
		return
	}
	// its result is what report returns: no return is reachable from it except through the result cell
	{
		set := explore(final, false, nil)
		for i := range set {
			if call, ok := i.(*ssa.Call); ok && !isCallTo(i, "main.writeReport") {
				n := callName(&call.Call)
				if strings.HasPrefix(n, "(lib.") {
					c.Fail("report-close:final", rule, "the report is touched again after the final writeReport", c.at(call))
					return
				}
			}
		}
	}
	// EOF edge
	okEOF := false
	eachInstr(rep, func(i ssa.Instruction) {
		bo, ok := i.(*ssa.BinOp)
		if !ok || bo.Op != token.EQL {
			return
		}
		if ld, ok := isLoad(bo.Y); ok {
			if g, ok := ld.X.(*ssa.Global); ok && g.Name() == "EOF" && g.Pkg.Pkg.Path() == "io" {
				if ifi := trueImpliesIf(bo); ifi != nil {
					set := exploreBlock(ifi.Block().Succs[0], func(x ssa.Instruction) bool { return x == ssa.Instruction(final) })
					okEOF = len(returnsIn(set)) == 0
				}
			}
		}
	})
	c.Check(okEOF, "report-close:final", rule, "io.EOF leads to the final writeReport", "end of input does not lead to the final report", c.at(final))
	// decoded record used only on err == nil: C09/C13 cover it
}

// ------------------------------------------------------------------ C11

func runC11(c *Ctx) {
	lAdd := c.P.Func("lib", "LatencyMetrics.Add")
	mClose := c.P.Func("lib", "Metrics.Close")
	quant := c.P.Func("lib", "LatencyMetrics.Quantile")
	linit := c.P.Func("lib", "LatencyMetrics.init")
	if lAdd == nil || mClose == nil || quant == nil || linit == nil {
		c.Undecided("anchor:lib.LatencyMetrics", "anchors resolve", "LatencyMetrics.Add/Quantile/init or Metrics.Close not found")
		return
	}
	for _, f := range []*ssa.Function{lAdd, mClose, quant, linit} {
		c.Saw("function " + shortFn(f))
	}
	// (1) every sample reaches the estimator exactly once, untransformed
	const r1 = "every path of LatencyMetrics.Add passes exactly one estimator.Add(float64(latency)) on the receiver's estimator with the parameter itself; Min and Max are updated from the same value"
	var adds []*ssa.Call
	eachInstr(lAdd, func(i ssa.Instruction) {
		if call, ok := i.(*ssa.Call); ok && call.Call.IsInvoke() && call.Call.Method.Name() == "Add" {
			adds = append(adds, call)
		}
	})
	key1 := "sample-reaches-estimator:" + shortFn(lAdd)
	if len(adds) != 1 {
		c.Fail(key1, r1, fmt.Sprintf("%d estimator.Add calls, want exactly 1", len(adds)), c.fnAt(lAdd))
	} else {
		a := adds[0]
		why := ""
		ok := true
		if describeVal(a.Call.Value) != "recv.estimator" {
			ok, why = false, "Add is invoked on "+describeVal(a.Call.Value)+", not on the receiver's estimator"
		}
		cv, isConv := a.Call.Args[0].(*ssa.Convert)
		if ok && (!isConv || cv.X != ssa.Value(lAdd.Params[1])) {
			ok, why = false, "the estimator is fed "+describeVal(a.Call.Args[0])+" rather than float64(latency) of the parameter"
		}
		if ok {
			set := explore(lAdd.Blocks[0].Instrs[0], true, func(i ssa.Instruction) bool { return i == ssa.Instruction(a) })
			if len(returnsIn(set)) > 0 {
				ok, why = false, "some path through Add skips the estimator (samples dropped)"
			}
			if loopHeaderOf(a.Block()) != nil {
				ok, why = false, "the estimator is fed inside a loop"
			}
		}
		c.Check(ok, key1, r1, "estimator.Add(float64(latency)) on every path", why, c.at(a))
	}
	// Min/Max from the parameter: reuse C10's classification on just these two
	for _, f := range []string{"Min", "Max"} {
		var st *ssa.Store
		eachInstr(lAdd, func(i ssa.Instruction) {
			if s, ok := i.(*ssa.Store); ok {
				if fa, ok := s.Addr.(*ssa.FieldAddr); ok && recvPath(fa) == f {
					st = s
				}
			}
		})
		key := "minmax-from-sample:lib.LatencyMetrics." + f
		if st == nil {
			c.Fail(key, r1, f+" is never updated", c.fnAt(lAdd))
			continue
		}
		if w, handled, okB := builtinMinMax(lAdd, st, st.Addr.(*ssa.FieldAddr), strings.ToLower(f), "arg0", func(s string) string { return s }); handled {
			c.Check(okB, key, r1, f+" tracks the sample ("+w+")", w, c.at(st))
			continue
		}
		why, ok := minMaxGuard(lAdd, st, st.Addr.(*ssa.FieldAddr), strings.ToLower(f))
		okV := st.Val == ssa.Value(lAdd.Params[1])
		if !okV {
			why = f + " is set from something other than the sample"
		}
		c.Check(ok && okV, key, r1, f+" tracks the sample", why, c.at(st))
	}

	// (2) percentile table
	const r2 = "Close assigns Pxx from Quantile(0.xx) of the same LatencyMetrics and the field's JSON tag is \"xxth\""
	lm := c.P.Named("lib", "LatencyMetrics")
	st := lm.Underlying().(*types.Struct)
	found := 0
	for k := 0; k < st.NumFields(); k++ {
		f := st.Field(k)
		if len(f.Name()) != 3 || f.Name()[0] != 'P' {
			continue
		}
		var n int
		if _, err := fmt.Sscanf(f.Name(), "P%d", &n); err != nil {
			continue
		}
		found++
		key := "percentile-table:lib.LatencyMetrics." + f.Name()
		tag := reflect.StructTag(st.Tag(k)).Get("json")
		if tag != fmt.Sprintf("%dth", n) {
			c.Fail(key, r2, fmt.Sprintf("JSON tag is %q, want %q", tag, fmt.Sprintf("%dth", n)), c.P.Pos(f.Pos()))
			continue
		}
		var store *ssa.Store
		resolve := func(v ssa.Value) ssa.Value { return v }
		eachInstr(mClose, func(i ssa.Instruction) {
			if s, ok := i.(*ssa.Store); ok {
				if fa, ok := s.Addr.(*ssa.FieldAddr); ok && recvPath(fa) == "Latencies."+f.Name() {
					store = s
				}
			}
		})
		if store == nil {
			// assigned through a row of a literal table walked by a loop
			for _, vs := range tableStores(mClose) {
				if fa, ok := vs.Target.(*ssa.FieldAddr); ok && recvPath(fa) == "Latencies."+f.Name() {
					store, resolve = vs.Store, vs.resolve
				}
			}
		}
		if store == nil {
			c.Fail(key, r2, f.Name()+" is never assigned in Close", c.fnAt(mClose))
			continue
		}
		call, ok := store.Val.(*ssa.Call)
		if !ok || call.Call.StaticCallee() != quant {
			c.Fail(key, r2, f.Name()+" is not assigned from Quantile", c.at(store))
			continue
		}
		qc, ok := resolve(call.Call.Args[1]).(*ssa.Const)
		q := math.NaN()
		if ok && qc.Value != nil {
			q, _ = constant.Float64Val(constant.ToFloat(qc.Value))
		}
		rd := describeVal(call.Call.Args[0])
		recvOK := rd == "recv.Latencies" || rd == "&recv.Latencies"
		c.Check(recvOK && math.Abs(q*100-float64(n)) < 1e-9, key, r2, fmt.Sprintf("%s = Quantile(%.2f), tag %q", f.Name(), q, tag), fmt.Sprintf("%s is assigned Quantile(%v) of %s", f.Name(), q, describeVal(call.Call.Args[0])), c.at(store))
	}
	if found < 4 {
		c.Fail("percentile-table:lib.LatencyMetrics", r2, fmt.Sprintf("only %d percentile fields found, expected P50,P90,P95,P99", found), c.P.Pos(lm.Obj().Pos()))
	}

	// (3) ladder
	const r3 = "the HDR percentile ladder is strictly increasing, starts at 0 and ends at 1; the HDR reporter walks it in order and prints Quantile(q) of the metrics it was given"
	ladder, pos := floatSliceLiteral(c, "lib", "logarithmic")
	keyL := "ladder:lib.logarithmic"
	if ladder == nil {
		c.Undecided(keyL, r3, "cannot read the literal of lib.logarithmic")
	} else {
		ok := len(ladder) >= 2 && ladder[0] == 0 && ladder[len(ladder)-1] == 1
		why := "ladder does not run from 0 to 1"
		for k := 1; k < len(ladder) && ok; k++ {
			if !(ladder[k] > ladder[k-1]) {
				ok, why = false, fmt.Sprintf("ladder entries %d and %d are not increasing (%v, %v)", k-1, k, ladder[k-1], ladder[k])
			}
		}
		c.Check(ok, keyL, r3, fmt.Sprintf("%d strictly increasing quantiles from 0 to 1", len(ladder)), why, pos)
	}
	hdr := c.P.Func("lib", "NewHDRHistogramPlotReporter")
	keyH := "ladder-walk:lib.NewHDRHistogramPlotReporter"
	// the constructor may delegate to a more general one (same closure, extra parameter)
	for hop := 0; hdr != nil && returnedClosure(hdr) == nil && hop < 3; hop++ {
		var next *ssa.Function
		eachInstr(hdr, func(i ssa.Instruction) {
			if ret, isR := i.(*ssa.Return); isR && len(ret.Results) == 1 {
				if call, isC := ret.Results[0].(*ssa.Call); isC {
					if f := call.Call.StaticCallee(); f != nil && f.Pkg == hdr.Pkg {
						next = f
					}
				}
			}
		})
		if next == nil {
			break
		}
		hdr = next
	}
	if returnedClosure(hdr) == nil {
		c.Undecided(keyH, r3, "NewHDRHistogramPlotReporter closure not found")
	} else {
		fn := returnedClosure(hdr)
		c11SplitConversion(c, fn)
		c.Saw("function " + shortFn(fn))
		var qcalls []*ssa.Call
		old := inlineAware
		inlineAware = true // the per-row computation may live in a single-site helper
		defer func() { inlineAware = old }()
		eachInstrI(fn, func(i ssa.Instruction) {
			if call, ok := i.(*ssa.Call); ok && call.Call.StaticCallee() == quant {
				qcalls = append(qcalls, call)
			}
		})
		ok := len(qcalls) == 1
		why := fmt.Sprintf("%d Quantile calls in the HDR reporter", len(qcalls))
		if ok {
			q := rootVal(qcalls[0].Call.Args[1])
			// q is logarithmic[i] with i the range index
			ld, isL := isLoad(q)
			var ia *ssa.IndexAddr
			if isL {
				ia, _ = ld.X.(*ssa.IndexAddr)
			}
			if ia == nil {
				ok, why = false, "Quantile's argument is not an element of the ladder"
			} else {
				base, isBL := isLoad(ia.X)
				g, _ := (ssa.Value)(nil), false
				if isBL {
					gg, isG := base.X.(*ssa.Global)
					g, _ = gg, isG
					if !isG || gg.Name() != "logarithmic" {
						ok, why = false, "the reporter does not walk lib.logarithmic"
					}
				} else {
					ok, why = false, "the reporter does not walk lib.logarithmic"
				}
				_ = g
				if ok && !isRangeIndex(ia.Index) {
					ok, why = false, "the ladder is not walked in order by a range index advancing by one"
				}
			}
			if ok && !strings.HasSuffix(describeVal(qcalls[0].Call.Args[0]), ".Latencies") {
				ok, why = false, "Quantile is taken from "+describeVal(qcalls[0].Call.Args[0])
			}
		}
		c.Check(ok, keyH, r3, "range over logarithmic → Quantile(q)", why, c.fnAt(fn))
	}

	// (4) estimator class
	const r4 = "the latency estimator is the t-digest created with a constant compression ≥ 100, created only in LatencyMetrics.init under estimator == nil, and Quantile reads it without transformation"
	keyE := "estimator-class:lib.LatencyMetrics.estimator"
	var mk *ssa.Call
	eachInstr(linit, func(i ssa.Instruction) {
		if call, ok := i.(*ssa.Call); ok && callName(&call.Call) == "lib.newTdigestEstimator" {
			mk = call
		}
	})
	okE := mk != nil
	whyE := "LatencyMetrics.init does not create the t-digest estimator"
	if okE {
		// what is stored into the estimator field is that t-digest adapter itself, not a wrapper around it
		direct := false
		for _, r := range refs(mk) {
			if mi, isMI := r.(*ssa.MakeInterface); isMI {
				for _, rr := range refs(mi) {
					if st, isSt := rr.(*ssa.Store); isSt && st.Val == ssa.Value(mi) {
						if fa, isFA := st.Addr.(*ssa.FieldAddr); isFA && fieldName(fa.X.Type(), fa.Field) == "estimator" {
							direct = true
						}
					}
				}
			}
		}
		if !direct {
			okE, whyE = false, "the t-digest is wrapped in another estimator before it is installed (a second quantile algorithm in front of it is not covered by the rank-error argument)"
		}
	}
	if okE {
		cv, isC := mk.Call.Args[0].(*ssa.Const)
		comp := 0.0
		if isC && cv.Value != nil {
			comp, _ = constant.Float64Val(constant.ToFloat(cv.Value))
		}
		if comp < 100 {
			okE, whyE = false, fmt.Sprintf("t-digest compression is %v, below 100 (rank error above 1%%)", comp)
		}
	}
	if okE {
		nt := c.P.Func("lib", "newTdigestEstimator")
		okN := false
		if nt != nil {
			eachInstr(nt, func(i ssa.Instruction) {
				if call, ok := i.(*ssa.Call); ok && strings.HasSuffix(callName(&call.Call), "tdigest.NewWithCompression") && call.Call.Args[0] == ssa.Value(nt.Params[0]) {
					okN = true
				}
			})
		}
		if !okN {
			okE, whyE = false, "newTdigestEstimator does not pass its compression to tdigest.NewWithCompression"
		}
	}
	if okE {
		// Get → TDigest.Quantile(q) unchanged; Add → TDigest.Add(s, 1)
		get := c.P.Func("lib", "tdigestEstimator.Get")
		add := c.P.Func("lib", "tdigestEstimator.Add")
		okG := false
		if get != nil {
			eachInstr(get, func(i ssa.Instruction) {
				if r, ok := i.(*ssa.Return); ok {
					if call, ok := r.Results[0].(*ssa.Call); ok && strings.HasSuffix(callName(&call.Call), "tdigest.TDigest).Quantile") && call.Call.Args[1] == ssa.Value(get.Params[1]) {
						okG = true
					}
				}
			})
		}
		okA := false
		if add != nil {
			eachInstr(add, func(i ssa.Instruction) {
				if call, ok := i.(*ssa.Call); ok && strings.HasSuffix(callName(&call.Call), "tdigest.TDigest).Add") && call.Call.Args[1] == ssa.Value(add.Params[1]) {
					if w, ok := constInt(call.Call.Args[2]); ok && w == 1 {
						okA = true
					}
				}
			})
		}
		if !okG || !okA {
			okE, whyE = false, "the estimator adapter transforms samples, weights or quantiles"
		}
	}
	if okE {
		// Quantile returns Duration(estimator.Get(nth)) with nth the parameter
		okQ := false
		eachInstr(quant, func(i ssa.Instruction) {
			if r, ok := i.(*ssa.Return); ok {
				if cv, ok := r.Results[0].(*ssa.Convert); ok {
					if call, ok := cv.X.(*ssa.Call); ok && call.Call.IsInvoke() && call.Call.Method.Name() == "Get" && call.Call.Args[0] == ssa.Value(quant.Params[1]) {
						okQ = true
					}
				}
			}
		})
		if !okQ {
			okE, whyE = false, "Quantile does not return estimator.Get(nth) for its parameter"
		}
	}
	site := c.fnAt(linit)
	if mk != nil {
		site = c.at(mk)
	}
	c.Check(okE, keyE, r4, "t-digest, compression ≥ 100, adapters are identity", whyE, site)
}

// isRangeIndex: v is the induction variable of a counting loop that advances
// by one per iteration: φ[c, φ+1] or (rotated range loops) φ+1 with φ[-1, φ+1].
func isRangeIndex(v ssa.Value) bool {
	check := func(phi *ssa.Phi) bool {
		for _, e := range phi.Edges {
			if bo, ok := e.(*ssa.BinOp); ok && bo.Op == token.ADD && bo.X == ssa.Value(phi) {
				if one, ok := constInt(bo.Y); ok && one == 1 {
					return true
				}
			}
		}
		return false
	}
	switch x := v.(type) {
	case *ssa.Phi:
		return check(x)
	case *ssa.BinOp:
		if phi, ok := x.X.(*ssa.Phi); ok && x.Op == token.ADD {
			if one, ok := constInt(x.Y); ok && one == 1 {
				return check(phi)
			}
		}
	}
	return false
}

// rangeIndexValue: v is exactly the index variable of a counting loop starting
// at 0 — φ[0, φ+1] (classic) or φ+1 with φ[-1, φ+1] (rotated range loop).
func rangeIndexValue(v ssa.Value) bool {
	switch x := v.(type) {
	case *ssa.Phi:
		start, inc := false, false
		for _, e := range x.Edges {
			if z, ok := constInt(e); ok && z == 0 {
				start = true
			}
			if bo, ok := e.(*ssa.BinOp); ok && bo.Op == token.ADD && bo.X == ssa.Value(x) {
				if one, ok := constInt(bo.Y); ok && one == 1 {
					inc = true
				}
			}
		}
		return start && inc
	case *ssa.BinOp:
		phi, ok := x.X.(*ssa.Phi)
		if !ok || x.Op != token.ADD {
			return false
		}
		if one, ok := constInt(x.Y); !ok || one != 1 {
			return false
		}
		start, back := false, false
		for _, e := range phi.Edges {
			if m, ok := constInt(e); ok && m == -1 {
				start = true
			}
			if e == ssa.Value(x) {
				back = true
			}
		}
		return start && back
	}
	return false
}

// floatSliceLiteral evaluates the elements of a package-level `var x = []float64{...}`.
func floatSliceLiteral(c *Ctx, short, name string) ([]float64, string) {
	pk := c.P.Pkg(short)
	if pk == nil {
		return nil, ""
	}
	for _, f := range pk.Syntax {
		for _, d := range f.Decls {
			gd, ok := d.(*ast.GenDecl)
			if !ok {
				continue
			}
			for _, sp := range gd.Specs {
				vs, ok := sp.(*ast.ValueSpec)
				if !ok {
					continue
				}
				for k, id := range vs.Names {
					if id.Name != name || k >= len(vs.Values) {
						continue
					}
					cl, ok := vs.Values[k].(*ast.CompositeLit)
					if !ok {
						return nil, ""
					}
					var out []float64
					for _, e := range cl.Elts {
						tv, ok := pk.TypesInfo.Types[e]
						if !ok || tv.Value == nil {
							return nil, ""
						}
						fl, _ := constant.Float64Val(constant.ToFloat(tv.Value))
						out = append(out, fl)
					}
					return out, c.P.Pos(id.Pos())
				}
			}
		}
	}
	return nil, ""
}

// c11SplitConversion: the HDR rows print the quantile as whole units plus a fraction,
// float64(d/U) + float64(d%U)/K. The value grows with d only when K is U: with another divisor
// the fraction is not below one unit and the column drops each time d crosses a multiple of U.
func c11SplitConversion(c *Ctx, cl *ssa.Function) {
	const rule = "where the HDR reporter splits a duration into whole units and a remainder (d/U, d%U), the remainder is divided by that same U (the printed value is then non-decreasing in d)"
	key := "split-conversion:lib.NewHDRHistogramPlotReporter"
	var sites, bad []ssa.Instruction
	for _, fn := range region(cl) {
		eachInstr(fn, func(i ssa.Instruction) {
			rem, ok := i.(*ssa.BinOp)
			if !ok || rem.Op != token.REM || !isInteger(rem.Type()) {
				return
			}
			for _, r := range refs(rem) {
				cv, isCv := r.(*ssa.Convert)
				if !isCv {
					continue
				}
				for _, r2 := range refs(cv) {
					q, isQ := r2.(*ssa.BinOp)
					if !isQ || q.Op != token.QUO || q.X != ssa.Value(cv) {
						continue
					}
					sites = append(sites, q)
					same := stripConv(q.Y) == stripConv(rem.Y)
					if u, isU := constInt(rem.Y); isU {
						if k, isK := q.Y.(*ssa.Const); isK && k.Value != nil {
							if f, _ := constant.Float64Val(constant.ToFloat(k.Value)); f == float64(u) {
								same = true
							}
						}
					}
					if !same {
						bad = append(bad, q)
					}
				}
			}
		})
	}
	sortInstrs(sites)
	sortInstrs(bad)
	if len(bad) > 0 {
		c.Fail(key, rule, "the remainder of d%U is divided by something other than U: the printed value is not monotone in the latency", c.ats(bad)...)
		return
	}
	if len(sites) == 0 {
		c.Pass(key, rule, "no unit/remainder split in the HDR reporter (nothing to agree)", c.fnAt(cl))
		return
	}
	c.Pass(key, rule, "remainder divided by the unit it was taken by", c.ats(sites)...)
}

// c10EndDefinition: Metrics.End, Wait and Throughput are defined from the end instant of each
// result, Timestamp + Latency. Result.End is that sum on every path: a variant that clamps,
// rounds or special-cases some latencies changes End/Wait/Throughput against their definitions
// while Total, Min and Mean still use the raw latency.
func c10EndDefinition(c *Ctx) {
	const rule = "Result.End returns Timestamp.Add(Latency) of its receiver on every path (the end instant the metrics are defined from)"
	key := "end-definition:(*lib.Result).End"
	fn := c.P.Func("lib", "Result.End")
	if fn == nil {
		c.Undecided(key, rule, "lib.Result.End not found")
		return
	}
	c.Saw("function " + shortFn(fn))
	var rets, bad []ssa.Instruction
	isRecvField := func(v ssa.Value, name string) bool {
		ld, ok := isLoad(v)
		if !ok {
			return false
		}
		fa, ok := ld.X.(*ssa.FieldAddr)
		return ok && fieldName(fa.X.Type(), fa.Field) == name && rootVal(fa.X) == ssa.Value(fn.Params[0])
	}
	eachInstr(fn, func(i ssa.Instruction) {
		r, ok := i.(*ssa.Return)
		if !ok {
			return
		}
		rets = append(rets, r)
		call, isCall := r.Results[0].(*ssa.Call)
		if !isCall || callName(&call.Call) != "(time.Time).Add" || !isRecvField(call.Call.Args[0], "Timestamp") || !isRecvField(call.Call.Args[1], "Latency") {
			bad = append(bad, r)
		}
	})
	if len(bad) > 0 {
		c.Fail(key, rule, "some path of End returns something other than Timestamp.Add(Latency): End, Wait and Throughput leave their definitions for those results", c.ats(bad)...)
		return
	}
	c.Check(len(rets) > 0, key, rule, "Timestamp.Add(Latency)", "End has no return", c.ats(rets)...)
}
