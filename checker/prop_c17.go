package main

import (
	"fmt"
	"go/constant"
	"go/token"
	"go/types"
	"strings"

	"golang.org/x/tools/go/ssa"
)

func init() {
	register(&propSpec{
		ID:    "C17",
		Title: "The plot shows every result exactly once, whatever the arrival order",
		Explanation: "DECIDED (conservation, unit and guard-order rules): reorder-buffer conservation (each add inserts exactly one point into the sequence-keyed buffer under the result's own Seq; each iteration of the release loop looks up the expected sequence number, stops if it is absent, otherwise deletes that key, hands that very point to its time series exactly once and increments the expected sequence number exactly once; so for contiguous sequence numbers every result becomes exactly one point, in any arrival order); time origin (began is set from the result released as sequence 0); unit agreement (the divisor turning Timestamp−began into milliseconds when pushing equals the multiplier turning it back into a Duration when iterating, both 1e6; y is Latency.Seconds()×1000); Plot.data (each series is downsampled with its own length, the plot's configured threshold unmodified and its own iterator; every returned point becomes exactly one row whose column 0 is X and column i+1 is Y of series i; rows are sorted by column 0); Downsample guards (pass-through test threshold ≥ count ∨ threshold = 0 precedes and dominates the threshold < 3 → error test; the first sample is element 0 of the first chunk; the result has capacity threshold; the last fetched element is appended last); the ErrorLabeler splits on Error == \"\". " +
			"NOT DECIDED: LTTB bucket arithmetic (that exactly threshold points come out for every (count, threshold)), subsequence-ness and millisecond rounding are numerical.",
		Assumptions: []string{"sequence numbers per attack are contiguous from 0 (C02)", "tsz series returns what was pushed"},
		MinObs:      5,
		Run:         runC17,
	})
}

func plotField(v ssa.Value, typ, field string) bool {
	ld, ok := isLoad(v)
	if !ok {
		return false
	}
	fa, ok := ld.X.(*ssa.FieldAddr)
	return ok && isNamedType(fa.X.Type(), "lib/plot", typ) && fieldName(fa.X.Type(), fa.Field) == field
}

func runC17(c *Ctx) {
	add := c.P.Func("lib/plot", "labeledSeries.add")
	if add == nil {
		c.Undecided("anchor:lib/plot.labeledSeries.add", "anchors resolve", "labeledSeries.add not found")
		return
	}
	c.Saw("function " + shortFn(add))
	c17Conservation(c, add)
	c17Units(c, add)
	c17Data(c)
	c17Downsample(c)
	c17IterFresh(c)
	c17Threshold(c)
	c17Labeler(c)
}

func c17Conservation(c *Ctx, add *ssa.Function) {
	const rule = "add inserts exactly one point under the result's Seq; the release loop looks up the expected sequence number, breaks if absent, else deletes that key, passes that point to timeSeries.add once and increments the expected number once"
	key := "reorder-conservation:(*lib/plot.labeledSeries).add"
	isBuf := func(v ssa.Value) bool { return plotField(v, "labeledSeries", "buf") }
	isSeq := func(v ssa.Value) bool { return plotField(v, "labeledSeries", "seq") }
	var ins []*ssa.MapUpdate
	var lookups []*ssa.Lookup
	var dels []*ssa.Call
	var adds []*ssa.Call
	var seqStores []*ssa.Store
	// the release loop may live in a helper method of the same package (flush, drain, …)
	eachInstrRegion(add, func(i ssa.Instruction) {
		switch x := i.(type) {
		case *ssa.MapUpdate:
			if isBuf(x.Map) {
				ins = append(ins, x)
			}
		case *ssa.Lookup:
			if isBuf(x.X) {
				lookups = append(lookups, x)
			}
		case *ssa.Call:
			switch callName(&x.Call) {
			case "builtin:delete":
				if isBuf(x.Call.Args[0]) {
					dels = append(dels, x)
				}
			case "(*lib/plot.timeSeries).add":
				adds = append(adds, x)
			}
		case *ssa.Store:
			if fa, ok := x.Addr.(*ssa.FieldAddr); ok && isNamedType(fa.X.Type(), "lib/plot", "labeledSeries") && fieldName(fa.X.Type(), fa.Field) == "seq" {
				seqStores = append(seqStores, x)
			}
		}
	})
	// `for next, ok := buf[seq]; ok; next, ok = buf[seq] {…}`: the lookup is written twice (init and
	// post statement) and the two results merge in φs at the loop head
	var okPhi, ptPhi *ssa.Phi
	var ptSet map[ssa.Value]bool // the looked-up point when it is kept in a local instead of a φ
	if len(lookups) == 2 {
		exts := func(idx int) map[ssa.Value]bool {
			m := map[ssa.Value]bool{}
			for _, lk := range lookups {
				for _, r := range refs(lk) {
					if ex, isEx := r.(*ssa.Extract); isEx && ex.Index == idx {
						m[ex] = true
					}
				}
			}
			return m
		}
		find := func(want map[ssa.Value]bool) *ssa.Phi {
			var out *ssa.Phi
			for v := range want {
				for _, r := range refs(v) {
					if phi, isPhi := r.(*ssa.Phi); isPhi && len(phi.Edges) == len(want) {
						all := true
						for _, e := range phi.Edges {
							if !want[e] {
								all = false
							}
						}
						if all {
							out = phi
						}
					}
				}
			}
			return out
		}
		okPhi, ptPhi = find(exts(1)), find(exts(0))
		ptSet = exts(0)
		if okPhi != nil && (ptPhi == nil || okPhi.Block() == ptPhi.Block()) {
			// the in-loop lookup is the one the rule below reasons about; the initial one feeds the same φs
			inLoop := lookups[1]
			if okPhi.Block().Dominates(lookups[0].Block()) && lookups[0].Block() != okPhi.Block() {
				inLoop = lookups[0]
			}
			other := lookups[0]
			if other == inLoop {
				other = lookups[1]
			}
			if isSeq(other.Index) && other.CommaOk {
				lookups = []*ssa.Lookup{inLoop}
			} else {
				okPhi, ptPhi = nil, nil
			}
		} else {
			okPhi, ptPhi = nil, nil
		}
	}
	if len(ins) != 1 || len(lookups) != 1 || len(dels) != 1 || len(adds) != 1 || len(seqStores) != 1 {
		c.Fail(key, rule, fmt.Sprintf("buffer inserts=%d lookups=%d deletes=%d series adds=%d seq stores=%d; want one each (a different buffering scheme must be re-verified by hand)", len(ins), len(lookups), len(dels), len(adds), len(seqStores)), c.fnAt(add))
		return
	}
	in, lk, del, sa, ss := ins[0], lookups[0], dels[0], adds[0], seqStores[0]
	ok := true
	why := ""
	// the buffer is the same map from construction on: replacing it drops whatever is still waiting
	eachInstrRegion(add, func(i ssa.Instruction) {
		if st, isSt := i.(*ssa.Store); isSt {
			if fa, isFA := st.Addr.(*ssa.FieldAddr); isFA && isNamedType(fa.X.Type(), "lib/plot", "labeledSeries") && fieldName(fa.X.Type(), fa.Field) == "buf" {
				if _, fresh := fa.X.(*ssa.Alloc); !fresh {
					ok, why = false, "the reorder buffer is replaced while points may still be waiting in it ("+c.at(st)+"): they are never plotted and the series stalls at the first missing sequence number"
				}
			}
		}
	})
	if in.Parent() != add {
		ok, why = false, "the point is not buffered by add itself"
	}
	if rel := lk.Parent(); ok && rel != add {
		// add must hand over to the release helper after buffering, whenever it does not return "buffered"
		if del.Parent() != rel || sa.Parent() != rel || ss.Parent() != rel {
			ok, why = false, "lookup, delete, add and increment are spread over several functions"
		} else {
			called := false
			eachInstr(add, func(i ssa.Instruction) {
				if ci, isCI := i.(ssa.CallInstruction); isCI && ci.Common().StaticCallee() == rel && instrDominates(in, i) {
					called = true
				}
			})
			if !called {
				ok, why = false, "add never runs the release loop after buffering"
			}
		}
		c.Saw("function " + shortFn(rel))
	}
	// insert: key is r.Seq, unconditional
	if !strings.HasSuffix(describeVal(in.Key), "arg0.Seq") && !flowsFrom(in.Key, func(v ssa.Value) bool { return describeVal(v) == "arg0.Seq" }) {
		ok, why = false, "the point is buffered under something other than the result's sequence number"
	}
	if set := explore(add.Blocks[0].Instrs[0], true, func(i ssa.Instruction) bool { return i == ssa.Instruction(in) }); ok && len(returnsIn(set)) > 0 {
		ok, why = false, "a result can be dropped before it is buffered"
	}
	// lookup/delete keyed by the expected sequence number
	if ok && (!isSeq(lk.Index) || !isSeq(del.Call.Args[1]) || !lk.CommaOk) {
		ok, why = false, "release does not look up and delete exactly the expected sequence number"
	}
	header := loopHeaderOf(lk.Block())
	if okPhi != nil {
		header = okPhi.Block()
	}
	if ok && header == nil {
		ok, why = false, "release is not a loop"
	}
	if ok {
		// ok flag controls: absent → leave the loop
		var okEx ssa.Value
		for _, r := range refs(lk) {
			if ex, isEx := r.(*ssa.Extract); isEx && ex.Index == 1 {
				okEx = ex
			}
		}
		if okPhi != nil {
			okEx = okPhi
		}
		ifi := trueImpliesIf(okEx)
		if okEx == nil || ifi == nil {
			ok, why = false, "presence of the expected point is not tested"
		} else {
			absent := exploreBlock(ifi.Block().Succs[1], nil)
			if absent[ssa.Instruction(lk)] || absent[ssa.Instruction(sa)] {
				ok, why = false, "the loop continues although the expected point has not arrived (a later point would be released out of order)"
			}
			// present: delete, add, seq++ all must-pass before the next lookup; add error may return
			for _, must := range []ssa.Instruction{del, sa, ss} {
				set := exploreBlock(ifi.Block().Succs[0], func(i ssa.Instruction) bool { return i == must })
				if set[ssa.Instruction(lk)] {
					ok, why = false, "an iteration can complete without "+map[ssa.Instruction]string{del: "deleting the released key (the point would be released again)", sa: "adding the point to its series", ss: "advancing the expected sequence number"}[must]
				}
			}
			if !instrDominates(del, sa) && !instrDominates(sa, del) {
				ok, why = false, "delete and add are on different paths"
			}
		}
	}
	if ok {
		// the point added is the one looked up: receiver and value come from the looked-up point
		var pt ssa.Value
		for _, r := range refs(lk) {
			if ex, isEx := r.(*ssa.Extract); isEx && ex.Index == 0 {
				pt = ex
			}
		}
		if ptPhi != nil {
			pt = ptPhi
		}
		from := func(v ssa.Value) bool {
			return flowsFrom(v, func(x ssa.Value) bool { return x == pt || okPhi != nil && ptPhi == nil && ptSet[x] })
		}
		if pt == nil || !from(sa.Call.Args[0]) || !from(sa.Call.Args[1]) || !from(sa.Call.Args[2]) {
			ok, why = false, "what is added to the series is not the point released from the buffer"
		}
	}
	if ok {
		bo, isBo := ss.Val.(*ssa.BinOp)
		one := int64(0)
		if isBo {
			one, _ = constInt(bo.Y)
		}
		if !isBo || bo.Op != token.ADD || one != 1 || !isSeq(bo.X) || loopHeaderOf(ss.Block()) != header {
			ok, why = false, "the expected sequence number is not incremented by one inside the release loop"
		}
	}
	c.Check(ok, key, rule, "insert(Seq) · lookup(expected) · delete · add · expected++", why, c.at(in), c.at(lk), c.at(del), c.at(sa), c.at(ss))

	// began
	const rB = "the time origin is the timestamp of the result released as sequence number 0"
	okB := false
	eachInstr(add, func(i ssa.Instruction) {
		if st, isSt := i.(*ssa.Store); isSt {
			if fa, isFA := st.Addr.(*ssa.FieldAddr); isFA && fieldName(fa.X.Type(), fa.Field) == "began" && isNamedType(fa.X.Type(), "lib/plot", "labeledSeries") {
				if describeVal(st.Val) == "arg0.Timestamp" {
					seq0, isExpected := false, false
					for _, f := range factsAt(st.Block()) {
						bo, isBo := f.Cond.(*ssa.BinOp)
						if !isBo {
							continue
						}
						// the zero test may be made on the expected number or on the arriving one (they are equal here)
						if z, isZ := constInt(bo.Y); isZ && z == 0 && bo.Op == token.EQL && f.Val && (isSeq(bo.X) || describeVal(bo.X) == "arg0.Seq") {
							seq0 = true
						}
						if bo.Op == token.NEQ && !f.Val && isSeq(bo.Y) || bo.Op == token.EQL && f.Val && isSeq(bo.Y) {
							isExpected = true
						}
					}
					okB = seq0 && isExpected
				}
			}
		}
	})
	c.Check(okB, "time-origin:(*lib/plot.labeledSeries).add", rB, "began = r.Timestamp when Seq == expected == 0", "the time origin is not taken from the first request of the attack", c.fnAt(add))
}

func c17Units(c *Ctx, add *ssa.Function) {
	const rule = "x is pushed as (Timestamp − began) / 1e6 (milliseconds) and read back as Duration(t × 1e6).Seconds(); y is Latency.Seconds() × 1000"
	key := "unit-agreement:lib/plot"
	iter := c.P.Func("lib/plot", "timeSeries.iter")
	if returnedClosure(iter) == nil {
		c.Undecided(key, rule, "timeSeries.iter closure not found")
		return
	}
	c.Saw("function " + shortFn(returnedClosure(iter)))
	var div, mul int64
	eachInstrRegion(add, func(i ssa.Instruction) {
		if bo, ok := i.(*ssa.BinOp); ok && bo.Op == token.QUO {
			if k, isK := constInt(bo.Y); isK {
				if flowsFrom(bo.X, func(v ssa.Value) bool {
					call, isCall := v.(*ssa.Call)
					return isCall && callName(&call.Call) == "(time.Time).Sub"
				}) {
					div = k
				}
			}
		}
	})
	eachInstr(returnedClosure(iter), func(i ssa.Instruction) {
		if bo, ok := i.(*ssa.BinOp); ok && bo.Op == token.MUL {
			if k, isK := constInt(bo.Y); isK {
				for _, r := range refs(bo) {
					if cv, isCv := r.(*ssa.Convert); isCv && isNamedType(cv.Type(), "time", "Duration") {
						for _, rr := range refs(cv) {
							if call, isCall := rr.(*ssa.Call); isCall && callName(&call.Call) == "(time.Duration).Seconds" {
								mul = k
							}
						}
					}
				}
			}
		}
	})
	yOK := false
	eachInstr(add, func(i ssa.Instruction) {
		if bo, ok := i.(*ssa.BinOp); ok && bo.Op == token.MUL {
			if k, isK := bo.Y.(*ssa.Const); isK && k.Value != nil {
				if f, _ := constant.Float64Val(constant.ToFloat(k.Value)); f == 1000 && describeVal(bo.X) == "(time.Duration).Seconds(arg0.Latency)" {
					yOK = true
				}
			}
		}
	})
	c.Check(div == 1000000 && mul == 1000000 && yOK, key, rule, "÷1e6 on push, ×1e6 on read, y = seconds×1000", fmt.Sprintf("push divisor %d, read multiplier %d, y-in-ms=%v", div, mul, yOK), c.fnAt(add), c.fnAt(iter))
}

func c17Data(c *Ctx) {
	const rule = "Plot.data downsamples each series with its own length, the plot's configured threshold (unmodified) and its own iterator; every returned point becomes exactly one row with X in column 0 and Y in column i+1 of series i; rows are sorted by X"
	fn := c.P.Func("lib/plot", "Plot.data")
	key := "plot-rows:(*lib/plot.Plot).data"
	if fn == nil {
		c.Undecided(key, rule, "Plot.data not found")
		return
	}
	c.Saw("function " + shortFn(fn))
	ds := callsNamed(fn, "lib/lttb.Downsample")
	if len(ds) != 1 {
		c.Fail(key, rule, fmt.Sprintf("%d Downsample calls", len(ds)), c.fnAt(fn))
		return
	}
	d := ds[0].(*ssa.Call)
	ok := true
	why := ""
	a0, a1, a2 := d.Call.Args[0], d.Call.Args[1], d.Call.Args[2]
	if !plotField(a0, "timeSeries", "len") {
		ok, why = false, "Downsample is not given the series' own length"
	}
	if ok && !plotField(a1, "Plot", "threshold") {
		ok, why = false, "Downsample is given "+describeVal(a1)+" instead of the plot's configured threshold (a per-plot budget or adjusted value changes which series are reduced)"
	}
	if ok {
		call, isCall := a2.(*ssa.Call)
		if !isCall || callName(&call.Call) != "(*lib/plot.timeSeries).iter" {
			ok, why = false, "Downsample does not read the series' own iterator"
		} else {
			ld, isL := isLoad(a0)
			if isL {
				if fa, isFA := ld.X.(*ssa.FieldAddr); !isFA || fa.X != call.Call.Args[0] {
					ok, why = false, "length and iterator belong to different series"
				}
			}
		}
	}
	if ok && errNotNilIf(d, d) == nil {
		ok, why = false, "a Downsample error (threshold 1 or 2) is ignored"
	}
	// rows
	if ok {
		var rowAppends []*ssa.Call
		eachInstr(fn, func(i ssa.Instruction) {
			if call, isCall := i.(*ssa.Call); isCall && callName(&call.Call) == "builtin:append" {
				if isNamedType(call.Type(), "lib/plot", "dataPoints") {
					rowAppends = append(rowAppends, call)
				}
			}
		})
		if len(rowAppends) != 1 || loopHeaderOf(rowAppends[0].Block()) == nil {
			ok, why = false, fmt.Sprintf("%d row appends; want exactly one, inside the per-point loop", len(rowAppends))
		} else {
			// stores pt[0] = p.X and pt[i+1] = p.Y
			xOK, yOK := false, false
			// the row may be built by a helper (newRow(size, col, x, y)): index and value are
			// followed through the parameters of a helper with a single call site
			fieldOf := func(v ssa.Value) string {
				v = throughParam(c, v)
				if fld, isF := v.(*ssa.Field); isF {
					return fieldName(fld.X.Type(), fld.Field)
				}
				if ld, isL := isLoad(v); isL {
					if fa, isFA := ld.X.(*ssa.FieldAddr); isFA {
						return fieldName(fa.X.Type(), fa.Field)
					}
				}
				return ""
			}
			eachInstrRegion(fn, func(i ssa.Instruction) {
				st, isSt := i.(*ssa.Store)
				if !isSt {
					return
				}
				ia, isIA := st.Addr.(*ssa.IndexAddr)
				if !isIA {
					return
				}
				name := fieldOf(st.Val)
				idx := throughParam(c, ia.Index)
				if z, isZ := constInt(idx); isZ && z == 0 && name == "X" {
					xOK = true
				}
				if bo, isBo := idx.(*ssa.BinOp); isBo && bo.Op == token.ADD && name == "Y" && rangeIndexValue(bo.X) && isConstOne(bo.Y) {
					yOK = true
				}
			})
			if !xOK || !yOK {
				ok, why = false, "a row does not carry X in column 0 and Y in the column of its series"
			}
		}
	}
	if ok {
		ok, why = c17RowBlank(c, fn)
	}
	if ok {
		sorts := callsNamed(fn, "sort.Sort", "sort.Stable")
		if len(sorts) != 1 || loopHeaderOf(sorts[0].Block()) != nil {
			ok, why = false, "rows are not sorted once after all series were added"
		}
		less := c.P.Func("lib/plot", "dataPoints.Less")
		okLess := false
		if less != nil {
			eachInstr(less, func(i ssa.Instruction) {
				if bo, isBo := i.(*ssa.BinOp); isBo && bo.Op == token.LSS {
					okLess = true
					for _, side := range []ssa.Value{bo.X, bo.Y} {
						ld, isL := isLoad(side)
						if !isL {
							okLess = false
							continue
						}
						ia, isIA := ld.X.(*ssa.IndexAddr)
						if z, isZ := constInt(ia.Index); !isIA || !isZ || z != 0 {
							okLess = false
						}
					}
				}
			})
		}
		if ok && !okLess {
			ok, why = false, "rows are not ordered by column 0 (x)"
		}
	}
	c.Check(ok, key, rule, "Downsample(s.len, p.threshold, s.iter()); one row per point; sorted by x", why, c.at(d))
}

// naturalLoop: the blocks of the loops headed by h (h plus everything that reaches one of h's back
// edges without passing through h).
func naturalLoop(h *ssa.BasicBlock) map[*ssa.BasicBlock]bool {
	body := map[*ssa.BasicBlock]bool{h: true}
	var work []*ssa.BasicBlock
	for _, p := range h.Preds {
		if h.Dominates(p) && !body[p] {
			body[p] = true
			work = append(work, p)
		}
	}
	for len(work) > 0 {
		b := work[len(work)-1]
		work = work[:len(work)-1]
		for _, p := range b.Preds {
			if !body[p] {
				body[p] = true
				work = append(work, p)
			}
		}
	}
	return body
}

// countsFrom: v is a loop counter φ(start, v+1) with a constant start of at most max (column 0 always
// receives X, so a fill may begin at 1).
func countsFrom(v ssa.Value, max int64) bool {
	phi, ok := v.(*ssa.Phi)
	if !ok || len(phi.Edges) != 2 {
		return false
	}
	start, inc := false, false
	for _, e := range phi.Edges {
		if z, isK := constInt(e); isK && z >= 0 && z <= max {
			start = true
		}
		if bo, isBo := e.(*ssa.BinOp); isBo && bo.Op == token.ADD && bo.X == ssa.Value(phi) && isConstOne(bo.Y) {
			inc = true
		}
	}
	return start && inc
}

// c17RowBlank: a result is a point of its own series only. Every other cell of its row must be NaN
// (dygraphs draws a gap for NaN and a point for any number, 0 included), so every block of float64
// cells a row is taken from must be filled with NaN completely before a row from it is appended.
func c17RowBlank(c *Ctx, fn *ssa.Function) (bool, string) {
	var app *ssa.Call
	eachInstr(fn, func(i ssa.Instruction) {
		if call, isCall := i.(*ssa.Call); isCall && callName(&call.Call) == "builtin:append" && isNamedType(call.Type(), "lib/plot", "dataPoints") {
			app = call
		}
	})
	if app == nil {
		return false, "no row append"
	}
	elems, known := sliceElems(app.Call.Args[1])
	if !known || len(elems) != 1 {
		return false, "the appended rows cannot be identified"
	}
	// where the row's cells come from
	var blocks []*ssa.MakeSlice
	unknown := ""
	seen := map[ssa.Value]bool{}
	var origin func(v ssa.Value, depth int)
	origin = func(v ssa.Value, depth int) {
		if seen[v] || depth > 12 {
			return
		}
		seen[v] = true
		switch x := v.(type) {
		case *ssa.MakeSlice:
			blocks = append(blocks, x)
		case *ssa.Slice:
			origin(x.X, depth+1)
		case *ssa.Phi:
			for _, e := range x.Edges {
				origin(e, depth+1)
			}
		case *ssa.UnOp:
			// a local spilled to a cell (captured or address-taken): every store into the cell
			if al, isAl := x.X.(*ssa.Alloc); isAl && x.Op == token.MUL {
				for _, r := range refs(al) {
					if st, isSt := r.(*ssa.Store); isSt && st.Addr == ssa.Value(al) {
						origin(st.Val, depth+1)
					}
				}
				return
			}
			unknown = describeVal(v)
		case *ssa.Parameter:
			if arg := uniqueSiteArg(x); arg != nil {
				origin(arg, depth+1)
				return
			}
			unknown = describeVal(v)
		case *ssa.Call:
			g := x.Call.StaticCallee()
			if g == nil && !x.Call.IsInvoke() {
				// a function literal of data itself (`blankRow := func() []float64 {…}`)
				if lit := closureOf(resolveOnceV(x.Call.Value)); lit != nil && lit.Parent() == fn {
					g = lit
				}
			}
			if g != nil && g.Pkg == fn.Pkg && g.Signature.Results().Len() == 1 && len(g.Blocks) > 0 {
				c.Saw("function " + shortFn(g))
				for _, b := range g.Blocks {
					if r, isR := b.Instrs[len(b.Instrs)-1].(*ssa.Return); isR {
						origin(r.Results[0], depth+1)
					}
				}
				return
			}
			unknown = describeVal(v)
		default:
			unknown = describeVal(v)
		}
	}
	origin(elems[0], 0)
	if unknown != "" {
		return false, "a row's cells come from " + unknown + ": cannot show that the cells of the other series are NaN"
	}
	if len(blocks) == 0 {
		return false, "no allocation of the row's cells found"
	}
	isNaN := func(v ssa.Value) bool {
		if call, isCall := v.(*ssa.Call); isCall && callName(&call.Call) == "math.NaN" {
			return true
		}
		if ld, isL := isLoad(v); isL { // `nan` captured or spilled
			cell := ld.X
			if fv, isFV := cell.(*ssa.FreeVar); isFV {
				if b := bindingOf(fv); b != nil {
					cell = b
				}
			}
			if al, isAl := cell.(*ssa.Alloc); isAl {
				n, good := 0, 0
				for _, r := range refs(al) {
					if st, isSt := r.(*ssa.Store); isSt && st.Addr == ssa.Value(al) {
						n++
						if call, isCall := st.Val.(*ssa.Call); isCall && callName(&call.Call) == "math.NaN" {
							good++
						}
					}
				}
				return n > 0 && n == good
			}
		}
		return false
	}
	for _, m := range blocks {
		filled := false
		var visit func(v ssa.Value, depth int)
		visit = func(v ssa.Value, depth int) {
			if filled || depth > 3 {
				return
			}
			for _, r := range refs(v) {
				ia, isIA := r.(*ssa.IndexAddr)
				if !isIA || ia.X != v {
					continue
				}
				for _, rr := range refs(ia) {
					st, isSt := rr.(*ssa.Store)
					if !isSt || st.Addr != ssa.Value(ia) || !isNaN(st.Val) || !(rangeIndexValue(ia.Index) || countsFrom(ia.Index, 1)) {
						continue
					}
					h := loopHeaderOf(st.Block())
					if h == nil {
						continue
					}
					// the loop runs over the whole block: its bound is len of the block
					bounded := false
					for _, b := range h.Parent().Blocks {
						if !naturalLoop(h)[b] {
							continue
						}
						for _, i := range b.Instrs {
							bo, isBo := i.(*ssa.BinOp)
							if !isBo || bo.Op != token.LSS {
								continue
							}
							whole := bo.Y == m.Len
							if call, isCall := bo.Y.(*ssa.Call); isCall && callName(&call.Call) == "builtin:len" && call.Call.Args[0] == v {
								whole = true
							}
							if whole && (bo.X == ia.Index || rangeIndexValue(bo.X)) {
								bounded = true
							}
						}
					}
					if !bounded {
						continue
					}
					// completed before the row is appended: the loop dominates the append and does not contain it
					if h.Dominates(app.Block()) && !naturalLoop(h)[app.Block()] {
						filled = true
					} else if m.Parent() != fn {
						// filled inside the helper that builds the row: complete before the helper returns
						done := true
						for _, b := range m.Parent().Blocks {
							if _, isR := b.Instrs[len(b.Instrs)-1].(*ssa.Return); isR && (!h.Dominates(b) || naturalLoop(h)[b]) {
								done = false
							}
						}
						filled = done
					}
				}
			}
		}
		visit(m, 0)
		if !filled {
			return false, "rows are taken from a block of cells (" + c.at(m) + ") that is not filled with NaN over its whole length before use: a result would show up as a point (at 0) in every other series"
		}
	}
	return true, ""
}

// c17IterFresh: lttb.Downsample keeps the batch of the previous iterator call while it reads the
// next one (the triangle spans three buckets). The series iterator therefore hands out a slice
// allocated in that call, never (a re-slice of) storage that outlives the call.
func c17IterFresh(c *Ctx) {
	const rule = "every batch the series iterator returns is backed by an array allocated in that very call (Downsample still holds the previous batch while it reads the next)"
	iter := c.P.Func("lib/plot", "timeSeries.iter")
	key := "iter-fresh:(*lib/plot.timeSeries).iter"
	if iter == nil {
		c.Undecided(key, rule, "timeSeries.iter not found")
		return
	}
	cl := returnedClosure(iter)
	if cl == nil {
		c.Undecided(key, rule, "iter does not return a function literal", c.fnAt(iter))
		return
	}
	c.Saw("function " + shortFn(cl))
	var bad []ssa.Instruction
	n := 0
	var origin func(v ssa.Value, depth int, seen map[ssa.Value]bool) bool // true = provably allocated in this call
	origin = func(v ssa.Value, depth int, seen map[ssa.Value]bool) bool {
		if depth > 12 {
			return false
		}
		if seen[v] {
			return true // a cycle through the append loop adds nothing new
		}
		seen[v] = true
		switch x := v.(type) {
		case *ssa.Const:
			return x.Value == nil // nil slice: append allocates
		case *ssa.MakeSlice:
			return x.Parent() == cl
		case *ssa.Slice:
			if al, isAl := x.X.(*ssa.Alloc); isAl {
				return al.Parent() == cl // an array literal or local array of this call
			}
			return origin(x.X, depth+1, seen)
		case *ssa.Phi:
			for _, e := range x.Edges {
				if !origin(e, depth+1, seen) {
					return false
				}
			}
			return true
		case *ssa.Call:
			if callName(&x.Call) == "builtin:append" {
				return origin(x.Call.Args[0], depth+1, seen)
			}
			return false
		case *ssa.UnOp:
			if al, isAl := x.X.(*ssa.Alloc); isAl && x.Op == token.MUL && al.Parent() == cl {
				for _, r := range refs(al) {
					if st, isSt := r.(*ssa.Store); isSt && st.Addr == ssa.Value(al) && !origin(st.Val, depth+1, seen) {
						return false
					}
				}
				return true
			}
			return false
		}
		return false
	}
	eachInstr(cl, func(i ssa.Instruction) {
		r, ok := i.(*ssa.Return)
		if !ok || len(r.Results) == 0 {
			return
		}
		if _, isSl := r.Results[0].Type().Underlying().(*types.Slice); !isSl {
			return
		}
		n++
		if !origin(r.Results[0], 0, map[ssa.Value]bool{}) {
			bad = append(bad, r)
		}
	})
	if n == 0 {
		c.Undecided(key, rule, "the iterator returns no slice", c.fnAt(cl))
		return
	}
	c.Check(len(bad) == 0, key, rule, "batches are allocated per call", "a batch may be backed by storage that outlives the call (a reused scratch array): Downsample's previous batch is overwritten while it is still read", c.atsOr(bad, cl)...)
}

func c17Downsample(c *Ctx) {
	const rule = "Downsample: the pass-through test (threshold ≥ count ∨ threshold = 0) comes first and returns the iterator's points unchanged; only then threshold < 3 is rejected; the first sample is element 0 of the first chunk, the result has capacity threshold, and the last element fetched is appended last"
	fn := c.P.Func("lib/lttb", "Downsample")
	key := "downsample-guards:lib/lttb.Downsample"
	if fn == nil {
		c.Undecided(key, rule, "lttb.Downsample not found")
		return
	}
	c.Saw("function " + shortFn(fn))
	count, thr := ssa.Value(fn.Params[0]), ssa.Value(fn.Params[1])
	var geq, zero, lt3 *ssa.BinOp
	eachInstr(fn, func(i ssa.Instruction) {
		bo, ok := i.(*ssa.BinOp)
		if !ok {
			return
		}
		switch {
		case bo.Op == token.GEQ && bo.X == thr && bo.Y == count, bo.Op == token.LEQ && bo.X == count && bo.Y == thr:
			geq = bo
		case bo.Op == token.EQL && bo.X == thr:
			if z, isZ := constInt(bo.Y); isZ && z == 0 {
				zero = bo
			}
		case bo.Op == token.LSS && bo.X == thr:
			if k, isK := constInt(bo.Y); isK && k == 3 {
				lt3 = bo
			}
		}
	})
	ok := geq != nil && zero != nil && lt3 != nil
	why := "one of the three guards (threshold >= count, threshold == 0, threshold < 3) is missing"
	if ok {
		ifG, ifZ, if3 := trueImpliesIf(geq), trueImpliesIf(zero), trueImpliesIf(lt3)
		if ifG == nil || ifZ == nil || if3 == nil {
			ok, why = false, "a guard does not control a branch"
		} else {
			if !instrDominates(ifG, if3) || !instrDominates(ifZ, if3) && ifZ != ifG {
				ok, why = false, "threshold < 3 is tested before the pass-through test: a short series with threshold 1 or 2 would be rejected instead of returned unchanged"
			}
			// pass-through returns it(count)
			okPT := false
			for _, r := range returnsIn(exploreBlock(ifG.Block().Succs[0], func(i ssa.Instruction) bool { return i == ssa.Instruction(if3) })) {
				ret := r.(*ssa.Return)
				if ex, isEx := ret.Results[0].(*ssa.Extract); isEx {
					if call, isCall := ex.Tuple.(*ssa.Call); isCall && call.Call.Value == ssa.Value(fn.Params[2]) && call.Call.Args[0] == count {
						okPT = true
					}
				}
			}
			if !okPT {
				ok, why = false, "the pass-through case does not return all `count` points of the iterator unchanged"
			}
			// < 3 returns an error
			for _, r := range returnsIn(exploreBlock(if3.Block().Succs[0], nil)) {
				if k, isC := r.(*ssa.Return).Results[1].(*ssa.Const); isC && k.Value == nil {
					ok, why = false, "threshold 1 or 2 on a longer series is not rejected"
				}
			}
		}
	}
	if ok {
		// capacity = threshold
		okCap := false
		eachInstr(fn, func(i ssa.Instruction) {
			if mk, isMk := i.(*ssa.MakeSlice); isMk && mk.Cap == thr {
				okCap = true
			}
		})
		if !okCap {
			ok, why = false, "the sample slice is not sized to threshold"
		}
	}
	c.Check(ok, key, rule, "pass-through first; <3 rejected after; capacity threshold", why, c.fnAt(fn))

	// every sample is an element of what the iterator produced (never a synthesised point)
	const rMem = "every point Downsample appends to its result is an element of a slice obtained from the iterator (directly, or picked by sample(), which returns an element of its `current` argument): the output is made of input points only"
	keyM := "lttb-members:lib/lttb.Downsample"
	smp := c.P.Func("lib/lttb", "sample")
	okM, whyM := smp != nil, "lttb.sample not found"
	fromIter := func(v ssa.Value) bool {
		return flowsFrom(v, func(x ssa.Value) bool {
			ex, isEx := x.(*ssa.Extract)
			if !isEx || ex.Index != 0 {
				return false
			}
			call, isCall := ex.Tuple.(*ssa.Call)
			return isCall && call.Call.Value == ssa.Value(fn.Params[2])
		})
	}
	nApp := 0
	if okM {
		eachInstr(fn, func(i ssa.Instruction) {
			call, isCall := i.(*ssa.Call)
			if !isCall || callName(&call.Call) != "builtin:append" {
				return
			}
			el, isEl := sliceElems(call.Call.Args[1])
			if !isEl || len(el) != 1 {
				okM, whyM = false, "an append with unknown elements"
				return
			}
			nApp++
			e := el[0]
			if sc, isS := e.(*ssa.Call); isS && sc.Call.StaticCallee() == smp {
				if !fromIter(sc.Call.Args[1]) {
					okM, whyM = false, "sample() does not pick from the iterator's current bucket"
				}
				return
			}
			ld, isL := isLoad(e)
			if !isL {
				okM, whyM = false, "a synthesised point is appended"
				return
			}
			ia, isIA := ld.X.(*ssa.IndexAddr)
			if !isIA || !fromIter(ia.X) {
				okM, whyM = false, "an appended point does not come from the iterator"
			}
		})
		// sample returns current[index]
		okS := false
		eachInstr(smp, func(i ssa.Instruction) {
			if r, isR := i.(*ssa.Return); isR {
				if ld, isL := isLoad(r.Results[0]); isL {
					if ia, isIA := ld.X.(*ssa.IndexAddr); isIA && ia.X == ssa.Value(smp.Params[1]) {
						okS = true
					}
				}
			}
		})
		if !okS {
			okM, whyM = false, "sample() does not return an element of its current bucket"
		}
		if nApp < 3 {
			okM, whyM = false, "first / bucket / last samples are not all appended"
		}
	}
	c.Check(okM, keyM, rMem, "first, per-bucket pick and last are all iterator elements", whyM, c.fnAt(fn))
}

func c17Labeler(c *Ctx) {
	const rule = "ErrorLabeler returns OK exactly for an empty Error and ERROR otherwise"
	fn := c.P.Func("lib/plot", "ErrorLabeler")
	key := "labeler:lib/plot.ErrorLabeler"
	if fn == nil {
		c.Undecided(key, rule, "ErrorLabeler not found")
		return
	}
	ok := false
	eachInstr(fn, func(i ssa.Instruction) {
		if bo, isBo := i.(*ssa.BinOp); isBo && bo.Op == token.EQL && describeVal(bo.X) == "arg0.Error" {
			if s, isS := constString(bo.Y); isS && s == "" {
				if ifi := trueImpliesIf(bo); ifi != nil {
					t, f := "", ""
					for _, r := range returnsIn(exploreBlock(ifi.Block().Succs[0], nil)) {
						t, _ = constString(r.(*ssa.Return).Results[0])
					}
					for _, r := range returnsIn(exploreBlock(ifi.Block().Succs[1], nil)) {
						f, _ = constString(r.(*ssa.Return).Results[0])
					}
					ok = t == "OK" && f == "ERROR"
				}
			}
		}
	})
	c.Check(ok, key, rule, "\"\" → OK, else ERROR", "the OK/ERROR split is not on Error == \"\"", c.fnAt(fn))
}

func isConstOne(v ssa.Value) bool {
	one, ok := constInt(v)
	return ok && one == 1
}

// c17Threshold: threshold 0 means "plot every point". Plot.threshold therefore holds exactly what
// the Downsample option was given; a constructor that fills in a default when it finds 0 makes
// "not given" and "explicitly 0" the same thing and reduces series that were to stay whole.
func c17Threshold(c *Ctx) {
	const rule = "Plot.threshold is written only from an option parameter as given (0 keeps meaning: no downsampling); no constructor or method replaces it by a default or an adjusted value"
	key := "threshold-provenance:lib/plot.Plot.threshold"
	var good, bad []ssa.Instruction
	for _, fn := range c.P.RepoFuncs("lib/plot") {
		eachInstr(fn, func(i ssa.Instruction) {
			st, isSt := i.(*ssa.Store)
			if !isSt {
				return
			}
			fa, isFA := st.Addr.(*ssa.FieldAddr)
			if !isFA || !isNamedType(fa.X.Type(), "lib/plot", "Plot") || fieldName(fa.X.Type(), fa.Field) != "threshold" {
				return
			}
			v := st.Val
			if fv, isFV := v.(*ssa.FreeVar); isFV {
				v = bindingOf(fv)
			}
			if ld, isLd := isLoad(v); isLd {
				// a captured parameter lives in a cell: its only store is the parameter itself
				cell := ld.X
				if fv, isFV := cell.(*ssa.FreeVar); isFV {
					cell = bindingOf(fv)
				}
				if al, isAl := cell.(*ssa.Alloc); isAl {
					var only ssa.Value
					n := 0
					for _, g := range withAnon(al.Parent()) {
						eachInstr(g, func(j ssa.Instruction) {
							if s2, isS2 := j.(*ssa.Store); isS2 && rootCell(s2.Addr) == ssa.Value(al) {
								n++
								only = s2.Val
							}
						})
					}
					if n == 1 {
						v = only
					}
				}
			}
			if _, isP := v.(*ssa.Parameter); isP {
				good = append(good, st)
			} else {
				bad = append(bad, st)
			}
		})
	}
	sortInstrs(good)
	sortInstrs(bad)
	if len(bad) > 0 {
		c.Fail(key, rule, "Plot.threshold is stored from something other than an option parameter (a default or adjusted value: threshold 0 no longer leaves the series whole)", c.ats(bad)...)
		return
	}
	c.Check(len(good) > 0, key, rule, "every store to Plot.threshold stores an option parameter unmodified", "no store to Plot.threshold found", c.ats(good)...)
}
