package main

import (
	"encoding/json"
	"fmt"
	"go/constant"
	"go/token"
	"go/types"
	"os"
	"path/filepath"
	"sort"
	"strings"

	"golang.org/x/tools/go/ssa"
)

func init() {
	register(&propSpec{
		ID:    "C14",
		Title: "Target files decode to exactly the targets they describe, independently",
		Explanation: "DECIDED (borrow/alias, dominance and table rules): defaults-borrowed (in both targeter closures the value slices of the default header map and the default body are borrowed: nothing derived from them is the first operand of append, stored through, sorted, or reachable through the target's header map by a later append on the same key; copies clear the taint) — this is 'decoding a later target never changes an earlier one nor the defaults' for all inputs and spare capacities; merge-order (default header values are written before the target's own on every path; the default body is set first and overwritten only when the target brings its own); header-case (C06 who-may-call rule on the parsers); target JSON codec (encoder keys = decoder cases = Target's tags, inverse copying method pairs, omitempty guards only on tagged fields, every field handled by encoder, decoder and Target.Equal; method and url checks dominate the success return); exhaustion (ErrNoTargets exactly on the end-of-input edges; ReadAllTargets uses a fresh Target per call, keeps every decoded target and stops only on ErrNoTargets). " +
			"NOT DECIDED: that the http line grammar (peeked lines, comments, blank lines) as a whole maps every well-formed document to the described targets — a language-level behavioural claim; only the necessary conditions listed under ALSO DECIDED (a body line ends the block, a comment never hides the next request line) are decided.",
		Assumptions: []string{"append with sufficient spare capacity writes in place (Go slice semantics)"},
		MinObs:      20,
		Run:         runC14,
	})
	register(&propSpec{
		ID:    "C15",
		Title: "Targeters hand out each target exactly once under concurrent use",
		Explanation: "DECIDED (lockset over captured state, all schedules): for every constructor in lib returning a Targeter built from a function literal, every captured variable that the closure (or an in-package helper it calls) writes, or on which it calls a method of a not-goroutine-safe type (*bufio.Reader, *bufio.Scanner, peekingScanner), is accessed only while a captured sync.Mutex is held (explicit Unlock on all paths or deferred) or through sync/atomic; read-only captures have no store; no buffer alias escapes the lock (line data comes from copying APIs ReadBytes/ReadString/Scanner.Text, never ReadSlice/ReadLine/Peek/Scanner.Bytes); the static targeter advances its counter with exactly one atomic read-modify-write per call and indexes with that call's result modulo len of the same slice, copying the Target value. " +
			"no-shared-defaults (C14's borrow analysis, also through variadic merge helpers): no target handed out aliases the default header value slices or the default body, so concurrent callers never append into one backing array; the static rotation counts atomic operations over the closure and the cursor helpers it calls. " +
			"NOT DECIDED: the multiset equality itself (implied by these plus C14); race-detector runs are another family.",
		Assumptions: []string{"sync.Mutex and sync/atomic semantics"},
		MinObs:      7,
		Run:         runC15,
	})
}

// targeterClosures returns (constructor, closure) for every function in lib
// whose result type is lib.Targeter and that returns a function literal.
func targeterClosures(c *Ctx) [][2]*ssa.Function {
	var out [][2]*ssa.Function
	for _, fn := range c.P.RepoFuncs("lib") {
		if fn.Parent() != nil || fn.Signature.Results().Len() != 1 || !isNamedType(fn.Signature.Results().At(0).Type(), "lib", "Targeter") {
			continue
		}
		eachInstr(fn, func(i ssa.Instruction) {
			if r, ok := i.(*ssa.Return); ok {
				if cl := closureOf(r.Results[0]); cl != nil && cl.Parent() == fn {
					out = append(out, [2]*ssa.Function{fn, cl})
				}
			}
		})
	}
	return out
}

// innerTargeter: cl is a thin wrapper `func(tgt) error { mu.Lock(); defer mu.Unlock(); return next(tgt) }`
// around a sibling function literal of the same constructor; returns that literal and the call.
func innerTargeter(cl *ssa.Function) (*ssa.Function, *ssa.Call) {
	var inner *ssa.Function
	var site *ssa.Call
	n := 0
	eachInstr(cl, func(i ssa.Instruction) {
		call, ok := i.(*ssa.Call)
		if !ok || call.Call.IsInvoke() || call.Call.StaticCallee() != nil {
			return
		}
		g := closureOf(resolveOnceV(call.Call.Value))
		if g == nil {
			if ld, isL := isLoad(call.Call.Value); isL {
				if fv, isFV := ld.X.(*ssa.FreeVar); isFV {
					if al, isAl := bindingOf(fv).(*ssa.Alloc); isAl {
						var stored ssa.Value
						ns := 0
						for _, r := range refs(al) {
							if st, isSt := r.(*ssa.Store); isSt && st.Addr == ssa.Value(al) {
								stored = st.Val
								ns++
							}
						}
						if ns == 1 {
							g = closureOf(stored)
						}
					}
				}
			}
		}
		if g == nil || g.Parent() != cl.Parent() || len(call.Call.Args) != len(cl.Params) {
			return
		}
		for k, a := range call.Call.Args {
			if a != ssa.Value(cl.Params[k]) {
				return
			}
		}
		inner, site = g, call
		n++
	})
	if n != 1 {
		return nil, nil
	}
	return inner, site
}

// targeterBody: the function literal holding a targeter's logic (the wrapper's inner literal, if any).
func targeterBody(cl *ssa.Function) *ssa.Function {
	if cl == nil {
		return nil
	}
	if in, _ := innerTargeter(cl); in != nil {
		return in
	}
	return cl
}

// defaultsCell: the free variable of closure cl bound to the constructor's parameter of the given type.
func boundParamCells(ctor, cl *ssa.Function, pred func(types.Type) bool) []*ssa.FreeVar {
	var out []*ssa.FreeVar
	for _, fv := range cl.FreeVars {
		b := bindingOf(fv)
		al, ok := b.(*ssa.Alloc)
		if !ok {
			continue
		}
		for _, r := range refs(al) {
			if st, ok := r.(*ssa.Store); ok && st.Addr == ssa.Value(al) {
				if p, ok := st.Val.(*ssa.Parameter); ok && p.Parent() == ctor && pred(p.Type()) {
					out = append(out, fv)
				}
			}
		}
	}
	return out
}

func runC14(c *Ctx) {
	c14Defaults(c, true)
	c14Rest(c)
}

// c14Defaults: borrow analysis of the default header/body (shared with C15: a target that aliases
// the defaults' backing array is written by every concurrent caller) and, withOrder, the merge order.
func c14Defaults(c *Ctx, withOrder bool) {
	tcs := targeterClosures(c)
	const rBorrow = "the default header value slices and the default body are borrowed: nothing derived from them is appended onto, stored through, sorted, or reachable via the target's header map by a later append; a copy (append onto a fresh/own slice with the defaults as the variadic operand, make+copy, slices.Clone) clears the taint"
	const rOrder = "default header values are written into the target's header before the target's own values on every path; the default body is assigned first and overwritten only under 'the target has its own body'"
	n := 0
	for _, tc := range tcs {
		ctor, cl := tc[0], targeterBody(tc[1])
		hdrCells := boundParamCells(ctor, cl, func(t types.Type) bool { return isNamedType(t, "net/http", "Header") })
		bodyCells := boundParamCells(ctor, cl, func(t types.Type) bool {
			s, ok := t.Underlying().(*types.Slice)
			if !ok {
				return false
			}
			b, ok := s.Elem().Underlying().(*types.Basic)
			return ok && b.Kind() == types.Uint8
		})
		if len(hdrCells) == 0 && len(bodyCells) == 0 {
			continue // no defaults (static targeter)
		}
		n++
		c.Saw("function " + shortFn(cl))
		isDefaultsMap := func(v ssa.Value) bool {
			ld, ok := isLoad(v)
			if !ok {
				return false
			}
			for _, fv := range hdrCells {
				if ld.X == ssa.Value(fv) {
					return true
				}
			}
			return false
		}
		isSource := func(v ssa.Value) bool {
			switch x := v.(type) {
			case *ssa.Extract:
				if nx, ok := x.Tuple.(*ssa.Next); ok && x.Index == 2 {
					if rg, ok := nx.Iter.(*ssa.Range); ok && isDefaultsMap(rg.X) {
						return true
					}
				}
				if lk, ok := x.Tuple.(*ssa.Lookup); ok && x.Index == 0 && isDefaultsMap(lk.X) {
					return true
				}
			case *ssa.Lookup:
				return !x.CommaOk && isDefaultsMap(x.X)
			case *ssa.UnOp:
				if x.Op == token.MUL {
					for _, fv := range bodyCells {
						if x.X == ssa.Value(fv) {
							return true
						}
					}
				}
			}
			return false
		}
		res := analyzeBorrow(cl, isSource, 0)
		for _, fv := range hdrCells {
			key := fmt.Sprintf("borrow:%s:%s", shortFn(cl), fv.Name())
			var mine []borrowSink
			for _, s := range res.Sinks {
				mine = append(mine, s)
			}
			if len(mine) > 0 {
				var sites []string
				for _, s := range mine {
					sites = append(sites, c.at(s.Instr))
				}
				c.Fail(key, rBorrow, mine[0].What+": decoding a later target can change an earlier target or the defaults", sites...)
			} else {
				// the defaults map itself must not be written
				written := false
				var shallow ssa.Instruction
				eachInstr(cl, func(i ssa.Instruction) {
					if mu, ok := i.(*ssa.MapUpdate); ok && isDefaultsMap(mu.Map) {
						written = true
					}
					// maps.Copy(dst, defaults) / maps.Clone(defaults): the copy holds the very value slices of the defaults
					if call, ok := i.(*ssa.Call); ok {
						if n := callName(&call.Call); strings.HasPrefix(n, "maps.Copy") || strings.HasPrefix(n, "maps.Clone") {
							src := call.Call.Args[len(call.Call.Args)-1]
							if strings.HasPrefix(n, "maps.Clone") {
								src = call.Call.Args[0]
							}
							if isDefaultsMap(src) || isDefaultsMap(stripConv(src)) {
								shallow = call
							}
						}
					}
				})
				if shallow != nil {
					c.Fail(key, rBorrow, "the defaults are copied shallowly ("+callName(&shallow.(*ssa.Call).Call)+"): every target's header then holds the default value slices themselves, and a target's own value appended under the same key is written into the array all of them share", c.at(shallow))
					continue
				}
				c.Check(!written, key, rBorrow, fmt.Sprintf("%d values derived from the defaults, none reaches a mutating sink", len(res.Tainted)), "the defaults map itself is written", c.fnAt(cl))
			}
		}

		// merge order: header. A header-write event is a map update on the target's header, or a
		// call of a same-package helper that copies one header map into another.
		type hdrEvent struct {
			at           ssa.Instruction
			fromDefaults bool
			ord          int // position among the sources of one helper call
		}
		var events []hdrEvent
		eachInstr(cl, func(i ssa.Instruction) {
			switch x := i.(type) {
			case *ssa.Store:
				// tgt.Header = cloneOf(defaults): the defaults arrive as a fresh copy
				fa, isFA := x.Addr.(*ssa.FieldAddr)
				if !isFA || !isNamedType(fa.X.Type(), "lib", "Target") || fieldName(fa.X.Type(), fa.Field) != "Header" {
					return
				}
				call, isCall := x.Val.(*ssa.Call)
				if !isCall {
					return
				}
				if callName(&call.Call) == "(net/http.Header).Clone" && isDefaultsMap(call.Call.Args[0]) {
					events = append(events, hdrEvent{x, true, 0})
					return
				}
				h := call.Call.StaticCallee()
				if h == nil || h.Pkg != cl.Pkg || len(h.Blocks) == 0 {
					return
				}
				for k, arg := range call.Call.Args {
					if !isDefaultsMap(arg) || k >= len(h.Params) {
						continue
					}
					events = append(events, hdrEvent{x, true, 0})
					if why, okC := copiesHeaderValues(h, h.Params[k]); !okC {
						c.Fail(fmt.Sprintf("borrow:%s:%s", shortFn(cl), shortFn(h)), rBorrow, why+" (in helper "+shortFn(h)+"): a target's own value appended under one key overwrites the defaults of another", c.fnAt(h))
					}
				}
			case *ssa.MapUpdate:
				if !isNamedType(x.Map.Type(), "net/http", "Header") || isDefaultsMap(x.Map) {
					return
				}
				events = append(events, hdrEvent{x, flowsFrom(x.Value, isSource), 0})
			case *ssa.Call:
				h := x.Call.StaticCallee()
				if h == nil || h.Pkg != cl.Pkg || len(h.Blocks) == 0 {
					return
				}
				// helper(dst, src): writes into its header-typed parameter
				writes := false
				eachInstr(h, func(j ssa.Instruction) {
					if mu, ok := j.(*ssa.MapUpdate); ok {
						if _, isP := mu.Map.(*ssa.Parameter); isP && isNamedType(mu.Map.Type(), "net/http", "Header") {
							writes = true
						}
					}
				})
				if !writes {
					return
				}
				// header-typed source arguments in call order; a variadic `srcs ...http.Header` is unpacked
				type srcArg struct {
					v     ssa.Value
					param *ssa.Parameter
				}
				var srcs []srcArg
				for k, arg := range x.Call.Args {
					if k >= len(h.Params) {
						break
					}
					p := h.Params[k]
					isDst := false
					eachInstr(h, func(j ssa.Instruction) {
						if mu, ok := j.(*ssa.MapUpdate); ok && mu.Map == ssa.Value(p) {
							isDst = true
						}
					})
					if isDst {
						continue
					}
					if isNamedType(arg.Type(), "net/http", "Header") {
						srcs = append(srcs, srcArg{arg, p})
					} else if sl, isSl := arg.Type().Underlying().(*types.Slice); isSl && isNamedType(sl.Elem(), "net/http", "Header") {
						if els, okEl := sliceElems(arg); okEl {
							for _, e := range els {
								srcs = append(srcs, srcArg{e, p})
							}
						}
					}
				}
				fromDef := false
				checked := map[*ssa.Parameter]bool{}
				for _, sa := range srcs {
					if !isDefaultsMap(sa.v) {
						continue
					}
					fromDef = true
					if checked[sa.param] {
						continue
					}
					checked[sa.param] = true
					// the helper must treat what it ranges out of that parameter as borrowed too
					p := sa.param
					fromParam := func(m ssa.Value) bool {
						if m == ssa.Value(p) {
							return true
						}
						if ld, ok := isLoad(m); ok {
							if ia, ok := ld.X.(*ssa.IndexAddr); ok && ia.X == ssa.Value(p) {
								return true // element of the variadic slice
							}
						}
						return false
					}
					sub := analyzeBorrow(h, func(v ssa.Value) bool {
						if ex, ok := v.(*ssa.Extract); ok && ex.Index == 2 {
							if nx, ok := ex.Tuple.(*ssa.Next); ok {
								if rg, ok := nx.Iter.(*ssa.Range); ok && fromParam(rg.X) {
									return true
								}
							}
						}
						if lk, ok := v.(*ssa.Lookup); ok && !lk.CommaOk && fromParam(lk.X) {
							return true
						}
						return false
					}, 1)
					if len(sub.Sinks) > 0 {
						c.Fail(fmt.Sprintf("borrow:%s:%s", shortFn(cl), shortFn(h)), rBorrow, sub.Sinks[0].What+" (in helper "+shortFn(h)+"): decoding a later target can change an earlier target or the defaults", c.at(sub.Sinks[0].Instr))
					}
				}
				if len(srcs) <= 1 {
					events = append(events, hdrEvent{x, fromDef, 0})
				} else {
					for k, sa := range srcs {
						events = append(events, hdrEvent{x, isDefaultsMap(sa.v), k})
					}
				}
			}
		})
		keyO := "merge-order:" + shortFn(cl) + ":header"
		if !withOrder {
			continue
		}
		if len(hdrCells) > 0 {
			nDef, nOwn := 0, 0
			ok := true
			why := ""
			for _, d := range events {
				if d.fromDefaults {
					nDef++
				} else {
					nOwn++
				}
			}
			if nDef == 0 || nOwn == 0 {
				ok, why = false, fmt.Sprintf("%d default-header writes and %d own-header writes found", nDef, nOwn)
			}
			for _, d := range events {
				if !d.fromDefaults {
					continue
				}
				for _, o := range events {
					if o.fromDefaults {
						continue
					}
					dh := loopHeaderOf(d.at.Block())
					if d.at == o.at {
						// one helper call merging several sources in argument order
						if d.ord > o.ord {
							ok, why = false, "the helper call lists the target's own header before the defaults: defaults must come first"
						}
					} else if dh != nil {
						// every path to an own write has finished the defaults loop
						if !dh.Dominates(o.at.Block()) || loopHeaderOf(o.at.Block()) == dh {
							ok, why = false, "the target's own header values can be written before (or interleaved with) the defaults: defaults must come first"
						}
					} else if !instrDominates(d.at, o.at) {
						ok, why = false, "the target's own header values can be written before the defaults: defaults must come first"
					}
				}
			}
			c.Check(ok, keyO, rOrder, "defaults are written before the target's own header values", why, c.fnAt(cl))
		}
		// merge order: body
		if len(bodyCells) > 0 {
			var bodyStores []*ssa.Store
			eachInstr(cl, func(i ssa.Instruction) {
				if st, ok := i.(*ssa.Store); ok {
					if fa, ok := st.Addr.(*ssa.FieldAddr); ok && isNamedType(fa.X.Type(), "lib", "Target") && fieldName(fa.X.Type(), fa.Field) == "Body" {
						if _, isParam := fa.X.(*ssa.Parameter); isParam {
							bodyStores = append(bodyStores, st)
						}
					}
				}
			})
			keyB := "merge-order:" + shortFn(cl) + ":body"
			var def *ssa.Store
			var overrides []*ssa.Store
			for _, st := range bodyStores {
				if isSource(st.Val) {
					def = st
				} else {
					overrides = append(overrides, st)
				}
			}
			ok := def != nil && len(overrides) >= 1
			why := "the default body is never assigned, or a target can never bring its own body"
			for _, o := range overrides {
				if def != nil && !instrDominates(def, o) {
					// accepted: default and own body in the two arms of one test on the target's own body
					arms := false
					for _, fo := range factsAt(o.Block()) {
						for _, fd := range factsAt(def.Block()) {
							if fo.If != nil && fo.If == fd.If && fo.Val != fd.Val && fo.Cond == fd.Cond {
								arms = true
							}
						}
					}
					if !arms {
						ok, why = false, "the target's own body can be overwritten by the default"
					}
				}
				if len(factsAt(o.Block())) == 0 || def != nil && o.Block() == def.Block() {
					ok, why = false, "the default body is replaced unconditionally"
				}
			}
			c.Check(ok, keyB, rOrder, "default first; overridden only when the target has a body", why, c.fnAt(cl))
		}
	}
	if n < 2 {
		c.Fail("borrow:lib.targeters", rBorrow, fmt.Sprintf("only %d targeter closures with defaults found; expected the http and JSON targeters", n))
	}
}

// commentTest recognises `strings.HasPrefix(x, "#")`, `x[0] == '#'`, `x[0] != '#'` and their negations:
// the tested line and whether the condition being true means "is a comment".
func commentTest(v ssa.Value) (subject ssa.Value, whenTrue bool, ok bool) {
	switch x := v.(type) {
	case *ssa.UnOp:
		if x.Op == token.NOT {
			s, w, k := commentTest(x.X)
			return s, !w, k
		}
	case *ssa.Call:
		if callName(&x.Call) == "strings.HasPrefix" && len(x.Call.Args) == 2 {
			if k, isK := x.Call.Args[1].(*ssa.Const); isK && k.Value != nil && k.Value.Kind() == constant.String && constant.StringVal(k.Value) == "#" {
				return x.Call.Args[0], true, true
			}
		}
	case *ssa.BinOp:
		if x.Op != token.EQL && x.Op != token.NEQ {
			return nil, false, false
		}
		for _, pair := range [][2]ssa.Value{{x.X, x.Y}, {x.Y, x.X}} {
			k, isK := constInt(pair[1])
			if !isK || k != '#' {
				continue
			}
			switch e := pair[0].(type) {
			case *ssa.Lookup:
				if z, isZ := constInt(e.Index); isZ && z == 0 {
					return e.X, x.Op == token.EQL, true
				}
			case *ssa.Index: // string indexing
				if z, isZ := constInt(e.Index); isZ && z == 0 {
					return e.X, x.Op == token.EQL, true
				}
			case *ssa.UnOp:
				if ia, isIA := e.X.(*ssa.IndexAddr); isIA && e.Op == token.MUL {
					if z, isZ := constInt(ia.Index); isZ && z == 0 {
						return ia.X, x.Op == token.EQL, true
					}
				}
			}
		}
	}
	return nil, false, false
}

// c14LookaheadComments: "lines starting with # are ignored", also the line looked at to decide whether
// a request line is followed by a header block. Either that decision is taken on a line known not
// to be a comment, or the decision is taken again after every comment skipped inside the block;
// otherwise `GET a / # note / GET b` (no blank line) turns the second request line into a header.
func c14LookaheadComments(c *Ctx) {
	const rule = "the looked-ahead line that decides between 'next target' and 'header block' is not a comment (comments are skipped before the request-line test), or the request-line test is repeated after every comment skipped inside the block: a comment never hides the next request line"
	w := findScanWrap(c)
	if w == nil || w.peek == nil {
		return // reported by lookahead:lib.peekingScanner
	}
	n := 0
	for _, tc := range targeterClosures(c) {
		cl := targeterBody(tc[1])
		withInline(func() {
			isLineSrc := func(v ssa.Value) bool {
				call, ok := v.(*ssa.Call)
				return ok && (call.Call.StaticCallee() == w.peek || (w.text != nil && call.Call.StaticCallee() == w.text))
			}
			isPeek := func(v ssa.Value) bool {
				call, ok := v.(*ssa.Call)
				return ok && call.Call.StaticCallee() == w.peek
			}
			var peeks, preds []*ssa.Call
			eachInstrI(cl, func(i ssa.Instruction) {
				call, ok := i.(*ssa.Call)
				if !ok {
					return
				}
				if isPeek(call) {
					peeks = append(peeks, call)
					return
				}
				// request-line test: a boolean function of the looked-ahead line other than the comment test
				if b, isB := call.Type().Underlying().(*types.Basic); !isB || b.Kind() != types.Bool {
					return
				}
				if _, _, isComment := commentTest(call); isComment {
					return
				}
				for _, a := range call.Call.Args {
					if flowsFrom(a, isPeek) {
						preds = append(preds, call)
						return
					}
				}
			})
			if len(peeks) == 0 {
				return
			}
			n++
			key := "lookahead-skips-comments:" + shortFn(cl)
			c.Saw("function " + shortFn(cl))
			if len(preds) == 0 {
				c.Undecided(key, rule, "no request-line test on the looked-ahead line found", c.ats(instrsOfCalls(peeks))...)
				return
			}
			// (a) the test is made on a line known not to be a comment: leaving aside the branch edges
			// that establish "not a comment" for the tested line (comment test false, line blank),
			// no request-line test is reachable from a lookahead
			known := true
			for _, p := range preds {
				same := func(v ssa.Value) bool {
					for _, a := range p.Call.Args {
						if sameLoadedValue(v, a) {
							return true
						}
					}
					return false
				}
				type edge struct{ from, to *ssa.BasicBlock }
				settles := map[edge]bool{}
				for _, g := range inlinedRegion(c.P, cl) {
					for _, b := range g.Blocks {
						ifi, isIf := b.Instrs[len(b.Instrs)-1].(*ssa.If)
						if !isIf {
							continue
						}
						if subj, whenTrue, ok := commentTest(ifi.Cond); ok && same(subj) {
							if whenTrue {
								settles[edge{b, b.Succs[1]}] = true
							} else {
								settles[edge{b, b.Succs[0]}] = true
							}
							continue
						}
						if bo, isBo := ifi.Cond.(*ssa.BinOp); isBo {
							// blank line: x == "" / len(x) == 0 (true edge), x != "" / len(x) > 0 / len(x) != 0 (false edge)
							k, isK := bo.Y.(*ssa.Const)
							if !isK || k.Value == nil {
								continue
							}
							subj := bo.X
							zero := k.Value.Kind() == constant.String && constant.StringVal(k.Value) == ""
							if lc, isL := bo.X.(*ssa.Call); isL && callName(&lc.Call) == "builtin:len" {
								subj = lc.Call.Args[0]
								zero = k.Value.Kind() == constant.Int && k.Value.ExactString() == "0"
							}
							if !zero || !same(subj) {
								continue
							}
							switch bo.Op {
							case token.EQL:
								settles[edge{b, b.Succs[0]}] = true
							case token.NEQ, token.GTR:
								settles[edge{b, b.Succs[1]}] = true
							}
						}
					}
				}
				for _, pk := range peeks {
					set := exploreWithout(func(from, to *ssa.BasicBlock) bool { return settles[edge{from, to}] }, pk, false, nil)
					if set[p] {
						known = false
					}
				}
			}
			if known {
				c.Pass(key, rule, "comments are skipped before the request-line test", c.ats(instrsOfCalls(preds))...)
				return
			}
			// (b) after every skipped comment the test is made again before a line becomes a header
			isPred := map[ssa.Instruction]bool{}
			for _, p := range preds {
				isPred[p] = true
			}
			var bad []ssa.Instruction
			eachInstrI(cl, func(i ssa.Instruction) {
				ifi, ok := i.(*ssa.If)
				if !ok {
					return
				}
				_, whenTrue, isC := commentTest(ifi.Cond)
				if !isC {
					return
				}
				succ := ifi.Block().Succs[0]
				if !whenTrue {
					succ = ifi.Block().Succs[1]
				}
				set := exploreBlock(succ, func(x ssa.Instruction) bool { return isPred[x] })
				for x := range set {
					mu, isMU := x.(*ssa.MapUpdate)
					if !isMU {
						continue
					}
					if m, isM := mu.Map.Type().Underlying().(*types.Map); !isM || !types.Identical(m.Key(), types.Typ[types.String]) {
						continue
					}
					if flowsFrom(mu.Key, isLineSrc) {
						bad = append(bad, ifi)
						return
					}
				}
			})
			sortInstrs(bad)
			if len(bad) > 0 {
				c.Fail(key, rule, "the request-line test is made on a line that may be a comment, and after a comment is skipped the following line can become a header without that test: `GET a`, `# note`, `GET b` yields one target with a header \"GET http\"", append(c.ats(instrsOfCalls(preds)), c.ats(bad)...)...)
				return
			}
			c.Pass(key, rule, "the request-line test is repeated after every skipped comment", c.ats(instrsOfCalls(preds))...)
		}, cl)
	}
	if n == 0 {
		c.Undecided("lookahead-skips-comments:lib", rule, "no targeter looks ahead")
	}
}

func instrsOfCalls(cs []*ssa.Call) []ssa.Instruction {
	out := make([]ssa.Instruction, len(cs))
	for i, x := range cs {
		out[i] = x
	}
	return out
}

// c14BodyEndsBlock: blank lines are optional, so the line after a target's body reference may be the
// next request line. Once a call has stored the target's own body it therefore must not consume
// another input line it has not looked at first (Peek): the original ends the header block there.
func c14BodyEndsBlock(c *Ctx) {
	const rule = "after a targeter call has stored the target's own (non-default) body it consumes no further input line without having peeked at it: the next line may already be the next target's request line"
	w := findScanWrap(c)
	n := 0
	for _, tc := range targeterClosures(c) {
		cl := targeterBody(tc[1])
		withInline(func() {
			var stores []*ssa.Store
			eachInstrI(cl, func(i ssa.Instruction) {
				st, ok := i.(*ssa.Store)
				if !ok {
					return
				}
				fa, ok := st.Addr.(*ssa.FieldAddr)
				if !ok || !isNamedType(fa.X.Type(), "lib", "Target") || fieldName(fa.X.Type(), fa.Field) != "Body" {
					return
				}
				v := rootVal(st.Val)
				if _, isFV := v.(*ssa.FreeVar); isFV {
					return // the default body
				}
				if ld, isL := isLoad(v); isL {
					if _, isFV := ld.X.(*ssa.FreeVar); isFV {
						return
					}
				}
				if isNilConst(v) {
					return
				}
				stores = append(stores, st)
			})
			consumes := func(i ssa.Instruction) bool {
				call, ok := i.(*ssa.Call)
				if !ok {
					return false
				}
				if w != nil && w.scan != nil && call.Call.StaticCallee() == w.scan {
					return true
				}
				switch callName(&call.Call) {
				case "(*bufio.Scanner).Scan", "(*bufio.Reader).ReadBytes", "(*bufio.Reader).ReadString", "(*bufio.Reader).ReadLine", "(*bufio.Reader).ReadSlice":
					return true
				}
				return false
			}
			for _, st := range stores {
				// only readers of line-oriented input are concerned: a targeter that never scans has nothing to consume
				n++
				key := "body-ends-block:" + shortFn(cl)
				set := explore(st, false, func(i ssa.Instruction) bool {
					call, ok := i.(*ssa.Call)
					return ok && w != nil && w.peek != nil && call.Call.StaticCallee() == w.peek
				})
				var bad []ssa.Instruction
				for i := range set {
					if consumes(i) {
						bad = append(bad, i)
					}
				}
				sortInstrs(bad)
				if len(bad) > 0 {
					c.Fail(key, rule, "after the body is stored the call goes on consuming lines unseen (the header loop is not left): a request line that directly follows the body line is swallowed into this target", append([]string{c.at(st)}, c.ats(bad)...)...)
				} else {
					c.Pass(key, rule, "no unpeeked read reachable after the body store", c.at(st))
				}
			}
		}, cl)
	}
	if n == 0 {
		c.Undecided("body-ends-block:lib", rule, "no store of a target's own body found in any targeter")
	}
}

func c14Rest(c *Ctx) {
	// header case in parsers
	c06HeaderCase(c)
	c14BodyEndsBlock(c)
	c14LookaheadComments(c)
	c14HeaderValuesFresh(c)

	// JSON target codec
	tgt := c.P.Named("lib", "Target")
	if tgt == nil {
		c.Undecided("json-keys:lib.Target", "anchors resolve", "lib.Target not found")
	} else {
		jsonTables(c, "lib.Target", tgt, "jsonTarget", nil)
		// omitempty agreement
		const rOmit = "the encoder omits exactly the fields tagged omitempty, and only when they are empty"
		enc, _, encFn, _ := easyjsonTables(c.P.Pkg("lib"), "jsonTarget")
		_, omit, _ := structJSONTags(tgt)
		okO := encFn != nil
		why := "encoder not found"
		for _, e := range enc {
			hasGuard := strings.Contains(e.Extra, "guard:")
			if omit[e.Field] != hasGuard {
				okO, why = false, fmt.Sprintf("field %s: omitempty=%v but encoder guard=%v", e.Field, omit[e.Field], hasGuard)
			}
			if hasGuard && !strings.Contains(e.Extra, "len(") && !strings.Contains(e.Extra, "!= \"\"") && !strings.Contains(e.Extra, "!= nil") && !strings.Contains(e.Extra, "!= 0") {
				okO, why = false, "unrecognised omitempty guard: "+e.Extra
			}
		}
		pos := "lib/targets_easyjson.go"
		if encFn != nil {
			pos = c.P.Pos(encFn.Pos())
		}
		c.Check(okO, "json-omitempty:lib.Target", rOmit, "guards match tags", why, pos)
		// Equal exhaustiveness
		const rEq = "Target.Equal compares every field of Target"
		eq := equalFields(c, "Target.Equal", "t", "other")
		st := tgt.Underlying().(*types.Struct)
		for k := 0; k < st.NumFields(); k++ {
			f := st.Field(k)
			c.Check(eq[f.Name()], "exhaustive:lib.Target."+f.Name(), rEq, "compared", "Target.Equal ignores "+f.Name(), c.P.Pos(f.Pos()))
		}
	}
	c14Required(c)
	c14Exhaustion(c)
	c14Schema(c)
	c14PeekingScanner(c)
}

// c14Schema: the published JSON schema of a target agrees with the Target type and the targeter's required-field checks.
func c14Schema(c *Ctx) {
	const rule = "lib/target.schema.json (the documented JSON target grammar) lists exactly Target's json keys as properties, requires exactly the fields the JSON targeter rejects when empty (method, url), marks body as base64 and header as an object of string arrays, and allows no additional properties"
	key := "schema-agreement:lib/target.schema.json"
	b, err := os.ReadFile(filepath.Join(c.P.Dir, "lib", "target.schema.json"))
	if err != nil {
		c.Undecided(key, rule, "schema file not found")
		return
	}
	var doc struct {
		Definitions map[string]struct {
			Required             []string                   `json:"required"`
			Properties           map[string]json.RawMessage `json:"properties"`
			AdditionalProperties *bool                      `json:"additionalProperties"`
		} `json:"definitions"`
	}
	if err := json.Unmarshal(b, &doc); err != nil {
		c.Undecided(key, rule, "schema does not parse: "+err.Error())
		return
	}
	def, ok := doc.Definitions["Target"]
	if !ok {
		c.Undecided(key, rule, "no Target definition in the schema")
		return
	}
	tgt := c.P.Named("lib", "Target")
	tags, _, order := structJSONTags(tgt)
	var problems []string
	want := map[string]bool{}
	for _, f := range order {
		want[tags[f]] = true
		if _, ok := def.Properties[tags[f]]; !ok {
			problems = append(problems, "schema lacks property "+tags[f])
		}
	}
	for k := range def.Properties {
		if !want[k] {
			problems = append(problems, "schema has property "+k+" that Target does not have")
		}
	}
	req := append([]string{}, def.Required...)
	sort.Strings(req)
	if strings.Join(req, ",") != "method,url" {
		problems = append(problems, "schema requires "+strings.Join(req, ",")+"; the targeter requires method,url")
	}
	if body, ok := def.Properties["body"]; ok && !strings.Contains(string(body), "base64") {
		problems = append(problems, "schema does not mark body as base64")
	}
	if hdr, ok := def.Properties["header"]; ok && !(strings.Contains(string(hdr), "\"array\"") && strings.Contains(string(hdr), "\"string\"")) {
		problems = append(problems, "schema does not describe header as arrays of strings")
	}
	if def.AdditionalProperties == nil || *def.AdditionalProperties {
		problems = append(problems, "schema allows additional properties but the decoder silently skips them")
	}
	sort.Strings(problems)
	c.Check(len(problems) == 0, key, rule, fmt.Sprintf("%d properties agree; required method,url", len(def.Properties)), strings.Join(problems, "; "), "lib/target.schema.json")
}

// c14Required: the JSON targeter rejects a target without method or url before filling the caller's target.
func c14Required(c *Ctx) {
	const rule = "the JSON targeter returns ErrNoMethod / ErrNoURL for an empty method / url before it writes anything into the caller's Target, and propagates the lexer's error"
	ctor := c.P.Func("lib", "NewJSONTargeter")
	key := "required-fields:lib.NewJSONTargeter"
	if returnedClosure(ctor) == nil {
		c.Undecided(key, rule, "closure not found")
		return
	}
	cl := targeterBody(returnedClosure(ctor))
	var firstWrite ssa.Instruction
	eachInstr(cl, func(i ssa.Instruction) {
		if st, ok := i.(*ssa.Store); ok {
			if fa, ok := st.Addr.(*ssa.FieldAddr); ok && fa.X == ssa.Value(userParam(cl, 0)) {
				if firstWrite == nil || instrDominates(st, firstWrite) {
					firstWrite = st
				}
			}
		}
	})
	if firstWrite == nil {
		c.Fail(key, rule, "the closure never fills the caller's target", c.fnAt(cl))
		return
	}
	need := map[string]string{"Method": "ErrNoMethod", "URL": "ErrNoURL"}
	got := map[string]bool{}
	for _, f := range factsAt(firstWrite.Block()) {
		bo, ok := f.Cond.(*ssa.BinOp)
		if !ok {
			continue
		}
		if s, isS := constString(bo.Y); !isS || s != "" {
			continue
		}
		if !(bo.Op == token.EQL && !f.Val || bo.Op == token.NEQ && f.Val) {
			continue
		}
		ld, isL := isLoad(bo.X)
		if !isL {
			continue
		}
		fa, isFA := ld.X.(*ssa.FieldAddr)
		if !isFA {
			continue
		}
		name := fieldName(fa.X.Type(), fa.Field)
		if want, ok := need[name]; ok {
			// the failing edge returns the documented error
			si := 0
			if bo.Op == token.NEQ {
				si = 1
			}
			for i := range exploreBlock(f.If.Block().Succs[si], nil) {
				if ld, isLd := i.(*ssa.UnOp); isLd {
					if g, isG := ld.X.(*ssa.Global); isG && g.Name() == want {
						got[name] = true
					}
				}
			}
		}
	}
	okLex := false
	eachInstr(cl, func(i ssa.Instruction) {
		if call, isCall := i.(*ssa.Call); isCall && strings.HasSuffix(callName(&call.Call), "jlexer.Lexer).Error") {
			if ifi := errNotNilIf(call, call); ifi != nil && edgeDominates(ifi.Block(), 1, firstWrite.Block()) {
				okLex = true
			}
		}
	})
	c.Check(got["Method"] && got["URL"] && okLex, key, rule, "lexer error, method and url checked before the first write", fmt.Sprintf("checks before the first write: method=%v url=%v lexer-error=%v", got["Method"], got["URL"], okLex), c.at(firstWrite))
}

func c14Exhaustion(c *Ctx) {
	const rule = "ReadAllTargets decodes into a fresh Target per call, keeps every decoded target, stops only on ErrNoTargets and returns any other error; both stream targeters return ErrNoTargets at end of input"
	fn := c.P.Func("lib", "ReadAllTargets")
	key := "exhaustion:lib.ReadAllTargets"
	if fn == nil {
		c.Undecided(key, rule, "ReadAllTargets not found")
		return
	}
	c.Saw("function " + shortFn(fn))
	var call *ssa.Call
	eachInstr(fn, func(i ssa.Instruction) {
		if cl, ok := i.(*ssa.Call); ok && cl.Call.Value == ssa.Value(fn.Params[0]) {
			call = cl
		}
	})
	if call == nil {
		c.Fail(key, rule, "the targeter is never called", c.fnAt(fn))
		return
	}
	ok := true
	why := ""
	al, isAl := call.Call.Args[0].(*ssa.Alloc)
	if !isAl || loopHeaderOf(al.Block()) == nil {
		ok, why = false, "the Target passed to the targeter is reused across calls (header maps and bodies of earlier targets would be shared)"
	}
	// the test that tells exhaustion from failure, in either polarity and wherever it stands
	// (`if err == ErrNoTargets { break } else if err != nil { return nil, err }` in the loop, or
	// `if err != nil { break }` in the loop and `if err != ErrNoTargets { return nil, err }` after it)
	var cmp *ssa.BinOp
	eachInstr(fn, func(i ssa.Instruction) {
		if bo, isBo := i.(*ssa.BinOp); isBo && (bo.Op == token.EQL || bo.Op == token.NEQ) && strings.TrimPrefix(describeVal(bo.Y), "*") == "ErrNoTargets" {
			cmp = bo
		}
	})
	if ok && cmp == nil {
		ok, why = false, "the loop does not stop on ErrNoTargets"
	}
	if ok {
		var ifi *ssa.If
		for _, r := range refs(cmp) {
			if x, isIf := r.(*ssa.If); isIf {
				ifi = x
			}
		}
		var app *ssa.Call
		eachInstr(fn, func(i ssa.Instruction) {
			if cl, isCall := i.(*ssa.Call); isCall && callName(&cl.Call) == "builtin:append" {
				app = cl
			}
		})
		switch {
		case ifi == nil:
			ok, why = false, "ErrNoTargets test does not control the loop"
		case app == nil:
			ok, why = false, "decoded targets are not collected"
		default:
			exhausted, failed := ifi.Block().Succs[0], ifi.Block().Succs[1]
			if cmp.Op == token.NEQ {
				exhausted, failed = failed, exhausted
			}
			if exploreBlock(exhausted, nil)[ssa.Instruction(call)] {
				ok, why = false, "the loop continues after ErrNoTargets"
			}
			// the targeter is called again only after the target just decoded was kept
			if explore(call, false, func(i ssa.Instruction) bool { return i == ssa.Instruction(app) })[ssa.Instruction(call)] {
				ok, why = false, "a decoded target can be skipped (or the loop goes on after an error)"
			}
			// any other error is returned: from the not-exhausted outcome every return before the next append carries an error
			for _, r := range returnsIn(exploreBlock(failed, func(i ssa.Instruction) bool { return i == ssa.Instruction(app) })) {
				res := r.(*ssa.Return).Results
				if len(res) == 2 && isNilConst(res[1]) {
					ok, why = false, "an error other than ErrNoTargets ends ReadAllTargets without being returned"
				}
			}
			if el, isEl := sliceElems(app.Call.Args[1]); !isEl || len(el) != 1 || loadedCell(el[0]) != ssa.Value(al) {
				ok, why = false, "what is appended is not the target just decoded"
			}
		}
	}
	c.Check(ok, key, rule, "fresh target per call; stop on ErrNoTargets only", why, c.at(call))

	// end-of-input edges of the stream targeters
	const rEnd = "end of input is reported as ErrNoTargets"
	for _, tc := range targeterClosures(c) {
		cl := targeterBody(tc[1])
		if shortFn(tc[0]) == "lib.NewStaticTargeter" {
			continue
		}
		keyE := "end-of-input:" + shortFn(cl)
		found := false
		eachInstr(cl, func(i ssa.Instruction) {
			switch x := i.(type) {
			case *ssa.BinOp:
				// err == io.EOF → ErrNoTargets
				if x.Op == token.EQL && strings.TrimPrefix(describeVal(x.Y), "*") == "EOF" {
					if ifi := trueImpliesIf(x); ifi != nil {
						for _, ins := range ifi.Block().Succs[0].Instrs {
							if ld, ok := ins.(*ssa.UnOp); ok && strings.TrimPrefix(describeVal(ld), "*") == "ErrNoTargets" {
								found = true
							}
						}
					}
				}
			case *ssa.Call:
				// !sc.Scan() → return ErrNoTargets
				if w := findScanWrap(c); w != nil && w.scan != nil && x.Call.StaticCallee() == w.scan {
					if ifi := falseImpliesIf(x); ifi != nil {
						set := exploreBlock(ifi.Block().Succs[1], nil)
						for j := range set {
							if st, ok := j.(*ssa.Store); ok && strings.TrimPrefix(describeVal(st.Val), "*") == "ErrNoTargets" {
								found = true
							}
							if r, ok := j.(*ssa.Return); ok && strings.TrimPrefix(describeVal(r.Results[0]), "*") == "ErrNoTargets" {
								found = true
							}
						}
					}
				}
			}
		})
		c.Check(found, keyE, rEnd, "EOF → ErrNoTargets", "end of input is not turned into ErrNoTargets", c.fnAt(cl))
	}
}

// ------------------------------------------------------------------ C15

var notGoroutineSafe = []struct{ pkg, name string }{
	{"bufio", "Reader"}, {"bufio", "Scanner"}, {"bufio", "Writer"}, {"bytes", "Buffer"},
	{"encoding/csv", "Reader"}, {"math/rand", "Rand"}, {"encoding/gob", "Decoder"},
}

func isUnsafeType(t types.Type) (string, bool) {
	for _, u := range notGoroutineSafe {
		if isNamedType(t, u.pkg, u.name) {
			return u.pkg + "." + u.name, true
		}
	}
	// a repository struct holding an unsafe type (the lookahead scanner wrapper)
	if p, ok := t.Underlying().(*types.Pointer); ok {
		t = p.Elem()
	}
	if n, ok := t.(*types.Named); ok && n.Obj().Pkg() != nil && strings.HasPrefix(n.Obj().Pkg().Path(), modPath) {
		if st, ok := n.Underlying().(*types.Struct); ok {
			for k := 0; k < st.NumFields(); k++ {
				ft := st.Field(k).Type()
				if p, isP := ft.(*types.Pointer); isP {
					ft = p.Elem()
				}
				for _, u := range notGoroutineSafe {
					if isNamedType(ft, u.pkg, u.name) {
						return n.Obj().Name() + " (holds " + u.pkg + "." + u.name + ")", true
					}
				}
			}
		}
	}
	return "", false
}

// copiesHeaderValues: h builds a new header from its parameter p; every value it stores is a
// slice of its own — freshly allocated per key, or a full-slice expression s[:n:n] of a shared
// array (capacity clipped, the http.Header.Clone idiom). A plain s[:n] of a shared array leaves
// spare capacity that runs into the next key's values.
func copiesHeaderValues(h *ssa.Function, p *ssa.Parameter) (string, bool) {
	why, ok := "", true
	n := 0
	eachInstr(h, func(i ssa.Instruction) {
		mu, isMU := i.(*ssa.MapUpdate)
		if !isMU || !isNamedType(mu.Map.Type(), "net/http", "Header") || mu.Map == ssa.Value(p) {
			return
		}
		n++
		switch v := mu.Value.(type) {
		case *ssa.Slice:
			if v.Max != nil {
				return // capacity clipped
			}
			// a two-index reslice: acceptable only of a slice allocated in this same iteration
			shared := false
			flowsFrom(v.X, func(x ssa.Value) bool {
				if mk, isMk := x.(*ssa.MakeSlice); isMk && loopHeaderOf(mk.Block()) != loopHeaderOf(mu.Block()) {
					shared = true
				}
				return false
			})
			if shared {
				why, ok = "header values are carved out of one shared array without clipping their capacity (s[:n] instead of s[:n:n])", false
			}
		default:
			if flowsFrom(mu.Value, func(x ssa.Value) bool {
				if ex, isEx := x.(*ssa.Extract); isEx && ex.Index == 2 {
					if nx, isNx := ex.Tuple.(*ssa.Next); isNx {
						if rg, isRg := nx.Iter.(*ssa.Range); isRg && rg.X == ssa.Value(p) {
							return true
						}
					}
				}
				return false
			}) && !isFreshSlice(mu.Value) {
				why, ok = "the source's value slices are stored without being copied", false
			}
		}
	})
	if n == 0 {
		return "the helper stores nothing into the header it returns", false
	}
	return why, ok
}

// selfLocking: a method of a repository type that takes a mutex field of its own receiver before
// touching the receiver's not-goroutine-safe fields or storing into it, and holds it for all of them.
func selfLocking(f *ssa.Function) bool {
	if f == nil || len(f.Blocks) == 0 || len(f.Params) == 0 || f.Signature.Recv() == nil {
		return false
	}
	ls := computeLockset(f)
	if len(ls.Locks) == 0 {
		return false
	}
	recv := f.Params[0]
	rooted := func(v ssa.Value) bool {
		for k := 0; k < 10 && v != nil; k++ {
			switch x := v.(type) {
			case *ssa.Parameter:
				return x == recv
			case *ssa.FieldAddr:
				v = x.X
			case *ssa.UnOp:
				v = x.X
			case *ssa.Field:
				v = x.X
			default:
				return false
			}
		}
		return false
	}
	for _, l := range ls.Locks {
		if !rooted(l.(*ssa.Call).Call.Args[0]) {
			return false
		}
		// released on every path (explicitly, or by a deferred Unlock registered right away)
		mu := mutexPath(l.(*ssa.Call).Call.Args[0])
		set := explore(l, false, func(i ssa.Instruction) bool {
			if isCallTo(i, "(*sync.Mutex).Unlock", "(*sync.RWMutex).Unlock") {
				if ci, ok := i.(ssa.CallInstruction); ok && mutexPath(ci.Common().Args[0]) == mu {
					return true
				}
			}
			return false
		})
		if len(returnsIn(set)) > 0 {
			return false
		}
	}
	ok := true
	eachInstr(f, func(i ssa.Instruction) {
		switch x := i.(type) {
		case ssa.CallInstruction:
			cc := x.Common()
			n := callName(cc)
			if lockCalls[n] || unlockCalls[n] {
				return
			}
			var r ssa.Value
			if cc.IsInvoke() {
				r = cc.Value
			} else if len(cc.Args) > 0 && cc.StaticCallee() != nil && cc.StaticCallee().Signature.Recv() != nil {
				r = cc.Args[0]
			}
			if r != nil && rooted(r) {
				if _, unsafe := isUnsafeType(r.Type()); unsafe && len(ls.Held(i)) == 0 {
					ok = false
				}
			}
		case *ssa.Store:
			if rooted(x.Addr) && len(ls.Held(i)) == 0 {
				ok = false
			}
		}
	})
	return ok
}

var aliasingReads = map[string]bool{
	"(*bufio.Reader).ReadSlice": true, "(*bufio.Reader).ReadLine": true, "(*bufio.Reader).Peek": true,
	"(*bufio.Scanner).Bytes": true,
}
var copyingReads = map[string]bool{
	"(*bufio.Reader).ReadBytes": true, "(*bufio.Reader).ReadString": true,
	"(*bufio.Scanner).Text": true, "(*bufio.Scanner).Scan": true, "(*bufio.Scanner).Err": true,
}

// rootedAtFreeVar: the address/value is reached from a captured variable.
func rootedAtFreeVar(v ssa.Value) *ssa.FreeVar {
	for k := 0; k < 12 && v != nil; k++ {
		switch x := v.(type) {
		case *ssa.FreeVar:
			return x
		case *ssa.FieldAddr:
			v = x.X
		case *ssa.Field:
			v = x.X
		case *ssa.IndexAddr:
			v = x.X
		case *ssa.UnOp:
			v = x.X
		case *ssa.ChangeType:
			v = x.X
		default:
			return nil
		}
	}
	return nil
}

func runC15(c *Ctx) {
	const rLock = "captured state that a targeter closure mutates, or on which it calls a method of a not-goroutine-safe type, is touched only while a captured sync.Mutex is held or through sync/atomic"
	const rAlias = "line data is obtained with copying reads (ReadBytes/ReadString/Scanner.Text); ReadSlice/ReadLine/Peek/Scanner.Bytes return views into a buffer that the next caller overwrites"
	tcs := targeterClosures(c)
	if len(tcs) < 3 {
		c.Fail("lockset:lib.targeters", rLock, fmt.Sprintf("only %d targeter constructors found; expected static, JSON and http", len(tcs)))
	}
	for _, tc := range tcs {
		ctor, cl := tc[0], tc[1]
		c.Saw("function " + shortFn(cl))
		ls := computeLockset(cl)
		// a thin locked wrapper around an inner literal: the inner one runs with whatever the wrapper holds at the call
		inner, innerSite := innerTargeter(cl)
		var lsInner *Lockset
		outerHeld := false
		scan := []*ssa.Function{cl}
		if inner != nil {
			lsInner = computeLockset(inner)
			outerHeld = len(ls.Held(innerSite)) > 0
			scan = append(scan, inner)
			c.Saw("function " + shortFn(inner))
		}
		// other function literals of the constructor that the closure calls (`line, ok := next()`):
		// scanned too; they run under whatever every one of their call sites holds, plus their own locks
		litSites := map[*ssa.Function][]*ssa.Call{}
		litLS := map[*ssa.Function]*Lockset{}
		for _, host := range scan {
			eachInstr(host, func(i ssa.Instruction) {
				call, ok := i.(*ssa.Call)
				if !ok || call.Call.IsInvoke() || call.Call.StaticCallee() != nil {
					return
				}
				g := closureOf(resolveOnceV(call.Call.Value))
				if g == nil {
					if ld, isL := isLoad(call.Call.Value); isL {
						if fv, isFV := ld.X.(*ssa.FreeVar); isFV {
							if al, isAl := bindingOf(fv).(*ssa.Alloc); isAl {
								var stored ssa.Value
								ns := 0
								for _, r := range refs(al) {
									if st, isSt := r.(*ssa.Store); isSt && st.Addr == ssa.Value(al) {
										stored = st.Val
										ns++
									}
								}
								if ns == 1 {
									g = closureOf(stored)
								}
							}
						}
					}
				}
				if g == nil || g == inner || g == cl || g.Parent() != cl.Parent() {
					return
				}
				litSites[g] = append(litSites[g], call)
			})
		}
		for g := range litSites {
			litLS[g] = computeLockset(g)
			scan = append(scan, g)
			c.Saw("function " + shortFn(g))
		}
		heldAt := func(i ssa.Instruction) bool {
			if inner != nil && i.Parent() == inner {
				return outerHeld || len(lsInner.Held(i)) > 0
			}
			return len(ls.Held(i)) > 0
		}
		heldAny := func(i ssa.Instruction) bool {
			if g := i.Parent(); litLS[g] != nil {
				if len(litLS[g].Held(i)) > 0 {
					return true
				}
				for _, site := range litSites[g] {
					if !heldAt(site) {
						return false
					}
				}
				return len(litSites[g]) > 0
			}
			return heldAt(i)
		}
		eachInScan := func(f func(ssa.Instruction)) {
			for _, g := range scan {
				eachInstr(g, f)
			}
		}
		// mutex must be a captured variable (shared by all callers), and released on every path
		key := "lockset:" + shortFn(cl)
		var unsafeSites []ssa.Instruction
		var nGuarded int
		var aliasSites []ssa.Instruction
		atomicCells := map[*ssa.FreeVar]int{}
		plainAccess := map[*ssa.FreeVar][]ssa.Instruction{}
		eachInScan(func(i ssa.Instruction) {
			switch x := i.(type) {
			case ssa.CallInstruction:
				cc := x.Common()
				n := callName(cc)
				if atomicKind(cc) != "" && len(cc.Args) > 0 {
					if fv := rootedAtFreeVar(cc.Args[0]); fv != nil {
						atomicCells[fv]++
					}
					return
				}
				if lockCalls[n] || unlockCalls[n] {
					return
				}
				if aliasingReads[n] && !onlyConvertedToString(i) {
					aliasSites = append(aliasSites, i)
				}
				// receiver / first argument rooted at a captured variable of an unsafe type
				var recv ssa.Value
				if cc.IsInvoke() {
					recv = cc.Value
				} else if len(cc.Args) > 0 && cc.StaticCallee() != nil && cc.StaticCallee().Signature.Recv() != nil {
					recv = cc.Args[0]
				}
				if recv == nil {
					return
				}
				fv := rootedAtFreeVar(recv)
				if fv == nil {
					return
				}
				if _, unsafe := isUnsafeType(recv.Type()); unsafe {
					if heldAny(i) || selfLocking(cc.StaticCallee()) {
						nGuarded++
					} else {
						unsafeSites = append(unsafeSites, i)
					}
				}
			case *ssa.Store:
				if fv := rootedAtFreeVar(x.Addr); fv != nil {
					if heldAny(i) {
						nGuarded++
					} else {
						unsafeSites = append(unsafeSites, i)
					}
				}
			case *ssa.MapUpdate:
				if fv := rootedAtFreeVar(x.Map); fv != nil {
					if heldAny(i) {
						nGuarded++
					} else {
						unsafeSites = append(unsafeSites, i)
					}
				}
			case *ssa.UnOp:
				if x.Op == token.MUL {
					if fv, ok := x.X.(*ssa.FreeVar); ok {
						plainAccess[fv] = append(plainAccess[fv], i)
					}
				}
			}
		})
		// helpers called by the closure on captured unsafe state (peekingScanner methods) also must not use aliasing reads
		for _, f := range inPackageCallees(scan) {
			if f == cl || f == inner {
				continue
			}
			eachInstr(f, func(i ssa.Instruction) {
				if aliasingReads[func() string {
					if ci, ok := i.(ssa.CallInstruction); ok {
						return callName(ci.Common())
					}
					return ""
				}()] && !onlyConvertedToString(i) {
					aliasSites = append(aliasSites, i)
				}
			})
		}
		// cells accessed atomically must not also be accessed plainly
		for fv := range atomicCells {
			if len(plainAccess[fv]) > 0 {
				unsafeSites = append(unsafeSites, plainAccess[fv]...)
			}
		}
		// lock released on every path (explicit or deferred), lock is a captured mutex
		okRelease := true
		whyRel := ""
		for _, l := range ls.Locks {
			recv := l.(*ssa.Call).Call.Args[0]
			if rootedAtFreeVar(recv) == nil {
				okRelease, whyRel = false, "the mutex is not shared between callers (not a captured variable)"
			}
			mu := mutexPath(recv)
			deferred := false
			for _, d := range ls.Deferred {
				if mutexPath(d.(*ssa.Defer).Call.Args[0]) == mu {
					deferred = true
				}
			}
			_ = deferred
			{
				set := explore(l, false, func(i ssa.Instruction) bool {
					if isCallTo(i, "(*sync.Mutex).Unlock", "(*sync.RWMutex).Unlock") {
						if ci, ok := i.(ssa.CallInstruction); ok && mutexPath(ci.Common().Args[0]) == mu {
							return true // explicit unlock or the registration of a deferred one
						}
					}
					return false
				})
				if len(returnsIn(set)) > 0 {
					okRelease, whyRel = false, "a path returns with the mutex still locked (every later caller blocks forever)"
				}
			}
		}
		// one target is read in ONE critical section: a second Lock on the same path means the mutex was
		// released in between, and another worker can consume part of this target's lines
		relock := false
		// critical sections entered by the closure: its own Lock calls and calls of literals that lock
		sections := append([]ssa.Instruction(nil), ls.Locks...)
		for g, sites := range litSites {
			if len(litLS[g].Locks) > 0 {
				for _, s := range sites {
					if s.Parent() == cl && !heldAt(s) {
						sections = append(sections, s)
					}
				}
			}
		}
		for _, l := range sections {
			set := explore(l, false, nil)
			for _, l2 := range sections {
				if l2 != l && set[l2] {
					relock = true
				}
			}
			if loopHeaderOf(l.Block()) != nil {
				relock = true
			}
		}
		for g := range litSites {
			nGuarded += len(litLS[g].Locks) // accesses guarded inside the literal count as guarded state
		}
		switch {
		case len(unsafeSites) > 0:
			c.Fail(key, rLock, "shared reader/scanner/counter state is touched without the lock held (two workers can interleave inside it)", c.ats(unsafeSites)...)
		case relock && nGuarded > 1:
			c.Fail(key, rLock, "the lock is taken more than once while one target is read (released and re-acquired, or taken in a loop): between the two critical sections another worker can consume lines that belong to this target", c.ats(sections)...)
		case !okRelease:
			c.Fail(key, rLock, whyRel, c.ats(ls.Locks)...)
		case nGuarded == 0 && len(atomicCells) == 0:
			// nothing mutable is shared: acceptable only if no capture is of an unsafe type
			c.Pass(key, rLock, "no mutable captured state", c.fnAt(cl))
		default:
			c.Pass(key, rLock, fmt.Sprintf("%d guarded accesses, %d atomic cells", nGuarded, len(atomicCells)), c.fnAt(cl))
		}
		c.Check(len(aliasSites) == 0, "no-buffer-alias:"+shortFn(cl), rAlias, "only copying reads", "a buffer-aliasing read is used: the bytes are overwritten when the next caller reads", c.atsOr(aliasSites, cl)...)

		// static rotation
		if len(atomicCells) > 0 || ctor.Name() == "NewStaticTargeter" {
			const rRot = "the static targeter advances its counter with exactly one atomic read-modify-write per call and indexes the target slice with that call's result modulo len of the same slice, copying the Target value"
			keyR := "atomic-rotation:" + shortFn(cl)
			var ops []*ssa.Call
			// the cursor may live in a helper type (rr.next()): count over the closure and what it calls
			eachInstrRegion(cl, func(i ssa.Instruction) {
				if call, ok := isAtomicCall(i); ok {
					ops = append(ops, call)
				}
			})
			ok := len(ops) == 1 && atomicKind(&ops[0].Call) == "add"
			why := fmt.Sprintf("%d atomic operations on the counter per call (load/compare/store sequences are not atomic as a whole): want exactly one atomic Add", len(ops))
			if ok {
				args := ops[0].Call.Args
				if d, isD := constInt(args[len(args)-1]); !isD || d != 1 {
					ok, why = false, "the counter does not advance by one"
				}
			}
			if ok {
				// index = Add result % len(slice); element copied into *tgt
				found := false
				eachInstr(cl, func(i ssa.Instruction) {
					ia, isIA := i.(*ssa.IndexAddr)
					if !isIA {
						return
					}
					direct := false
					if rem, isRem := stripConv(ia.Index).(*ssa.BinOp); isRem && rem.Op == token.REM && stripConv(rem.X) == ssa.Value(ops[0]) {
						direct = lenOf(stripConv(rem.Y), func(v ssa.Value) bool {
							return sameSliceValue(v, ia.X) || loadedCell(v) != nil && loadedCell(v) == loadedCell(ia.X)
						})
					}
					if !direct {
						// helper form: the index is a helper's result that derives from the one Add, reduced by a modulo
						fromAdd, viaRem := false, false
						flowsFrom(ia.Index, func(v ssa.Value) bool {
							if v == ssa.Value(ops[0]) {
								fromAdd = true
							}
							if bo, isBo := v.(*ssa.BinOp); isBo && bo.Op == token.REM {
								viaRem = true
							}
							return false
						})
						if ops[0].Parent() == cl || !fromAdd || !viaRem {
							return
						}
					}
					for _, r := range refs(ia) {
						if ld, isL := r.(*ssa.UnOp); isL {
							for _, rr := range refs(ld) {
								if st, isSt := rr.(*ssa.Store); isSt && st.Addr == ssa.Value(userParam(cl, 0)) {
									found = true
								}
							}
						}
					}
				})
				if !found {
					ok, why = false, "the target handed out is not tgts[counter % len(tgts)] for the counter value this call obtained"
				}
			}
			c.Check(ok, keyR, rRot, "one atomic.Add; index from its result", why, c.atsOr(instrsOf(ops), cl)...)
		}
		_ = ctor
	}
	// exhaustion is reported to every caller: the source stays open (a read after EOF reports EOF
	// again; a read after Close reports "file already closed", which is not ErrNoTargets)
	{
		const rSrc = "a targeter never closes the reader it was given: after the first end of input every later caller must get ErrNoTargets too"
		var closes []ssa.Instruction
		for _, fn := range c.P.RepoFuncs("lib") {
			if fn.Pos().IsValid() && !strings.HasSuffix(c.P.Fset.Position(fn.Pos()).Filename, "targets.go") {
				continue
			}
			eachInstr(fn, func(i ssa.Instruction) {
				if ci, ok := i.(ssa.CallInstruction); ok && ci.Common().IsInvoke() && ci.Common().Method.Name() == "Close" {
					closes = append(closes, i)
				}
			})
		}
		c.Check(len(closes) == 0, "source-stays-open:lib.targeters", rSrc, "no Close call in the targeters", "the targets source is closed by the targeter: callers arriving after exhaustion get a read error instead of ErrNoTargets", c.atsOr(closes, c.P.Func("lib", "NewJSONTargeter"))...)
	}
	// resolver rotation shares the idiom (anchor of C15 and C18)
	c15ResolverRotation(c)
	// no target may alias the shared defaults (C14's borrow rule): concurrent callers would write one backing array
	c14Defaults(c, false)
}

func instrsOf(cs []*ssa.Call) []ssa.Instruction {
	var out []ssa.Instruction
	for _, x := range cs {
		out = append(out, x)
	}
	return out
}

func c15ResolverRotation(c *Ctx) {
	const rule = "(*resolver).address picks addrs[atomic.AddUint64(&idx,1) % len(addrs)] with a single atomic operation"
	fn := c.P.Func("internal/resolver", "resolver.address")
	key := "atomic-rotation:(*internal/resolver.resolver).address"
	if fn == nil {
		c.Undecided(key, rule, "resolver.address not found")
		return
	}
	c.Saw("function " + shortFn(fn))
	var ops []*ssa.Call
	eachInstr(fn, func(i ssa.Instruction) {
		if call, ok := isAtomicCall(i); ok {
			ops = append(ops, call)
		}
	})
	ok := len(ops) == 1 && atomicKind(&ops[0].Call) == "add"
	if ok {
		ok = false
		eachInstr(fn, func(i ssa.Instruction) {
			if ia, isIA := i.(*ssa.IndexAddr); isIA {
				if rem, isRem := stripConv(ia.Index).(*ssa.BinOp); isRem && rem.Op == token.REM && stripConv(rem.X) == ssa.Value(ops[0]) {
					ok = true
				}
			}
		})
	}
	// no plain access to idx
	eachInstr(fn, func(i ssa.Instruction) {
		if fa, isFA := i.(*ssa.FieldAddr); isFA && fieldName(fa.X.Type(), fa.Field) == "idx" {
			for _, r := range refs(fa) {
				if _, isCall := r.(*ssa.Call); !isCall {
					ok = false
				}
			}
		}
	})
	c.Check(ok, key, rule, "single atomic Add", "the resolver rotation is not a single atomic read-modify-write", c.fnAt(fn))
}

// onlyConvertedToString: the byte slice an aliasing read returns is used only
// as the operand of a conversion to string (which copies).
func onlyConvertedToString(i ssa.Instruction) bool {
	call, ok := i.(*ssa.Call)
	if !ok {
		return false
	}
	var vals []ssa.Value
	if _, isTuple := call.Type().(*types.Tuple); isTuple {
		for _, r := range refs(call) {
			if ex, ok := r.(*ssa.Extract); ok && ex.Index == 0 {
				vals = append(vals, ex)
			} else if ex, ok := r.(*ssa.Extract); ok {
				_ = ex
			}
		}
	} else {
		vals = []ssa.Value{call}
	}
	if len(vals) == 0 {
		return false
	}
	for _, v := range vals {
		rs := refs(v)
		if len(rs) == 0 {
			return false
		}
		for _, r := range rs {
			cv, ok := r.(*ssa.Convert)
			if !ok {
				return false
			}
			if b, ok := cv.Type().Underlying().(*types.Basic); !ok || b.Kind() != types.String {
				return false
			}
		}
	}
	return true
}

// scanWrap is the repository's one-line-lookahead wrapper around *bufio.Scanner (today:
// peekingScanner), found by structure: the struct in lib holding a *bufio.Scanner, its string
// field (the lookahead), and its methods classified by which scanner calls they make.
type scanWrap struct {
	named            *types.Named
	scan, text, peek *ssa.Function
	peeked           int
}

func findScanWrap(c *Ctx) *scanWrap {
	pk := c.P.Pkg("lib")
	if pk == nil {
		return nil
	}
	scope := pk.Types.Scope()
	names := scope.Names()
	sort.Strings(names)
	for _, n := range names {
		tn, ok := scope.Lookup(n).(*types.TypeName)
		if !ok || tn.IsAlias() {
			continue
		}
		named, ok := tn.Type().(*types.Named)
		if !ok {
			continue
		}
		st, ok := named.Underlying().(*types.Struct)
		if !ok {
			continue
		}
		hasScanner, strField, nStr := false, -1, 0
		for k := 0; k < st.NumFields(); k++ {
			ft := st.Field(k).Type()
			if p, isP := ft.(*types.Pointer); isP && isNamedType(p.Elem(), "bufio", "Scanner") {
				hasScanner = true
			}
			if b, isB := ft.Underlying().(*types.Basic); isB && b.Kind() == types.String {
				strField = k
				nStr++
			}
		}
		if !hasScanner || nStr != 1 {
			continue
		}
		w := &scanWrap{named: named, peeked: strField}
		for k := 0; k < named.NumMethods(); k++ {
			f := c.P.SSA.FuncValue(named.Method(k))
			if f == nil || len(f.Blocks) == 0 {
				continue
			}
			nScan, nText := len(callsNamed(f, "(*bufio.Scanner).Scan")), len(callsNamed(f, "(*bufio.Scanner).Text"))
			res := f.Signature.Results()
			if res.Len() != 1 {
				continue
			}
			b, isB := res.At(0).Type().Underlying().(*types.Basic)
			switch {
			case isB && b.Kind() == types.Bool && nScan > 0 && nText == 0:
				w.scan = f
			case isB && b.Kind() == types.String && nText > 0 && nScan == 0:
				w.text = f
			case isB && b.Kind() == types.String && nText > 0 && nScan > 0:
				w.peek = f
			}
		}
		return w
	}
	return nil
}

// c14PeekingScanner: the one-line lookahead never loses or repeats a line.
func c14PeekingScanner(c *Ctx) {
	const rule = "peekingScanner: Text() returns the peeked line exactly once (it clears the lookahead on that path) and otherwise the scanner's current line; Scan() advances the underlying scanner only when nothing is peeked; Peek() records what it read"
	key := "lookahead:lib.peekingScanner"
	w := findScanWrap(c)
	if w == nil || w.text == nil || w.scan == nil || w.peek == nil {
		c.Undecided(key, rule, "no lookahead wrapper around *bufio.Scanner with Scan/Text/Peek-like methods found in lib")
		return
	}
	text, scan, peek := w.text, w.scan, w.peek
	isPeekedAddr := func(fa *ssa.FieldAddr) bool {
		t := fa.X.Type()
		if p, ok := t.(*types.Pointer); ok {
			t = p.Elem()
		}
		n, ok := t.(*types.Named)
		return ok && n.Obj() == w.named.Obj() && fa.Field == w.peeked
	}
	for _, f := range []*ssa.Function{text, scan, peek} {
		c.Saw("function " + shortFn(f))
	}
	isPeeked := func(v ssa.Value) bool {
		ld, ok := isLoad(v)
		if !ok {
			return false
		}
		fa, ok := ld.X.(*ssa.FieldAddr)
		return ok && isPeekedAddr(fa)
	}
	// emptyTest returns the blocks entered when the lookahead is empty / non-empty.
	emptyTest := func(fn *ssa.Function) (onEmpty, onPeeked *ssa.BasicBlock) {
		eachInstr(fn, func(i ssa.Instruction) {
			bo, ok := i.(*ssa.BinOp)
			if !ok || (bo.Op != token.EQL && bo.Op != token.NEQ) || !isPeeked(bo.X) {
				return
			}
			if s, isS := constString(bo.Y); !isS || s != "" {
				return
			}
			var ifi *ssa.If
			for _, r := range refs(bo) {
				if x, ok := r.(*ssa.If); ok {
					ifi = x
				}
			}
			if ifi == nil {
				ifi = trueImpliesIf(bo)
			}
			if ifi == nil {
				return
			}
			if bo.Op == token.EQL {
				onEmpty, onPeeked = ifi.Block().Succs[0], ifi.Block().Succs[1]
			} else {
				onEmpty, onPeeked = ifi.Block().Succs[1], ifi.Block().Succs[0]
			}
		})
		return
	}
	ok, why := true, ""
	// Text
	if onEmpty, onPeeked := emptyTest(text); onEmpty == nil {
		ok, why = false, "Text does not test the lookahead"
	} else {
		// empty → returns src.Text()
		okE := false
		for _, r := range returnsIn(exploreBlock(onEmpty, nil)) {
			if call, isCall := r.(*ssa.Return).Results[0].(*ssa.Call); isCall && callName(&call.Call) == "(*bufio.Scanner).Text" {
				okE = true
			}
		}
		// non-empty → clears peeked before returning the old value
		cleared := false
		set := exploreBlock(onPeeked, func(i ssa.Instruction) bool {
			if st, isSt := i.(*ssa.Store); isSt {
				if fa, isFA := st.Addr.(*ssa.FieldAddr); isFA && isPeekedAddr(fa) {
					if s, isS := constString(st.Val); isS && s == "" {
						cleared = true
						return true
					}
				}
			}
			return false
		})
		if len(returnsIn(set)) > 0 || !cleared {
			ok, why = false, "Text returns the peeked line without clearing the lookahead (the line would be delivered twice)"
		}
		if !okE {
			ok, why = false, "with nothing peeked Text does not return the scanner's current line"
		}
	}
	// Scan
	if onEmpty, onPeeked := emptyTest(scan); ok && onEmpty == nil {
		ok, why = false, "Scan does not test the lookahead"
	} else if ok {
		adv := false
		for i := range exploreBlock(onEmpty, nil) {
			if isCallTo(i, "(*bufio.Scanner).Scan") {
				adv = true
			}
		}
		skip := false
		// on the peeked edge the scanner must not be advanced before returning; stop at the join with the empty path
		emptySet := exploreBlock(onEmpty, nil)
		for i := range exploreBlock(onPeeked, func(x ssa.Instruction) bool { return x.Block() != onPeeked && emptySet[x] && false }) {
			if isCallTo(i, "(*bufio.Scanner).Scan") && !(i.Block() == onEmpty || onEmpty.Dominates(i.Block())) {
				skip = true
			}
		}
		if !adv || skip {
			ok, why = false, "Scan advances the underlying scanner while a line is peeked (that line would be lost), or never advances"
		}
	}
	// Peek stores the scanned text
	if ok {
		stored := false
		eachInstr(peek, func(i ssa.Instruction) {
			if st, isSt := i.(*ssa.Store); isSt {
				if fa, isFA := st.Addr.(*ssa.FieldAddr); isFA && isPeekedAddr(fa) {
					if call, isCall := st.Val.(*ssa.Call); isCall && callName(&call.Call) == "(*bufio.Scanner).Text" {
						stored = true
					}
				}
			}
		})
		if !stored {
			ok, why = false, "Peek does not record the line it consumed"
		}
	}
	c.Check(ok, key, rule, "peek recorded, delivered once, no advance while peeked", why, c.fnAt(text), c.fnAt(scan), c.fnAt(peek))
}

// c14HeaderValuesFresh: the JSON target decoder builds one value slice per header name. The slice
// stored under a name must not be carried over from the previous name of the same object (a slice
// variable declared outside the per-name loop and re-sliced to [:0] makes every name share one
// backing array: earlier names end up with the last name's values).
func c14HeaderValuesFresh(c *Ctx) {
	const rule = "in the JSON target decoder the slice stored under a header name is built within that name's iteration (nil, make, literal, appends onto those): it is never a re-slice of, or an append onto, the slice of the previous name"
	key := "header-values-fresh:(*lib.jsonTarget).decode"
	fn := c.P.Func("lib", "jsonTarget.decode")
	if fn == nil {
		c.Undecided(key, rule, "lib.jsonTarget.decode not found")
		return
	}
	c.Saw("function " + shortFn(fn))
	var sites, bad []ssa.Instruction
	for _, g := range region(fn) {
		eachInstr(g, func(i ssa.Instruction) {
			mu, ok := i.(*ssa.MapUpdate)
			if !ok {
				return
			}
			mt, isMap := mu.Map.Type().Underlying().(*types.Map)
			if !isMap {
				return
			}
			if _, isSl := mt.Elem().Underlying().(*types.Slice); !isSl {
				return
			}
			sites = append(sites, mu)
			h := loopHeaderOf(mu.Block())
			if h == nil {
				return
			}
			seen := map[ssa.Value]bool{}
			carried := false
			var walk func(v ssa.Value)
			walk = func(v ssa.Value) {
				if v == nil || seen[v] || carried {
					return
				}
				seen[v] = true
				switch x := v.(type) {
				case *ssa.Phi:
					if x.Block() == h {
						carried = true // value of the previous name's iteration
						return
					}
					for _, e := range x.Edges {
						walk(e)
					}
				case *ssa.Slice:
					walk(x.X)
				case *ssa.ChangeType:
					walk(x.X)
				case *ssa.Call:
					if callName(&x.Call) == "builtin:append" {
						walk(x.Call.Args[0])
					}
				case *ssa.UnOp:
					if al, isAl := x.X.(*ssa.Alloc); isAl && x.Op == token.MUL {
						// a slice variable kept in a cell: declared outside the loop → carried
						if !h.Dominates(al.Block()) || al.Block() == h {
							carried = true
							return
						}
						for _, r := range refs(al) {
							if st, isSt := r.(*ssa.Store); isSt && st.Addr == ssa.Value(al) {
								walk(st.Val)
							}
						}
					}
				}
			}
			walk(mu.Value)
			if carried {
				bad = append(bad, mu)
			}
		})
	}
	sortInstrs(sites)
	sortInstrs(bad)
	if len(bad) > 0 {
		c.Fail(key, rule, "the slice stored under a header name derives from the slice of the previous name: all names of one target share a backing array", c.ats(bad)...)
		return
	}
	c.Check(len(sites) > 0, key, rule, "per-name slices", "no header map update found in the JSON target decoder", c.ats(sites)...)
}
