package main

import (
	"fmt"
	"go/token"
	"go/types"
	"strings"

	"golang.org/x/tools/go/ssa"
)

// attackAnchors resolves the constructs of lib/attack.go that C02–C05 talk
// about through types and SSA structure, never by line.
type attackAnchors struct {
	Attack, Loop, Shutdown, Worker, Hit, HitDefer, Stop *ssa.Function
	Results, Ticks, WG, Workers, Atk                    ssa.Value // cells (Allocs) in Attack
	Pace                                                *ssa.Call
	AtkT                                                *types.Named // the per-attack state type (today: attack)
	Spawns                                              []spawnSite
	Offers                                              []tickOffer
	Shutdown4                                           []shutdownEvent
	ShutdownRegistered                                  bool
	problems                                            []string
}

func resolveAttack(c *Ctx) *attackAnchors {
	a := &attackAnchors{}
	bad := func(f string, args ...any) { a.problems = append(a.problems, fmt.Sprintf(f, args...)) }
	a.Attack = c.P.Func("lib", "Attacker.Attack")
	a.Stop = c.P.Func("lib", "Attacker.Stop")
	if a.Attack == nil || a.Stop == nil {
		bad("(*lib.Attacker).Attack or Stop not found")
		return a
	}
	// results cell: what Attack returns
	eachInstr(a.Attack, func(i ssa.Instruction) {
		if r, ok := i.(*ssa.Return); ok && len(r.Results) == 1 {
			if cell := loadedCell(r.Results[0]); cell != nil {
				a.Results = cell
			} else if mc, ok := strip(r.Results[0]).(*ssa.MakeChan); ok {
				a.Results = mc
			}
		}
		if al, ok := i.(*ssa.Alloc); ok {
			if isNamedType(al.Type(), "sync", "WaitGroup") {
				a.WG = al
			}
		}
	})
	if a.Results == nil {
		bad("cannot identify the results channel returned by Attack")
	}
	if a.WG == nil {
		bad("no sync.WaitGroup local in Attack")
	}
	// loop: the closure started with `go` that invokes Pacer.Pace
	for _, f := range a.Attack.AnonFuncs {
		for _, i := range callsNamed(f, "invoke:lib.Pacer.Pace") {
			if a.Loop != nil && a.Loop != f {
				bad("more than one closure of Attack invokes Pacer.Pace")
			}
			a.Loop = f
			if call, ok := i.(*ssa.Call); ok {
				if a.Pace != nil {
					bad("more than one Pacer.Pace call in the attack loop")
				}
				a.Pace = call
			}
		}
	}
	if a.Loop == nil {
		bad("no closure of Attack invokes Pacer.Pace")
		return a
	}
	// shutdown: the closure deferred by the loop (kept for reporting; the events are what the rules use)
	eachInstr(a.Loop, func(i ssa.Instruction) {
		if d, ok := i.(*ssa.Defer); ok {
			if f := closureOf(d.Call.Value); f != nil && f.Parent() != nil && a.Shutdown == nil {
				a.Shutdown = f
			}
		}
	})
	// worker: callee of go statements (anywhere under Attack) receiving the results channel
	for _, g := range a.workerGos() {
		callee := goCallee(g)
		if a.Worker != nil && a.Worker != callee {
			bad("several different worker functions receive the results channel")
		}
		a.Worker = callee
	}
	if a.Worker == nil {
		bad("no go statement passes the results channel to a worker")
		return a
	}
	// ticks cell: the other channel handed to the worker
	for _, g := range a.workerGos() {
		for _, arg := range g.Call.Args {
			if _, isChan := arg.Type().Underlying().(*types.Chan); !isChan {
				continue
			}
			cell := valueOrCell(arg)
			if cell == a.Results || cell == nil {
				continue
			}
			if a.Ticks != nil && a.Ticks != cell {
				bad("workers are given different tick channels")
			}
			a.Ticks = cell
		}
	}
	if a.Ticks == nil && a.Worker.Parent() != nil {
		// closure worker: the channel it receives from (`for range ticks`)
		eachInstr(a.Worker, func(i ssa.Instruction) {
			if u, ok := i.(*ssa.UnOp); ok && u.Op == token.ARROW {
				if cell := valueOrCell(u.X); cell != nil && cell != a.Results {
					a.Ticks = cell
				}
			}
		})
	}
	if a.Ticks == nil {
		bad("cannot identify the ticks channel")
	}
	// hit: the call whose result the worker sends
	eachInstr(a.Worker, func(i ssa.Instruction) {
		if s, ok := i.(*ssa.Send); ok {
			if call, ok := s.X.(*ssa.Call); ok {
				a.Hit = call.Call.StaticCallee()
			}
		}
	})
	if a.Hit == nil {
		bad("the worker sends no call result")
		return a
	}
	eachInstr(a.Hit, func(i ssa.Instruction) {
		if d, ok := i.(*ssa.Defer); ok {
			if f := closureOf(d.Call.Value); f != nil {
				a.HitDefer = f
			}
		}
	})
	// the per-attack state: the struct (other than the Attacker) that hit receives by pointer
	for k, p := range a.Hit.Params {
		if k == 0 {
			continue
		}
		if pt, ok := p.Type().(*types.Pointer); ok {
			if n, ok := pt.Elem().(*types.Named); ok && n.Obj().Pkg() == a.Hit.Pkg.Pkg {
				if _, isStruct := n.Underlying().(*types.Struct); isStruct {
					a.AtkT = n
				}
			}
		}
	}
	if a.AtkT == nil {
		bad("hit receives no per-attack state object")
		return a
	}
	// atk cell and workers cell in Attack
	eachInstr(a.Attack, func(i ssa.Instruction) {
		if al, ok := i.(*ssa.Alloc); ok {
			if p, ok := al.Type().(*types.Pointer); ok {
				if a.isAtk(p.Elem()) {
					if _, isPtr := p.Elem().(*types.Pointer); isPtr {
						a.Atk = al
					}
				}
			}
		}
	})
	a.Spawns = a.resolveSpawns()
	a.Offers = a.resolveOffers()
	a.Shutdown4, a.ShutdownRegistered = a.resolveShutdown()
	return a
}

// isAtk: t is the per-attack state type or a pointer to it.
func (a *attackAnchors) isAtk(t types.Type) bool {
	if p, ok := t.(*types.Pointer); ok {
		t = p.Elem()
	}
	n, ok := t.(*types.Named)
	return ok && a.AtkT != nil && n.Obj() == a.AtkT.Obj()
}

// atkField: fa addresses the per-attack field playing the given role. Roles are recognised by
// type (the one time.Time field is the start instant, the one string field is the attack name).
func (a *attackAnchors) atkField(fa *ssa.FieldAddr, role string) bool {
	if !a.isAtk(fa.X.Type()) {
		return false
	}
	st := a.AtkT.Underlying().(*types.Struct)
	want := -1
	n := 0
	for k := 0; k < st.NumFields(); k++ {
		ft := st.Field(k).Type()
		match := false
		switch role {
		case "began":
			match = isNamedType(ft, "time", "Time")
		case "name":
			b, isB := ft.Underlying().(*types.Basic)
			match = isB && b.Kind() == types.String
		}
		if match {
			want = k
			n++
		}
	}
	if n != 1 {
		return fieldName(fa.X.Type(), fa.Field) == role
	}
	return fa.Field == want
}

func (a *attackAnchors) ok(c *Ctx, prop string) bool {
	if len(a.problems) > 0 {
		for _, p := range a.problems {
			c.Undecided("anchor:lib.(*Attacker).Attack", "anchors are resolved through types and SSA structure", p)
		}
		return false
	}
	for _, f := range []*ssa.Function{a.Attack, a.Loop, a.Shutdown, a.Worker, a.Hit, a.Stop} {
		if f != nil {
			c.Saw("function " + shortFn(f))
		}
	}
	return true
}

func init() {
	register(&propSpec{
		ID:    "C02",
		Title: "Every started hit yields exactly one result and the attack ends cleanly",
		Explanation: "DECIDED (structural, all interleavings): shutdown-order (close(ticks) → wg.Wait → close(results) → Stop on the single path of the closure deferred by the loop, registered before any exit); close-sites (results/ticks closed exactly once, stopch only inside sync.Once.Do); send-sites (the only send on a *Result channel is in the worker; every `go worker` is preceded by wg.Add(1) on the same WaitGroup with the same channels; the worker defers wg.Done first); one-result-per-tick (after a tick is received the worker cannot loop or exit without exactly one hit call and one send of its result); seq-lockset (every access to attack.seq is in hit under atk.seqmu, one load copied to Result.Seq and one store of load+1); stop-in-select (every send on ticks is a select case alongside a receive on stopch whose case returns); targeter-error→Stop; stop-initiator (Stop returns false or a flag set inside the Once closure that also closes stopch); goroutine-termination idioms for every go statement in lib; CLI pump (every received result is encoded and observed before the next receive; closed channel ends the pump; second signal exits). " +
			"NOT DECIDED: concrete interleavings are not enumerated; 'no goroutine left behind' is reduced to termination idioms under the assumptions that the consumer drains results and that hit returns (HTTP client timeout).",
		Assumptions: []string{"sync.Mutex/WaitGroup/Once and channel semantics of the Go memory model", "the consumer drains the results channel", "http.Client.Do returns (timeout)"},
		MinObs:      18,
		Run:         runC02,
	})
	register(&propSpec{
		ID:    "C03",
		Title: "Requests in flight never exceed max-workers and free capacity is used",
		Explanation: "DECIDED (structural, all schedules): spawn-cap (initial workers are spawned in a counting loop bounded by a cell clamped to min(a.workers,a.maxWorkers); on-demand spawns are dominated by workers < a.maxWorkers on the same counter cell with exactly one increment per spawn and no other write; no other function starts a worker); one-hit-per-worker (C02 one-result-per-tick) ⇒ started-and-unconsumed ≤ maxWorkers; grow-on-demand shape (spawn only in the default arm of a non-blocking select that offered the tick and watched stopch, followed by the blocking select with the same arms); option/flag plumbing (-workers/-max-workers → Workers/MaxWorkers → Attacker.workers/maxWorkers). " +
			"NOT DECIDED: 'starts as soon as one result has been consumed' is scheduler latency; maxWorkers==0 is outside the property's domain.",
		Assumptions: []string{"channel/select semantics", "C02 obligations hold (checked again here where used)"},
		MinObs:      6,
		Run:         runC03,
	})
	register(&propSpec{
		ID:    "C04",
		Title: "The attack loop obeys its pacer and its duration",
		Explanation: "DECIDED (SSA path rules on the one attack loop): exactly one Pacer.Pace call per iteration whose elapsed argument is time.Since(atk.began) evaluated in the same iteration (atk.began written once from time.Now() in the composite literal) and whose hits argument is the loop counter; counter φ is 0 on entry and +1 exactly on the 'sent' outcome of a send on ticks, and every back edge comes from such an outcome; every send on ticks is dominated by time.Sleep(wait) of this iteration's Pace; the duration test `du > 0 && elapsed > du` on the same elapsed value dominates Pace and its true edge returns; the stop result's true edge returns with no send reachable. " +
			"NOT DECIDED: wall-clock facts (time.Sleep sleeps at least wait; time.Since is monotone) are the trusted base.",
		Assumptions: []string{"time.Sleep(d) blocks for at least d", "time.Since on a time with monotonic reading is non-decreasing"},
		MinObs:      6,
		Run:         runC04,
	})
	register(&propSpec{
		ID:    "C05",
		Title: "Sequence order and timestamp order of results agree",
		Explanation: "DECIDED (lockset + dominance, all schedules): the clock read that reaches Result.Timestamp, the load of attack.seq that reaches Result.Seq and the store seq+1 all execute while atk.seqmu is held in ONE critical section (no unlock between them); the timestamp is began.Add(time.Since(began)) on the write-once attack.began (monotonic base, not a fresh wall-clock read); the closure storing Result.Latency = time.Since(Result.Timestamp) is deferred in a block dominating every return after the critical section and is the only store to Latency; Timestamp is stored only inside the critical section, which dominates client.Do; Result.End is Timestamp.Add(Latency). " +
			"NOT DECIDED: nothing behavioural beyond the trusted base (mutex semantics, monotonic clock).",
		Assumptions: []string{"sync.Mutex provides mutual exclusion and happens-before", "time.Since uses the monotonic clock"},
		MinObs:      6,
		Run:         runC05,
	})
}

// ---------------------------------------------------------------- C02

func runC02(c *Ctx) {
	a := resolveAttack(c)
	if !a.ok(c, "C02") {
		return
	}
	c02ShutdownOrder(c, a)
	c02CloseSites(c, a)
	c02SendSites(c, a)
	c02OneResultPerTick(c, a)
	c02SeqLockset(c, a)
	c02StopInSelect(c, a)
	c02TargeterErrorStops(c, a)
	c02StopInitiator(c, a)
	c02Goroutines(c, a)
	c02Pump(c)
	// "the attack ends cleanly" presupposes that what the dispatcher and the workers call comes back:
	// a shipped pacer that panics takes the process down with hits in flight, a shipped targeter that
	// returns with its mutex held blocks every later hit forever (the results channel is never closed).
	// The rules that decide exactly that are C01's (no pacer method can panic) and C15's (the targeters'
	// lock is released on every path); they are obligations of this property too.
	runC01(c)
	runC15(c)
}

func isCloseOf(i ssa.Instruction, cell ssa.Value) bool {
	call, ok := i.(ssa.CallInstruction)
	if !ok || callName(call.Common()) != "builtin:close" || len(call.Common().Args) != 1 {
		return false
	}
	if _, isGo := i.(*ssa.Go); isGo {
		return false
	}
	return valueOrCell(call.Common().Args[0]) == cell
}

func isStopchLoad(v ssa.Value) bool {
	u, ok := isLoad(strip(v))
	if !ok {
		return false
	}
	fa, ok := u.X.(*ssa.FieldAddr)
	if !ok {
		return false
	}
	return fieldName(fa.X.Type(), fa.Field) == "stopch" && isNamedType(fa.X.Type(), "lib", "Attacker")
}

func c02ShutdownOrder(c *Ctx, a *attackAnchors) {
	const rule = "what the attack loop defers executes close(ticks) → wg.Wait() → close(results) → a.Stop(), each exactly once and in this order (one deferred closure, or separate defers in reverse), and is registered before any exit of the loop"
	key := "shutdown-order:" + shortFn(a.Loop)
	names := []string{"close(ticks)", "wg.Wait()", "close(results)", "a.Stop()"}
	var cnt [4]int
	var sites []string
	for _, e := range a.Shutdown4 {
		cnt[e.Kind]++
		sites = append(sites, c.at(e.Instr))
	}
	for k := range cnt {
		if cnt[k] != 1 {
			c.Fail(key, rule, fmt.Sprintf("%s is deferred %d times by the loop, want exactly 1", names[k], cnt[k]), c.fnAt(a.Loop))
			return
		}
	}
	for k, e := range a.Shutdown4 {
		if e.Kind != k {
			c.Fail(key, rule, fmt.Sprintf("shutdown runs %s before %s", names[e.Kind], names[k]), sites...)
			return
		}
	}
	// inside a deferred closure every event is on every path
	for _, e := range a.Shutdown4 {
		fn := e.Instr.Parent()
		if fn == a.Loop {
			continue
		}
		set := explore(fn.Blocks[0].Instrs[0], true, func(i ssa.Instruction) bool { return i == e.Instr })
		if len(returnsIn(set)) > 0 {
			c.Fail(key, rule, names[e.Kind]+" can be skipped on some path of the deferred shutdown", c.at(e.Instr))
			return
		}
	}
	c.Pass(key, rule, "order verified", sites...)

	const rule2 = "the shutdown is deferred in the loop goroutine's entry block, before anything that can return or panic"
	c.Check(a.ShutdownRegistered, "shutdown-registered:"+shortFn(a.Loop), rule2, "deferred first", "the shutdown is not deferred as the first effect of the loop goroutine", c.fnAt(a.Loop))
	// and the loop goroutine is started exactly once by Attack
	n := 0
	var goSite ssa.Instruction
	eachInstr(a.Attack, func(i ssa.Instruction) {
		if g, ok := i.(*ssa.Go); ok && closureOf(resolveOnceV(g.Call.Value)) == a.Loop {
			n++
			goSite = i
		}
	})
	c.Check(n == 1, "loop-started-once:"+shortFn(a.Attack), "Attack starts the loop goroutine exactly once", "one go statement", fmt.Sprintf("%d go statements start the loop", n), c.at(goSiteOr(goSite, a.Attack)))
}

func goSiteOr(i ssa.Instruction, fn *ssa.Function) ssa.Instruction {
	if i != nil {
		return i
	}
	return fn.Blocks[0].Instrs[0]
}

func c02CloseSites(c *Ctx, a *attackAnchors) {
	const rule = "results and ticks are closed at exactly one site (the shutdown closure); stopch is closed only inside a function passed to sync.Once.Do"
	var resultCloses, tickCloses, stopCloses, other []ssa.Instruction
	for _, fn := range c.P.RepoFuncs("lib") {
		eachInstr(fn, func(i ssa.Instruction) {
			call, ok := i.(ssa.CallInstruction)
			if !ok || callName(call.Common()) != "builtin:close" {
				return
			}
			arg := call.Common().Args[0]
			ch, _ := arg.Type().Underlying().(*types.Chan)
			switch {
			case isStopchLoad(arg):
				stopCloses = append(stopCloses, i)
			case ch != nil && isNamedType(ch.Elem(), "lib", "Result"):
				resultCloses = append(resultCloses, i)
			case valueOrCell(arg) == a.Ticks:
				tickCloses = append(tickCloses, i)
			default:
				other = append(other, i)
			}
		})
	}
	isEvent := func(i ssa.Instruction) bool {
		for _, e := range a.Shutdown4 {
			if e.Instr == i {
				return true
			}
		}
		return false
	}
	okR := len(resultCloses) == 1 && isEvent(resultCloses[0]) && isCloseOf(resultCloses[0], a.Results)
	c.Check(okR, "close-once:lib.results", rule, "single close, in the deferred shutdown", fmt.Sprintf("%d close sites on *Result channels", len(resultCloses)), c.atsOr(resultCloses, a.Loop)...)
	okT := len(tickCloses) == 1 && isEvent(tickCloses[0])
	c.Check(okT, "close-once:lib.ticks", rule, "single close, in the deferred shutdown", fmt.Sprintf("%d close sites on ticks", len(tickCloses)), c.atsOr(tickCloses, a.Loop)...)
	okS := len(stopCloses) >= 1
	for _, s := range stopCloses {
		if !passedToOnceDo(s.Parent()) {
			okS = false
		}
	}
	c.Check(okS, "close-once:lib.Attacker.stopch", rule, "closed only under sync.Once", "stopch is closed outside a sync.Once.Do function (double close panics)", c.atsOr(stopCloses, a.Stop)...)
	for _, o := range other {
		c.Saw("other close site " + c.at(o))
	}
}

func (c *Ctx) atsOr(is []ssa.Instruction, fn *ssa.Function) []string {
	if len(is) == 0 {
		return []string{c.fnAt(fn)}
	}
	return c.ats(is)
}

// passedToOnceDo: fn is a closure whose only use is as the argument of (*sync.Once).Do.
func passedToOnceDo(fn *ssa.Function) bool {
	par := fn.Parent()
	if par == nil {
		return false
	}
	ok := false
	eachInstr(par, func(i ssa.Instruction) {
		if call, isCall := i.(*ssa.Call); isCall && callName(&call.Call) == "(*sync.Once).Do" && len(call.Call.Args) == 2 {
			if closureOf(call.Call.Args[1]) == fn {
				ok = true
			}
		}
	})
	return ok
}

func c02SendSites(c *Ctx, a *attackAnchors) {
	const rule = "the only send on a *Result channel in lib is in the worker; every `go worker(...)` passes the Attack's own WaitGroup/ticks/results and is immediately preceded by wg.Add(1); the worker's first action is defer wg.Done()"
	var sends []ssa.Instruction
	for _, fn := range c.P.RepoFuncs("lib") {
		eachInstr(fn, func(i ssa.Instruction) {
			switch x := i.(type) {
			case *ssa.Send:
				if ch, _ := x.Chan.Type().Underlying().(*types.Chan); ch != nil && isNamedType(ch.Elem(), "lib", "Result") {
					sends = append(sends, i)
				}
			case *ssa.Select:
				for _, st := range x.States {
					if st.Dir == types.SendOnly {
						if ch, _ := st.Chan.Type().Underlying().(*types.Chan); ch != nil && isNamedType(ch.Elem(), "lib", "Result") {
							sends = append(sends, i)
						}
					}
				}
			}
		})
	}
	okS := len(sends) == 1 && sends[0].Parent() == a.Worker
	c.Check(okS, "single-sender:lib.results", rule, "one send site, in the worker", fmt.Sprintf("%d send sites on *Result channels (want exactly one, in %s)", len(sends), shortFn(a.Worker)), c.atsOr(sends, a.Worker)...)

	// spawn sites
	for k, sp := range a.Spawns {
		g := sp.Go
		key := fmt.Sprintf("worker-spawn:%s#%d", shortFn(sp.Fn), k)
		var hasWG, hasTicks, hasResults bool
		given := append([]ssa.Value(nil), g.Call.Args...)
		if mc, isMC := resolveOnceV(g.Call.Value).(*ssa.MakeClosure); isMC {
			given = append(given, mc.Bindings...) // a function-literal worker captures them instead
		}
		for _, arg := range given {
			switch valueOrCell(arg) {
			case a.WG:
				hasWG = true
			case a.Ticks:
				hasTicks = true
			case a.Results:
				hasResults = true
			}
			switch rootCell(arg) {
			case a.WG:
				hasWG = true
			case a.Ticks:
				hasTicks = true
			case a.Results:
				hasResults = true
			}
		}
		if !hasWG || !hasTicks || !hasResults {
			c.Fail(key, rule, "the worker is not given this attack's WaitGroup, ticks and results", c.at(g))
			continue
		}
		// preceding Add(1) in the go statement's block, no Wait/Done/second Add in between
		blk := g.Block()
		adds := 0
		for _, i := range blk.Instrs[:indexIn(g)] {
			if call, ok := i.(*ssa.Call); ok {
				switch callName(&call.Call) {
				case "(*sync.WaitGroup).Add":
					if valueOrCell(call.Call.Args[0]) == a.WG {
						if n, ok := constInt(call.Call.Args[1]); ok && n == 1 {
							adds++
						} else {
							adds = -100
						}
					}
				case "(*sync.WaitGroup).Wait", "(*sync.WaitGroup).Done":
					adds = -100
				}
			}
		}
		okSpawn := adds == 1
		why := "go worker is not preceded by exactly one wg.Add(1) on the attack's WaitGroup in its block"
		if okSpawn && sp.Helper != nil {
			// the helper must be straight-line: every call of it starts exactly one worker
			if len(sp.Helper.Blocks) > 2 || loopHeaderOf(g.Block()) != nil {
				okSpawn, why = false, "the spawn helper starts a worker only on some paths or more than once"
			}
		}
		c.Check(okSpawn, key, rule, "wg.Add(1) precedes the go statement in the same block", why, c.at(sp.At))
	}
	if len(a.Spawns) < 2 {
		c.Fail("worker-spawn:lib", rule, fmt.Sprintf("only %d sites start a worker; expected the initial loop and the on-demand spawn", len(a.Spawns)), c.fnAt(a.Attack))
	}
	// no worker is started from anywhere else in lib
	for _, fn := range c.P.RepoFuncs("lib") {
		eachInstr(fn, func(i ssa.Instruction) {
			if g, ok := i.(*ssa.Go); ok && goCallee(g) == a.Worker {
				under := false
				for _, f := range withAnon(a.Attack) {
					if f == fn {
						under = true
					}
				}
				if !under {
					c.Fail("worker-spawn:elsewhere:"+shortFn(fn), rule, "a worker is started outside Attack", c.at(g))
				}
			}
		})
	}
	// every wg.Add under Attack belongs to a go statement
	nAdd, nGo := 0, len(a.workerGos())
	for _, fn := range withAnon(a.Attack) {
		nAdd += len(callsNamed(fn, "(*sync.WaitGroup).Add"))
	}
	c.Check(nAdd == nGo, "wg-balance:"+shortFn(a.Attack), "the WaitGroup is incremented exactly once per started worker", fmt.Sprintf("%d Add sites, %d go statements", nAdd, nGo), fmt.Sprintf("%d wg.Add sites but %d go-worker statements", nAdd, nGo), c.fnAt(a.Attack))

	// worker: defer Done first
	first := a.Worker.Blocks[0].Instrs[0]
	d, ok := first.(*ssa.Defer)
	okD := ok && callName(&d.Call) == "(*sync.WaitGroup).Done"
	if okD {
		_, isParam := d.Call.Args[0].(*ssa.Parameter)
		okD = isParam || rootCell(d.Call.Args[0]) == a.WG
	}
	nDone := 0
	eachInstr(a.Worker, func(i ssa.Instruction) {
		if isCallTo(i, "(*sync.WaitGroup).Done") {
			nDone++
		}
	})
	c.Check(okD && nDone == 1, "worker-done:"+shortFn(a.Worker), rule, "defer workers.Done() is the first instruction", "the worker does not start with exactly one `defer wg.Done()` on its WaitGroup parameter", c.fnAt(a.Worker))
}

func c02OneResultPerTick(c *Ctx, a *attackAnchors) {
	const rule = "in the worker, after a tick has been received, control cannot return to the receive nor leave the function without exactly one call of hit and one send of that call's result; nothing is sent without a tick"
	key := "one-result-per-tick:" + shortFn(a.Worker)
	fn := a.Worker
	var recvs, sends, hits []ssa.Instruction
	eachInstr(fn, func(i ssa.Instruction) {
		switch x := i.(type) {
		case *ssa.UnOp:
			if x.Op == token.ARROW {
				recvs = append(recvs, i)
			}
		case *ssa.Send:
			sends = append(sends, i)
		case *ssa.Select:
			recvs = append(recvs, i) // any select in the worker is an unrecognised shape
			sends = append(sends, i, i)
		case *ssa.Call:
			if x.Call.StaticCallee() == a.Hit {
				hits = append(hits, i)
			}
		}
	})
	if len(recvs) != 1 || len(sends) != 1 || len(hits) != 1 {
		c.Fail(key, rule, fmt.Sprintf("worker has %d receives, %d sends, %d hit calls; want 1/1/1", len(recvs), len(sends), len(hits)), c.fnAt(fn))
		return
	}
	recv := recvs[0].(*ssa.UnOp)
	send := sends[0].(*ssa.Send)
	hit := hits[0].(*ssa.Call)
	if _, isParam := recv.X.(*ssa.Parameter); !(isParam || valueOrCell(recv.X) == a.Ticks) || !recv.CommaOk {
		c.Fail(key, rule, "the receive is not a comma-ok receive from the ticks parameter (range over channel)", c.at(recv))
		return
	}
	if send.X != ssa.Value(hit) {
		c.Fail(key, rule, "the value sent is not the result of the hit call", c.at(send))
		return
	}
	if _, isParam := send.Chan.(*ssa.Parameter); !isParam && valueOrCell(send.Chan) != a.Results {
		c.Fail(key, rule, "the send is not on the results parameter", c.at(send))
		return
	}
	// ok edge
	var okIf *ssa.If
	for _, r := range refs(recv) {
		if ex, ok := r.(*ssa.Extract); ok && ex.Index == 1 {
			okIf = trueImpliesIf(ex)
		}
	}
	if okIf == nil {
		c.Fail(key, rule, "the receive's ok flag does not control the loop", c.at(recv))
		return
	}
	body := okIf.Block().Succs[0]
	done := okIf.Block().Succs[1]
	if !edgeDominates(okIf.Block(), 0, hit.Block()) || !edgeDominates(okIf.Block(), 0, send.Block()) || !instrDominates(hit, send) {
		c.Fail(key, rule, "hit/send are not on the ok edge of the receive in order", c.at(hit), c.at(send))
		return
	}
	// from the body, without passing the send: neither the receive nor a return is reachable
	set := exploreBlock(body, func(i ssa.Instruction) bool { return i == ssa.Instruction(send) })
	if set[recv] || len(returnsIn(set)) > 0 {
		c.Fail(key, rule, "after a tick is received the worker can loop or return without sending a result", c.at(recv))
		return
	}
	// after the send, without passing the receive: no second hit, no return (the loop goes back to the receive)
	set2 := explore(send, false, func(i ssa.Instruction) bool { return i == ssa.Instruction(recv) })
	if set2[hit] || len(returnsIn(set2)) > 0 {
		c.Fail(key, rule, "after sending, the worker can hit again or return without a new tick", c.at(send))
		return
	}
	// the !ok edge leaves without hit or send
	set3 := exploreBlock(done, nil)
	if set3[hit] || set3[send] {
		c.Fail(key, rule, "a hit or send is reachable after the ticks channel was closed", c.at(recv))
		return
	}
	c.Pass(key, rule, "tick → hit → send → back to receive; closed ticks → return", c.at(recv), c.at(hit), c.at(send))
}

// seqCounter identifies the sequence counter structurally: the field whose load hit copies into
// Result.Seq. It must belong to the per-attack state object (created once per Attack call), not
// to the Attacker, which is shared by every attack it runs.
func seqCounter(c *Ctx, a *attackAnchors) (owner types.Type, field int, why string) {
	var src *ssa.FieldAddr
	n := 0
	for _, fn := range region(a.Hit) {
		eachInstr(fn, func(i ssa.Instruction) {
			st, ok := i.(*ssa.Store)
			if !ok {
				return
			}
			fa, ok := st.Addr.(*ssa.FieldAddr)
			if !ok || !isNamedType(fa.X.Type(), "lib", "Result") || fieldName(fa.X.Type(), fa.Field) != "Seq" {
				return
			}
			n++
			// directly, or through the result of a same-package helper (atk.next())
			flowsFrom(st.Val, func(v ssa.Value) bool {
				if ld, isL := isLoad(v); isL {
					if cfa, isFA := ld.X.(*ssa.FieldAddr); isFA && src == nil && !isNamedType(cfa.X.Type(), "lib", "Result") && types.Identical(ld.Type(), st.Val.Type()) {
						src = cfa
					}
				}
				return false
			})
		})
	}
	if n != 1 || src == nil {
		return nil, 0, fmt.Sprintf("%d stores to Result.Seq in hit; want one, of a counter field", n)
	}
	return src.X.Type(), src.Field, ""
}

// seqAccesses returns all FieldAddr instructions denoting the sequence counter in lib.
func seqAccesses(c *Ctx, owner types.Type, field int) []*ssa.FieldAddr {
	var out []*ssa.FieldAddr
	for _, fn := range c.P.RepoFuncs("lib") {
		eachInstr(fn, func(i ssa.Instruction) {
			if fa, ok := i.(*ssa.FieldAddr); ok && fa.Field == field && types.Identical(fa.X.Type(), owner) {
				out = append(out, fa)
			}
		})
	}
	return out
}

type seqFacts struct {
	fn              *ssa.Function   // hit, or a closure of hit invoked exactly once where it is created
	site            ssa.Instruction // position of the critical section in hit (the closure call, or nil when fn == hit)
	ls              *Lockset
	mu              string
	lock, unlock    ssa.Instruction
	seqLoadToResult *ssa.UnOp
	seqStore        *ssa.Store
	tsStore         *ssa.Store
	ok              bool
}

func c02SeqLockset(c *Ctx, a *attackAnchors) *seqFacts {
	const rule = "every access to attack.seq is in hit while atk.seqmu is held; inside the region one load is copied to Result.Seq and one store writes that value + 1; the counter starts at the composite literal's zero"
	key := "lockset:lib.attack.seq"
	sf := &seqFacts{}
	owner, field, whyNot := seqCounter(c, a)
	if owner == nil {
		c.Undecided(key, rule, whyNot, c.fnAt(a.Hit))
		return sf
	}
	if !a.isAtk(owner) || a.Atk == nil {
		ownerName := types.TypeString(owner, func(p *types.Package) string { return p.Name() })
		c.Fail(key, rule, "Result.Seq is numbered from a counter on "+ownerName+", which is not the per-attack state created by each Attack call: attacks run by the same Attacker share one numbering, so an attack's results no longer carry 0..n-1", c.fnAt(a.Hit))
		return sf
	}
	accs := seqAccesses(c, owner, field)
	counterName := fieldName(owner, field)
	sf.fn = accs[0].Parent()
	if sf.fn != a.Hit {
		// accepted: a function literal of hit that is called exactly once, immediately
		n := 0
		if sf.fn.Parent() == a.Hit {
			eachInstr(a.Hit, func(i ssa.Instruction) {
				switch x := i.(type) {
				case *ssa.Call:
					if closureOf(x.Call.Value) == sf.fn {
						n++
						sf.site = x
					}
				case *ssa.Go, *ssa.Defer:
					if closureOf(x.(ssa.CallInstruction).Common().Value) == sf.fn {
						n += 100
					}
				}
			})
		}
		if n != 1 && sf.fn.Parent() == nil {
			// accepted: a named helper of the package that hit calls exactly once and nobody else calls
			n = 0
			for _, f := range c.P.RepoFuncs("lib") {
				eachInstr(f, func(i ssa.Instruction) {
					if ci, ok := i.(ssa.CallInstruction); ok && ci.Common().StaticCallee() == sf.fn {
						if call, isCall := i.(*ssa.Call); isCall && f == a.Hit {
							n++
							sf.site = call
						} else {
							n += 100
						}
					}
				})
			}
		}
		if n != 1 {
			c.Fail(key, rule, "attack.seq is accessed outside hit: "+shortFn(sf.fn), c.at(accs[0]))
			return sf
		}
	}
	sf.ls = computeLockset(sf.fn)
	var sites []string
	mus := map[string]bool{}
	for _, fa := range accs {
		sites = append(sites, c.at(fa))
		if fa.Parent() != sf.fn {
			c.Fail(key, rule, "attack.seq is accessed in more than one function: "+shortFn(fa.Parent()), c.at(fa))
			return sf
		}
		for _, r := range refs(fa) {
			held := sf.ls.Held(r)
			found := false
			for _, h := range held {
				// a mutex field of the same object as the counter
				if k := strings.LastIndex(h, "."); k > 0 && path(fa) == "&"+h[:k]+"."+counterName {
					mus[h] = true
					found = true
				}
			}
			if !found {
				c.Fail(key, rule, "attack.seq is read or written without atk.seqmu held", c.at(r))
				return sf
			}
			switch x := r.(type) {
			case *ssa.UnOp:
			case *ssa.Store:
				if x.Addr != ssa.Value(fa) {
					c.Fail(key, rule, "address of attack.seq escapes", c.at(r))
					return sf
				}
				if sf.seqStore != nil {
					c.Fail(key, rule, "attack.seq is stored more than once per hit", c.at(r))
					return sf
				}
				sf.seqStore = x
			default:
				c.Fail(key, rule, "address of attack.seq escapes (not a plain load/store)", c.at(r))
				return sf
			}
		}
	}
	if len(mus) != 1 {
		c.Fail(key, rule, "accesses are not all under one and the same mutex", sites...)
		return sf
	}
	for m := range mus {
		sf.mu = m
	}
	// mutex belongs to the same attack object as seq
	{
		// the receiver path must be <x>.seqmu where accesses are <x>.seq
		base := sf.mu[:strings.LastIndex(sf.mu, ".")]
		for _, fa := range accs {
			if path(fa) != "&"+base+"."+counterName {
				c.Fail(key, rule, "the mutex held belongs to a different object than the counter", c.at(fa))
				return sf
			}
		}
	}
	if sf.seqStore == nil {
		c.Fail(key, rule, "attack.seq is never incremented", sites...)
		return sf
	}
	// store value = load + 1
	bo, ok := sf.seqStore.Val.(*ssa.BinOp)
	okInc := ok && bo.Op == token.ADD
	if okInc {
		n, isC := constInt(bo.Y)
		ld, isL := isLoad(bo.X)
		okInc = isC && n == 1 && isL && path(ld.X) == path(sf.seqStore.Addr)
	}
	if !okInc {
		c.Fail(key, rule, "the store to attack.seq is not `seq + 1`", c.at(sf.seqStore))
		return sf
	}
	// the loads of the counter that precede the increment
	seqLoads := map[ssa.Value]bool{}
	for _, fa := range accs {
		for _, r := range refs(fa) {
			if ld, ok := r.(*ssa.UnOp); ok && instrDominates(ld, sf.seqStore) {
				seqLoads[ld] = true
			}
		}
	}
	// exactly one store to Result.Seq in hit's region, fed by such a load (directly or through the helper's result)
	var seqStores []*ssa.Store
	for _, fn := range region(a.Hit) {
		eachInstr(fn, func(i ssa.Instruction) {
			if st, ok := resultFieldStore(i, "Seq"); ok {
				seqStores = append(seqStores, st)
			}
		})
	}
	if len(seqStores) != 1 {
		c.Fail(key, rule, fmt.Sprintf("Result.Seq is stored %d times in hit", len(seqStores)), sites...)
		return sf
	}
	var fed ssa.Value
	flowsFrom(seqStores[0].Val, func(v ssa.Value) bool {
		if seqLoads[v] {
			fed = v
			return true
		}
		return false
	})
	if fed == nil {
		c.Fail(key, rule, "Result.Seq is not assigned from the counter value read inside the critical section (before the increment)", c.at(seqStores[0]))
		return sf
	}
	sf.seqLoadToResult = fed.(*ssa.UnOp)
	// nothing but plain data flow lies between the load and the field: no arithmetic on the way
	arith := false
	flowsFrom(seqStores[0].Val, func(v ssa.Value) bool {
		if bo, ok := v.(*ssa.BinOp); ok && bo != sf.seqStore.Val {
			arith = true
		}
		return false
	})
	if arith {
		c.Fail(key, rule, "the sequence number stored in the result is computed, not the counter value itself", c.at(seqStores[0]))
		return sf
	}
	// find the lock/unlock delimiting the region: the Lock dominating the load, the first Unlock after the store
	for _, l := range sf.ls.Locks {
		if mutexPath(l.(*ssa.Call).Call.Args[0]) == sf.mu && instrDominates(l, sf.seqLoadToResult) {
			sf.lock = l
		}
	}
	for _, u := range sf.ls.Unlocks {
		if mutexPath(u.(*ssa.Call).Call.Args[0]) == sf.mu && instrDominates(sf.seqStore, u) {
			if sf.unlock == nil || instrDominates(u, sf.unlock) {
				sf.unlock = u
			}
		}
	}
	// no unlock between load and store (one region): held at both and no Unlock of mu strictly between
	for _, u := range sf.ls.Unlocks {
		if mutexPath(u.(*ssa.Call).Call.Args[0]) == sf.mu && instrDominates(sf.seqLoadToResult, u) && instrDominates(u, sf.seqStore) {
			c.Fail(key, rule, "the mutex is released between reading and incrementing the counter", c.at(u))
			return sf
		}
	}
	// the mutex is released on every path to return (explicit or deferred)
	if len(sf.ls.Deferred) == 0 {
		if sf.unlock == nil {
			c.Fail(key, rule, "atk.seqmu is never unlocked", c.at(sf.seqStore))
			return sf
		}
		set := explore(sf.seqStore, false, func(i ssa.Instruction) bool {
			return isCallTo(i, "(*sync.Mutex).Unlock") && mutexPath(i.(*ssa.Call).Call.Args[0]) == sf.mu
		})
		if len(returnsIn(set)) > 0 {
			c.Fail(key, rule, "a path from the critical section returns without unlocking", c.at(sf.seqStore))
			return sf
		}
	}
	// every result carries a sequence number: no path from hit's entry to a return avoids the critical section
	{
		var gate ssa.Instruction = sf.seqStore
		if sf.site != nil {
			gate = sf.site
		}
		set := explore(a.Hit.Blocks[0].Instrs[0], true, func(i ssa.Instruction) bool { return i == gate })
		if rs := returnsIn(set); len(rs) > 0 {
			c.Fail("seq-on-every-path:"+shortFn(a.Hit), "every path through hit assigns a sequence number before returning a result (a result returned without one duplicates sequence number 0 and leaves a gap)", "hit can return a result without having assigned its sequence number", c.at(rs[0]))
			return sf
		}
		c.Pass("seq-on-every-path:"+shortFn(a.Hit), "every path through hit assigns a sequence number before returning a result (a result returned without one duplicates sequence number 0 and leaves a gap)", "the critical section is on every path to return", c.at(sf.seqStore))
	}
	sf.ok = true
	c.Pass(key, rule, "all accesses under "+sf.mu, sites...)
	return sf
}

func c02StopInSelect(c *Ctx, a *attackAnchors) {
	const rule = "every send on ticks in the loop is a select case whose select also receives from a.stopch, and the stopch case returns without sending; the tick is finally handed over by a blocking offer"
	fn := a.Loop
	var bare []ssa.Instruction
	eachInstr(fn, func(i ssa.Instruction) {
		if s, ok := i.(*ssa.Send); ok && valueOrCell(s.Chan) == a.Ticks {
			bare = append(bare, i)
		}
	})
	if len(bare) > 0 {
		c.Fail("stop-in-select:"+shortFn(fn), rule, "a bare send on ticks blocks forever once all workers are busy and Stop is called", c.ats(bare)...)
	}
	hasBlocking := false
	for _, o := range a.Offers {
		kind := "blocking"
		if !o.Blocking {
			kind = "nonblocking"
		} else {
			hasBlocking = true
		}
		key := fmt.Sprintf("stop-in-select:%s:%s", shortFn(fn), kind)
		if !o.HasStop {
			c.Fail(key, rule, "the tick is offered without watching a.stopch", c.at(o.At))
			continue
		}
		if o.Stopped == nil || o.Sent == nil {
			c.Undecided(key, rule, "cannot find the outcome blocks of the offer", c.at(o.At))
			continue
		}
		set := exploreBlock(o.Stopped, nil)
		again := false
		for i := range set {
			for _, o2 := range a.Offers {
				if i == o2.At {
					again = true
				}
			}
		}
		if o.Helper == nil && o.Sel != nil && !o.Sel.Blocking && o.Stopped == nil {
			again = false
		}
		if again {
			c.Fail(key, rule, "the stopch outcome continues the loop instead of returning", c.at(o.At))
			continue
		}
		if len(returnsIn(set)) == 0 {
			c.Fail(key, rule, "the stopch outcome reaches no return", c.at(o.At))
			continue
		}
		c.Pass(key, rule, "stopch outcome returns", c.at(o.At))
	}
	if len(a.Offers) < 1 {
		c.Fail("stop-in-select:"+shortFn(fn), rule, "no offer of a tick found in the loop", c.fnAt(fn))
	}
	c.Check(hasBlocking, "stop-in-select:"+shortFn(fn)+":handoff", "the tick is finally handed over by a blocking select", "present", "no blocking select hands the tick over", c.fnAt(fn))
}

// selectCaseBlock returns the block executed when the select's index equals k.
func selectCaseBlock(sel *ssa.Select, k int) *ssa.BasicBlock {
	for _, r := range refs(sel) {
		ex, ok := r.(*ssa.Extract)
		if !ok || ex.Index != 0 {
			continue
		}
		for _, rr := range refs(ex) {
			bo, ok := rr.(*ssa.BinOp)
			if !ok || bo.Op != token.EQL {
				continue
			}
			if n, ok := constInt(bo.Y); ok && int(n) == k {
				if ifi := trueImpliesIf(bo); ifi != nil {
					return ifi.Block().Succs[0]
				}
			}
		}
	}
	return nil
}

func c02TargeterErrorStops(c *Ctx, a *attackAnchors) {
	withInline(func() { c02TargeterErrorStopsIn(c, a) }, a.Hit)
}

func c02TargeterErrorStopsIn(c *Ctx, a *attackAnchors) {
	const rule = "in hit, the error edge of the Targeter call passes through a.Stop() before returning"
	key := "targeter-error-stops:" + shortFn(a.Hit)
	var tcall *ssa.Call
	// hit may hand the exchange to a single-site helper (roundTrip(tr, atk, &res)): analysed as inlined
	eachInstrI(a.Hit, func(i ssa.Instruction) {
		if call, ok := i.(*ssa.Call); ok && !call.Call.IsInvoke() {
			if p, ok := rootVal(call.Call.Value).(*ssa.Parameter); ok && p.Parent() == a.Hit && isNamedType(p.Type(), "lib", "Targeter") {
				tcall = call
			}
		}
	})
	if tcall == nil {
		c.Undecided(key, rule, "no call of the Targeter parameter in hit", c.fnAt(a.Hit))
		return
	}
	ifi := errNotNilIfI(tcall)
	if ifi == nil {
		c.Fail(key, rule, "the Targeter's error is not tested", c.at(tcall))
		return
	}
	set := exploreBlock(ifi.Block().Succs[0], func(i ssa.Instruction) bool { return isCallTo(i, "(*lib.Attacker).Stop") })
	if len(returnsIn(set)) > 0 {
		c.Fail(key, rule, "a targeter failure returns without stopping the attack", c.at(ifi))
		return
	}
	c.Pass(key, rule, "error edge calls Stop", c.at(tcall), c.at(ifi))
}

// errNotNilIf finds the If testing `err != nil` for the error produced by call
// (directly, via Extract, or via a store to an error cell followed by a load).
func errNotNilIf(call *ssa.Call, after ssa.Instruction) *ssa.If {
	var errVals []ssa.Value
	if types.Identical(call.Type(), types.Universe.Lookup("error").Type()) {
		errVals = append(errVals, call)
	}
	for _, r := range refs(call) {
		if ex, ok := r.(*ssa.Extract); ok && types.Identical(ex.Type(), types.Universe.Lookup("error").Type()) {
			errVals = append(errVals, ex)
		}
	}
	for _, ev := range errVals {
		cands := []ssa.Value{ev}
		for _, r := range refs(ev) {
			if st, ok := r.(*ssa.Store); ok && st.Val == ev {
				// loads of the same cell that follow the store in the same block
				blk := st.Block()
				for _, i := range blk.Instrs[indexIn(st)+1:] {
					if st2, ok := i.(*ssa.Store); ok && st2.Addr == st.Addr {
						break
					}
					if ld, ok := i.(*ssa.UnOp); ok && ld.Op == token.MUL && ld.X == st.Addr {
						cands = append(cands, ld)
					}
				}
			}
		}
		for _, cv := range cands {
			for _, r := range refs(cv) {
				if bo, ok := r.(*ssa.BinOp); ok && bo.Op == token.NEQ {
					if k, ok := bo.Y.(*ssa.Const); ok && k.Value == nil {
						if ifi := trueImpliesIf(bo); ifi != nil {
							return ifi
						}
					}
				}
			}
		}
	}
	return nil
}

// errEdges returns the blocks entered when the error produced by call is
// non-nil / nil, whichever way the test is written (`err != nil` or `err == nil`).
func errEdges(call *ssa.Call) (onErr, onOK *ssa.BasicBlock, ifi *ssa.If) {
	if i := errNotNilIf(call, call); i != nil {
		return i.Block().Succs[0], i.Block().Succs[1], i
	}
	for _, ev := range errValuesOf(call) {
		for _, r := range refs(ev) {
			if bo, ok := r.(*ssa.BinOp); ok && bo.Op == token.EQL {
				if k, ok := bo.Y.(*ssa.Const); ok && k.Value == nil {
					if i := trueImpliesIf(bo); i != nil {
						return i.Block().Succs[1], i.Block().Succs[0], i
					}
				}
			}
		}
	}
	return nil, nil, nil
}

func c02StopInitiator(c *Ctx, a *attackAnchors) {
	const rule = "every return of Stop yields constant false or a flag that is set only inside the function passed to stopOnce.Do, which is also the one closing stopch (a constant true after a separate test of the channel is a check-then-act: two callers can both win)"
	key := "stop-initiator:" + shortFn(a.Stop)
	var rets []*ssa.Return
	eachInstr(a.Stop, func(i ssa.Instruction) {
		if r, ok := i.(*ssa.Return); ok {
			rets = append(rets, r)
		}
	})
	if len(rets) == 0 {
		c.Undecided(key, rule, "Stop has no return", c.fnAt(a.Stop))
		return
	}
	for _, r := range rets {
		if len(r.Results) != 1 {
			continue
		}
		v := r.Results[0]
		if b, ok := constBool(v); ok {
			if b {
				c.Fail(key, rule, "Stop returns constant true: the decision is not taken atomically with the close", c.at(r))
				return
			}
			continue
		}
		// accepted: atomic CAS / Swap result
		if call, ok := v.(*ssa.Call); ok {
			n := callName(&call.Call)
			if len(n) > 12 && (containsAny(n, "CompareAndSwap", "Swap")) && containsAny(n, "sync/atomic") {
				continue
			}
		}
		cell := loadedCell(v)
		al, isAlloc := cell.(*ssa.Alloc)
		if cell == nil || !isAlloc {
			c.Fail(key, rule, "Stop's result is neither constant false, an atomic swap, nor a flag cell", c.at(r))
			return
		}
		// stores to the flag
		trueInOnce := false
		for _, fn := range withAnon(a.Stop) {
			bad := false
			eachInstr(fn, func(i ssa.Instruction) {
				st, ok := i.(*ssa.Store)
				if !ok || rootCell(st.Addr) != ssa.Value(al) {
					return
				}
				b, isConst := constBool(st.Val)
				if !isConst {
					if loadedCell(st.Val) == ssa.Value(al) {
						return // `return flag` with a named result re-stores the flag into itself
					}
					bad = true
					return
				}
				if b {
					if fn != a.Stop && passedToOnceDo(fn) && len(findInstrs(fn, func(x ssa.Instruction) bool {
						call, ok := x.(*ssa.Call)
						return ok && callName(&call.Call) == "builtin:close" && isStopchLoad(call.Call.Args[0])
					})) == 1 {
						trueInOnce = true
					} else {
						bad = true
					}
				}
			})
			if bad {
				c.Fail(key, rule, "the result flag is set to true outside the sync.Once function that closes stopch", c.at(r))
				return
			}
		}
		if !trueInOnce {
			c.Fail(key, rule, "the result flag is never set inside the sync.Once function", c.at(r))
			return
		}
	}
	c.Pass(key, rule, "result decided inside sync.Once", c.fnAt(a.Stop))
}

func containsAny(s string, subs ...string) bool {
	for _, x := range subs {
		if len(x) <= len(s) {
			for i := 0; i+len(x) <= len(s); i++ {
				if s[i:i+len(x)] == x {
					return true
				}
			}
		}
	}
	return false
}

func c02Goroutines(c *Ctx, a *attackAnchors) {
	const rule = "every go statement in lib matches a termination idiom: worker ranging over ticks (closed by shutdown); the attack loop (deferred shutdown, stop/duration/pacer exits); a select loop with a <-stopch case that returns; a one-shot sender on a channel buffered to the number of goroutines spawned"
	n := 0
	for _, fn := range c.P.RepoFuncs("lib") {
		k := 0
		eachInstr(fn, func(i ssa.Instruction) {
			g, ok := i.(*ssa.Go)
			if !ok {
				return
			}
			n++
			key := fmt.Sprintf("goroutine-terminates:%s#%d", shortFn(fn), k)
			k++
			callee := goCallee(g)
			switch {
			case callee == nil:
				c.Undecided(key, rule, "go statement with a dynamic callee", c.at(g))
			case callee == a.Worker:
				c.Pass(key, rule, "worker: ranges over ticks, which the shutdown closure closes", c.at(g))
			case callee == a.Loop:
				c.Pass(key, rule, "attack loop: exits via duration/pacer/stop edges, shutdown deferred", c.at(g))
			default:
				if why, ok := stopchLoopTerminates(callee); ok {
					c.Pass(key, rule, why, c.at(g))
				} else if why, ok := oneShotBufferedSender(g, callee); ok {
					c.Pass(key, rule, why, c.at(g))
				} else {
					c.Undecided(key, rule, "goroutine matches no termination idiom: "+why, c.at(g))
				}
			}
		})
	}
	if n == 0 {
		c.Undecided("goroutine-terminates:lib", rule, "no go statement found in lib")
	}
}

// stopchLoopTerminates: every loop in fn contains a blocking select with a
// receive on a.stopch whose case returns.
func stopchLoopTerminates(fn *ssa.Function) (string, bool) {
	found := false
	ok := true
	eachInstr(fn, func(i ssa.Instruction) {
		sel, isSel := i.(*ssa.Select)
		if !isSel {
			return
		}
		for k, st := range sel.States {
			if st.Dir == types.RecvOnly && isStopchLoad(st.Chan) {
				blk := selectCaseBlock(sel, k)
				if blk == nil {
					ok = false
					return
				}
				set := exploreBlock(blk, nil)
				if len(returnsIn(set)) == 0 || set[ssa.Instruction(sel)] {
					ok = false
					return
				}
				found = true
			}
		}
	})
	if !found || !ok {
		return "no select case on a.stopch that returns", false
	}
	// every cycle passes through that select: removing select instructions, no block can reach itself
	for _, b := range fn.Blocks {
		if len(b.Instrs) == 0 {
			continue
		}
		set := exploreBlock(b, func(i ssa.Instruction) bool {
			s, isSel := i.(*ssa.Select)
			if !isSel {
				return false
			}
			for _, st := range s.States {
				if st.Dir == types.RecvOnly && isStopchLoad(st.Chan) {
					return true
				}
			}
			return false
		})
		// did we come back to b's first instruction via a successor?
		for _, s := range b.Succs {
			_ = s
		}
		if cycleWithout(b, set) {
			return "a loop does not pass through the stopch select", false
		}
	}
	return "select loop with a <-a.stopch case that returns", true
}

// cycleWithout: block b can reach itself through instructions in set (a set produced by exploring from b).
func cycleWithout(b *ssa.BasicBlock, set map[ssa.Instruction]bool) bool {
	if len(b.Instrs) == 0 {
		return false
	}
	last := b.Instrs[len(b.Instrs)-1]
	if !set[last] {
		return false
	}
	// b reaches itself if some block in the explored region whose terminator is reached has b as successor
	for i := range set {
		blk := i.Block()
		if i == blk.Instrs[len(blk.Instrs)-1] {
			for _, s := range blk.Succs {
				if s == b {
					return true
				}
			}
		}
	}
	return false
}

// oneShotBufferedSender: callee sends exactly once on every path on a channel
// that the spawner created with capacity len(S), and the go statement sits in
// a range loop over the same S — so the send never blocks.
func oneShotBufferedSender(g *ssa.Go, callee *ssa.Function) (string, bool) {
	var sends []*ssa.Send
	eachInstr(callee, func(i ssa.Instruction) {
		if s, ok := i.(*ssa.Send); ok {
			sends = append(sends, s)
		}
	})
	if len(sends) != 1 {
		return fmt.Sprintf("%d sends in the goroutine", len(sends)), false
	}
	send := sends[0]
	// must-pass
	set := explore(callee.Blocks[0].Instrs[0], true, func(i ssa.Instruction) bool { return i == ssa.Instruction(send) })
	if len(returnsIn(set)) > 0 {
		return "the goroutine can return without sending", false
	}
	// no loops in callee
	for _, b := range callee.Blocks {
		for _, s := range b.Succs {
			if s.Dominates(b) {
				return "the goroutine loops", false
			}
		}
	}
	cell := valueOrCell(send.Chan)
	var mk *ssa.MakeChan
	switch x := cell.(type) {
	case *ssa.MakeChan:
		mk = x
	case *ssa.Alloc:
		for _, r := range refs(x) {
			if st, ok := r.(*ssa.Store); ok && st.Addr == ssa.Value(x) {
				if m, ok := st.Val.(*ssa.MakeChan); ok {
					mk = m
				}
			}
		}
	}
	if mk == nil {
		return "channel is not created by the spawner", false
	}
	lenCall, ok := mk.Size.(*ssa.Call)
	if !ok || callName(&lenCall.Call) != "builtin:len" {
		return "channel capacity is not len(slice)", false
	}
	sl := lenCall.Call.Args[0]
	// go statement inside a loop ranging over the same slice value: the loop's
	// index bound is len(sl)
	spawner := g.Parent()
	okLoop := false
	eachInstr(spawner, func(i ssa.Instruction) {
		if call, ok := i.(*ssa.Call); ok && callName(&call.Call) == "builtin:len" && sameSliceValue(call.Call.Args[0], sl) && call != lenCall {
			// is it a loop bound dominating the go statement's block?
			for _, r := range refs(call) {
				if bo, ok := r.(*ssa.BinOp); ok && bo.Op == token.LSS && bo.Y == ssa.Value(call) {
					if ifi := trueImpliesIf(bo); ifi != nil && edgeDominates(ifi.Block(), 0, g.Block()) {
						okLoop = true
					}
				}
			}
		}
	})
	if !okLoop {
		return "go statement is not in a range loop over the slice that sizes the channel", false
	}
	return "one-shot sender on a channel buffered to len of the ranged slice", true
}

func sameSliceValue(a, b ssa.Value) bool {
	if a == b {
		return true
	}
	ca, cb := valueOrCell(a), valueOrCell(b)
	return ca != nil && ca == cb
}

// isPumpMetrics: the *prom.Metrics parameter of processAttack, also as seen from a function literal
// that captures it.
func isPumpMetrics(v ssa.Value) bool {
	if ld, ok := isLoad(v); ok {
		v = ld.X
	}
	switch x := v.(type) {
	case *ssa.Parameter:
		return isNamedType(x.Type(), "lib/prom", "Metrics")
	case *ssa.FreeVar:
		b := bindingOf(x)
		if p, isP := b.(*ssa.Parameter); isP {
			return isNamedType(p.Type(), "lib/prom", "Metrics")
		}
		if al, isAl := b.(*ssa.Alloc); isAl {
			n, good := 0, 0
			for _, r := range refs(al) {
				if st, isSt := r.(*ssa.Store); isSt && st.Addr == ssa.Value(al) {
					n++
					if p, isP := st.Val.(*ssa.Parameter); isP && isNamedType(p.Type(), "lib/prom", "Metrics") {
						good++
					}
				}
			}
			return n == 1 && good == 1
		}
	}
	return false
}

func c02Pump(c *Ctx) {
	withoutInline(func() { c02PumpIn(c) })
}

func c02PumpIn(c *Ctx) {
	const rule = "processAttack: every result received is observed (when metrics are enabled) and encoded before the next receive; a closed channel ends the pump with nil; a signal calls Stop and keeps draining unless Stop reports it was already stopped"
	fn := c.P.Func("", "processAttack")
	key := "cli-pump:main.processAttack"
	if fn == nil {
		c.Undecided(key, rule, "main.processAttack not found")
		return
	}
	c.Saw("function " + shortFn(fn))
	var sel *ssa.Select
	nSel := 0
	eachInstr(fn, func(i ssa.Instruction) {
		if s, ok := i.(*ssa.Select); ok {
			sel = s
			nSel++
		}
	})
	if nSel != 1 || !sel.Blocking {
		c.Fail(key, rule, "expected exactly one blocking select", c.fnAt(fn))
		return
	}
	resIdx, sigIdx := -1, -1
	for k, st := range sel.States {
		if st.Dir != types.RecvOnly {
			continue
		}
		ch := st.Chan.Type().Underlying().(*types.Chan)
		if isNamedType(ch.Elem(), "lib", "Result") {
			resIdx = k
		} else if isNamedType(ch.Elem(), "os", "Signal") {
			sigIdx = k
		}
	}
	if resIdx < 0 || sigIdx < 0 {
		c.Fail(key, rule, "select does not receive from both the results and the signal channel", c.at(sel))
		return
	}
	resBlk := selectCaseBlock(sel, resIdx)
	sigBlk := selectCaseBlock(sel, sigIdx)
	if resBlk == nil || sigBlk == nil {
		c.Undecided(key, rule, "cannot locate case blocks", c.at(sel))
		return
	}
	// ok flag of the receive: extract #1 of the select tuple
	var okIf *ssa.If
	var recvVal ssa.Value
	for _, r := range refs(sel) {
		if ex, ok := r.(*ssa.Extract); ok {
			if ex.Index == 1 {
				if i := trueImpliesIf(ex); i != nil {
					okIf = i
				} else if i := falseImpliesIf(ex); i != nil {
					okIf = i
				}
			}
			if ex.Index >= 2 && isNamedType(ex.Type(), "lib", "Result") {
				recvVal = ex
			}
		}
	}
	if okIf == nil || recvVal == nil {
		c.Fail(key, rule, "the closed-channel flag of the receive is not tested", c.at(sel))
		return
	}
	// orient: which successor is "ok"?
	okSucc, closedSucc := okIf.Block().Succs[0], okIf.Block().Succs[1]
	if u, isNot := okIf.Cond.(*ssa.UnOp); isNot && u.Op == token.NOT {
		okSucc, closedSucc = closedSucc, okSucc
	}
	// closed → return nil without encode
	setC := exploreBlock(closedSucc, func(i ssa.Instruction) bool { return i == ssa.Instruction(sel) })
	rc := returnsIn(setC)
	if len(rc) == 0 || setC[ssa.Instruction(sel)] {
		c.Fail(key, rule, "a closed results channel does not end the pump", c.at(okIf))
		return
	}
	for _, r := range rc {
		if k, ok := r.(*ssa.Return).Results[0].(*ssa.Const); !ok || k.Value != nil {
			c.Fail(key, rule, "closed channel returns a non-nil error", c.at(r))
			return
		}
	}
	// ok → Encode(r) must-pass before next select or return; the encode (and observe) may live in a helper
	isEncodeIn := func(val ssa.Value) func(ssa.Instruction) bool {
		return func(i ssa.Instruction) bool {
			call, ok := i.(*ssa.Call)
			return ok && callName(&call.Call) == "(lib.Encoder).Encode" && len(call.Call.Args) == 2 && call.Call.Args[1] == val
		}
	}
	ctxFn, ctxVal := fn, recvVal
	var ctxStart *ssa.BasicBlock = okSucc
	isConsume := isEncodeIn(recvVal)
	if len(findInstrs(fn, isConsume)) == 0 {
		// helper H(..., r, ...) that encodes its parameter on every path
		eachInstr(fn, func(i ssa.Instruction) {
			call, ok := i.(*ssa.Call)
			if !ok {
				return
			}
			h := call.Call.StaticCallee()
			if h == nil && !call.Call.IsInvoke() {
				// a function literal held in a local (`record := func(r *Result) error {…}`)
				if g := closureOf(resolveOnceV(call.Call.Value)); g != nil && g.Parent() == fn {
					h = g
				}
			}
			if h == nil || h.Pkg != fn.Pkg || len(h.Blocks) == 0 {
				return
			}
			for k, arg := range call.Call.Args {
				if arg != recvVal || k >= len(h.Params) {
					continue
				}
				p := h.Params[k]
				enc := isEncodeIn(p)
				set := explore(h.Blocks[0].Instrs[0], true, enc)
				if len(findInstrs(h, enc)) > 0 && len(returnsIn(set)) == 0 {
					theCall := call
					isConsume = func(x ssa.Instruction) bool { return x == ssa.Instruction(theCall) }
					ctxFn, ctxVal, ctxStart = h, p, h.Blocks[0]
				}
			}
		})
	}
	setE := exploreBlock(okSucc, isConsume)
	skipped := false
	for i := range setE {
		if i == ssa.Instruction(sel) {
			skipped = true
		}
	}
	if skipped || len(returnsIn(setE)) > 0 {
		c.Fail(key, rule, "a received result can be dropped without being encoded", c.at(okIf))
		return
	}
	// Observe: on the pm != nil edge, Observe(v) must-pass before Encode
	isEncode := isEncodeIn(ctxVal)
	var pmIf *ssa.If
	eachInstr(ctxFn, func(i ssa.Instruction) {
		if bo, ok := i.(*ssa.BinOp); ok && bo.Op == token.NEQ {
			if isPumpMetrics(bo.X) {
				if k, ok := bo.Y.(*ssa.Const); ok && k.Value == nil {
					pmIf = trueImpliesIf(bo)
				}
			}
		}
	})
	encs := findInstrs(ctxFn, isEncode)
	// hoisted form: `observe := func(*Result){}; if pm != nil { observe = pm.Observe }` … `observe(r)`
	observedByVar := false
	{
		eachInstr(ctxFn, func(i ssa.Instruction) {
			call, ok := i.(*ssa.Call)
			if !ok || call.Call.IsInvoke() || call.Call.StaticCallee() != nil || len(call.Call.Args) != 1 || call.Call.Args[0] != ctxVal {
				return
			}
			cands := []ssa.Value{call.Call.Value}
			if phi, isPhi := call.Call.Value.(*ssa.Phi); isPhi {
				cands = phi.Edges
			}
			nObs, bad := 0, false
			for _, cv := range cands {
				if cv == call.Call.Value {
					continue // the variable carried round the loop
				}
				if m := boundMethod(cv); m != nil && shortFn(m) == "(*lib/prom.Metrics).Observe" {
					if mc := strip(cv).(*ssa.MakeClosure); len(mc.Bindings) == 1 {
						if p, isP := mc.Bindings[0].(*ssa.Parameter); isP && isNamedType(p.Type(), "lib/prom", "Metrics") {
							nObs++
							continue
						}
					}
					bad = true
					continue
				}
				if f := closureOf(cv); f != nil && len(f.Blocks) == 1 && len(f.Blocks[0].Instrs) == 1 {
					continue // the no-op used when metrics are disabled
				}
				bad = true
			}
			if bad || nObs == 0 {
				return
			}
			// every received result passes the observer before it is encoded
			set := exploreBlock(ctxStart, func(x ssa.Instruction) bool { return x == ssa.Instruction(call) })
			for x := range set {
				if isEncode(x) || x == ssa.Instruction(sel) {
					return
				}
			}
			if len(returnsIn(set)) == 0 {
				observedByVar = true
			}
		})
	}
	if observedByVar {
		pmIf = nil
	} else if pmIf == nil || len(encs) == 0 || !instrDominates(pmIf, encs[0]) || (ctxFn == fn && !edgeDominates(okIf.Block(), indexOfSucc(okIf.Block(), okSucc), pmIf.Block())) {
		c.Fail(key, rule, "no `pm != nil` test before the result is encoded", c.at(okIf))
		return
	}
	_ = ctxStart
	isObserve := func(i ssa.Instruction) bool {
		call, ok := i.(*ssa.Call)
		return ok && callName(&call.Call) == "(*lib/prom.Metrics).Observe" && len(call.Call.Args) == 2 && call.Call.Args[1] == ctxVal
	}
	if pmIf != nil {
		setO := exploreBlock(pmIf.Block().Succs[0], isObserve)
		for i := range setO {
			if isEncode(i) || i == ssa.Instruction(sel) {
				c.Fail(key, rule, "with metrics enabled a result can be encoded without being observed", c.at(pmIf))
				return
			}
		}
		if len(returnsIn(setO)) > 0 {
			c.Fail(key, rule, "with metrics enabled a result can be skipped by Observe", c.at(pmIf))
			return
		}
	}
	// signal → Stop; !stopSent → return nil; else continue
	var stopCall *ssa.Call
	setS := exploreBlock(sigBlk, func(i ssa.Instruction) bool {
		if call, ok := i.(*ssa.Call); ok && callName(&call.Call) == "(*lib.Attacker).Stop" {
			stopCall = call
			return true
		}
		return false
	})
	if stopCall == nil || setS[ssa.Instruction(sel)] || len(returnsIn(setS)) > 0 {
		c.Fail(key, rule, "the signal case does not always call Stop", c.at(sel))
		return
	}
	sIf := trueImpliesIf(stopCall)
	fIf := falseImpliesIf(stopCall)
	_ = fIf
	okSig := false
	if sIf != nil {
		// determine polarity: cond may be !stopSent
		tEdge, fEdge := sIf.Block().Succs[0], sIf.Block().Succs[1]
		if u, isNot := sIf.Cond.(*ssa.UnOp); isNot && u.Op == token.NOT {
			tEdge, fEdge = fEdge, tEdge
		}
		// stopSent==true → back to select (keeps draining); false → return nil
		st := exploreBlock(tEdge, func(i ssa.Instruction) bool { return i == ssa.Instruction(sel) })
		sf := exploreBlock(fEdge, func(i ssa.Instruction) bool { return i == ssa.Instruction(sel) })
		okSig = len(returnsIn(st)) == 0 && len(returnsIn(sf)) > 0
	}
	if !okSig {
		c.Fail(key, rule, "after the first signal the pump must keep draining, after the second it must return", c.at(stopCall))
		return
	}
	c.Pass(key, rule, "observe → encode on every received result; closed → nil; two-stage signal", c.at(sel))
}

func indexOfSucc(b, s *ssa.BasicBlock) int {
	for k, x := range b.Succs {
		if x == s {
			return k
		}
	}
	return 0
}
