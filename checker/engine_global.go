package main

import (
	"go/ast"
	"go/constant"
	"go/types"

	"golang.org/x/tools/go/ssa"
)

// globalLit describes a package-level variable initialised by a composite literal and never
// assigned again: a table written once in the source.
type globalLit struct {
	Pos       string
	Elems     []constant.Value          // slice/array literal of constants (nil entries: non-constant)
	Keys      []constant.Value          // map literal: constant keys, in source order
	Funcs     map[string]*types.Func    // map literal: key (string) → function named as the value
	Consts    map[string]constant.Value // map literal: key (string) → constant value
	ElemFuncs []*types.Func             // function named by each positional element (nil when it is not a function)
}

// globalLiteral finds the literal a repository global is initialised with. It returns nil when the
// variable has no literal initialiser or is stored to anywhere outside the package initialiser.
func globalLiteral(c *Ctx, g *ssa.Global) *globalLit {
	if g == nil || g.Pkg == nil || !c.P.isRepoPkg(g.Pkg.Pkg.Path()) {
		return nil
	}
	for _, fn := range c.P.AllRepoFuncs() {
		written := false
		eachInstr(fn, func(i ssa.Instruction) {
			if st, ok := i.(*ssa.Store); ok && st.Addr == ssa.Value(g) {
				written = true
			}
			if st, ok := i.(*ssa.Store); ok {
				if ia, isIA := st.Addr.(*ssa.IndexAddr); isIA && ia.X == ssa.Value(g) {
					written = true // an element of a package-level array is assigned
				}
			}
			if mu, ok := i.(*ssa.MapUpdate); ok {
				if ld, isL := isLoad(mu.Map); isL && ld.X == ssa.Value(g) {
					written = true
				}
			}
		})
		if written && fn.Name() != "init" {
			return nil
		}
	}
	var pk = c.P.Pkgs[g.Pkg.Pkg.Path()]
	if pk == nil {
		return nil
	}
	for _, f := range pk.Syntax {
		for _, d := range f.Decls {
			gd, ok := d.(*ast.GenDecl)
			if !ok {
				continue
			}
			for _, sp := range gd.Specs {
				vs, ok := sp.(*ast.ValueSpec)
				if !ok {
					continue
				}
				for k, id := range vs.Names {
					if pk.TypesInfo.Defs[id] != g.Object() || k >= len(vs.Values) {
						continue
					}
					cl, ok := vs.Values[k].(*ast.CompositeLit)
					if !ok {
						return nil
					}
					out := &globalLit{Pos: c.P.Pos(id.Pos()), Funcs: map[string]*types.Func{}, Consts: map[string]constant.Value{}}
					for _, e := range cl.Elts {
						if kv, isKV := e.(*ast.KeyValueExpr); isKV {
							ktv := pk.TypesInfo.Types[kv.Key]
							out.Keys = append(out.Keys, ktv.Value)
							ks := ""
							if ktv.Value != nil && ktv.Value.Kind() == constant.String {
								ks = constant.StringVal(ktv.Value)
							}
							if vtv := pk.TypesInfo.Types[kv.Value]; vtv.Value != nil {
								out.Consts[ks] = vtv.Value
							}
							var vid *ast.Ident
							switch v := kv.Value.(type) {
							case *ast.Ident:
								vid = v
							case *ast.SelectorExpr:
								vid = v.Sel
							}
							if vid != nil {
								if fo, isF := pk.TypesInfo.Uses[vid].(*types.Func); isF {
									out.Funcs[ks] = fo
								}
							}
							continue
						}
						out.Elems = append(out.Elems, pk.TypesInfo.Types[e].Value)
						var eid *ast.Ident
						switch v := e.(type) {
						case *ast.Ident:
							eid = v
						case *ast.SelectorExpr:
							eid = v.Sel
						}
						var ef *types.Func
						if eid != nil {
							ef, _ = pk.TypesInfo.Uses[eid].(*types.Func)
						}
						out.ElemFuncs = append(out.ElemFuncs, ef)
					}
					return out
				}
			}
		}
	}
	return nil
}

// loadedGlobal: v is a load of a package-level variable.
func loadedGlobal(v ssa.Value) *ssa.Global {
	ld, ok := isLoad(v)
	if !ok {
		return nil
	}
	g, _ := ld.X.(*ssa.Global)
	return g
}
