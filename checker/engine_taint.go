package main

import (
	"fmt"
	"go/types"

	"golang.org/x/tools/go/ssa"
)

// Borrow analysis (E3): slices obtained from a borrowed source must not reach
// a mutating sink. Flow-sensitive for local cells (a later store of a fresh
// copy kills the taint), map-insensitive for containers (storing a tainted
// slice into map M taints every lookup from M), one level of callee summaries.

type borrowSink struct {
	Instr ssa.Instruction
	What  string
}

type borrowResult struct {
	Tainted map[ssa.Value]bool
	Sinks   []borrowSink
}

var externalMutators = map[string]bool{
	"sort.Strings": true, "sort.Sort": true, "sort.Stable": true, "sort.Slice": true, "sort.SliceStable": true,
	"slices.Sort": true, "slices.SortFunc": true, "slices.Reverse": true, "slices.SortStableFunc": true,
	"math/rand.Shuffle": false, // mutation happens through the swap closure, found by the IndexAddr rule
}

func containerKey(m ssa.Value) string {
	if ld, ok := isLoad(m); ok {
		return path(ld.X)
	}
	return path(m)
}

// analyzeBorrow runs over fn and all closures nested in it.
func analyzeBorrow(fn *ssa.Function, isSource func(ssa.Value) bool, depth int) *borrowResult {
	res := &borrowResult{Tainted: map[ssa.Value]bool{}}
	fns := withAnon(fn)
	containers := map[string]bool{}
	taintedFree := map[*ssa.FreeVar]bool{} // captured cell holds a tainted value when the closure runs
	mark := func(v ssa.Value) bool {
		if v == nil || res.Tainted[v] {
			return false
		}
		res.Tainted[v] = true
		return true
	}
	isT := func(v ssa.Value) bool { return v != nil && res.Tainted[v] }

	// cellStoreReach: tainted store S to cell C reaches instruction i without another store to C.
	reachFromStore := func(st *ssa.Store) map[ssa.Instruction]bool {
		cell := st.Addr
		return explore(st, false, func(i ssa.Instruction) bool {
			if s2, ok := i.(*ssa.Store); ok && s2 != st && s2.Addr == cell {
				return true
			}
			return false
		})
	}

	changed := true
	for iter := 0; changed && iter < 50; iter++ {
		changed = false
		for _, f := range fns {
			eachInstr(f, func(i ssa.Instruction) {
				v, isVal := i.(ssa.Value)
				if isVal && isSource(v) {
					if mark(v) {
						changed = true
					}
				}
				switch x := i.(type) {
				case *ssa.Slice:
					if isT(x.X) && mark(x) {
						changed = true
					}
				case *ssa.Phi:
					for _, e := range x.Edges {
						if isT(e) && mark(x) {
							changed = true
						}
					}
				case *ssa.ChangeType:
					if isT(x.X) && mark(x) {
						changed = true
					}
				case *ssa.Convert:
					if _, isSlice := x.Type().Underlying().(*types.Slice); isSlice && isT(x.X) && mark(x) {
						changed = true
					}
				case *ssa.MakeInterface:
					if isT(x.X) && mark(x) {
						changed = true
					}
				case *ssa.Call:
					n := callName(&x.Call)
					if n == "builtin:append" && len(x.Call.Args) >= 1 && isT(x.Call.Args[0]) {
						if mark(x) {
							changed = true
						}
					}
				case *ssa.Lookup:
					if _, isMap := x.X.Type().Underlying().(*types.Map); isMap && containers[containerKey(x.X)] {
						if x.CommaOk {
							for _, r := range refs(x) {
								if ex, ok := r.(*ssa.Extract); ok && ex.Index == 0 && mark(ex) {
									changed = true
								}
							}
						} else if mark(x) {
							changed = true
						}
					}
				case *ssa.Extract:
					// value ranged out of a tainted container map
					if nx, ok := x.Tuple.(*ssa.Next); ok && x.Index == 2 {
						if rg, ok := nx.Iter.(*ssa.Range); ok && containers[containerKey(rg.X)] {
							if mark(x) {
								changed = true
							}
						}
					}
				case *ssa.MapUpdate:
					if isT(x.Value) {
						k := containerKey(x.Map)
						if !containers[k] {
							containers[k] = true
							changed = true
						}
					}
				case *ssa.Store:
					if !isT(x.Val) {
						return
					}
					switch a := x.Addr.(type) {
					case *ssa.Alloc:
						reach := reachFromStore(x)
						for j := range reach {
							if ld, ok := j.(*ssa.UnOp); ok && ld.X == ssa.Value(a) && mark(ld) {
								changed = true
							}
							if mc, ok := j.(*ssa.MakeClosure); ok {
								if cf, ok := mc.Fn.(*ssa.Function); ok {
									for k, b := range mc.Bindings {
										if b == ssa.Value(a) && k < len(cf.FreeVars) && !taintedFree[cf.FreeVars[k]] {
											taintedFree[cf.FreeVars[k]] = true
											changed = true
										}
									}
								}
							}
						}
					case *ssa.FreeVar:
						// store into a captured cell from inside a closure: loads after it in this closure
						reach := reachFromStore(x)
						for j := range reach {
							if ld, ok := j.(*ssa.UnOp); ok && ld.X == ssa.Value(a) && mark(ld) {
								changed = true
							}
						}
					case *ssa.FieldAddr:
						p := path(a)
						for _, g := range fns {
							eachInstr(g, func(j ssa.Instruction) {
								if ld, ok := j.(*ssa.UnOp); ok {
									if fa2, ok := ld.X.(*ssa.FieldAddr); ok && path(fa2) == p && mark(ld) {
										changed = true
									}
								}
							})
						}
					}
				case *ssa.UnOp:
					if fv, ok := x.X.(*ssa.FreeVar); ok && taintedFree[fv] {
						// loads of a captured cell that was tainted when the closure was made, unless
						// an untainted store inside the closure dominates the load
						killed := false
						for _, r := range refs(fv) {
							if st, ok := r.(*ssa.Store); ok && st.Addr == ssa.Value(fv) && !isT(st.Val) && instrDominates(st, x) {
								killed = true
							}
						}
						if !killed && mark(x) {
							changed = true
						}
					}
				}
			})
		}
	}

	// sinks
	seen := map[ssa.Instruction]bool{}
	add := func(i ssa.Instruction, what string) {
		if !seen[i] {
			seen[i] = true
			res.Sinks = append(res.Sinks, borrowSink{i, what})
		}
	}
	for _, f := range fns {
		eachInstr(f, func(i ssa.Instruction) {
			switch x := i.(type) {
			case *ssa.Store:
				if ia, ok := x.Addr.(*ssa.IndexAddr); ok && isT(ia.X) {
					add(i, "element of a borrowed slice is overwritten")
				}
			case ssa.CallInstruction:
				cc := x.Common()
				n := callName(cc)
				switch {
				case n == "builtin:append" && len(cc.Args) >= 1 && isT(cc.Args[0]):
					add(i, "append onto a borrowed slice writes into its spare capacity")
				case n == "builtin:copy" && len(cc.Args) == 2 && isT(cc.Args[0]):
					add(i, "copy into a borrowed slice")
				case externalMutators[n]:
					for _, a := range cc.Args {
						if isT(a) {
							add(i, n+" reorders a borrowed slice in place")
						}
					}
				default:
					callee := cc.StaticCallee()
					if callee != nil && callee.Pkg == fn.Pkg && len(callee.Blocks) > 0 && depth < 2 && callee.Parent() == nil {
						for k, a := range cc.Args {
							if !isT(a) || k >= len(callee.Params) {
								continue
							}
							p := callee.Params[k]
							sub := analyzeBorrow(callee, func(v ssa.Value) bool { return v == ssa.Value(p) }, depth+1)
							if len(sub.Sinks) > 0 {
								add(i, fmt.Sprintf("%s mutates its argument in place (%s)", shortFn(callee), sub.Sinks[0].What))
							}
						}
					}
				}
			}
		})
	}
	sortSinks(res.Sinks)
	return res
}

func sortSinks(s []borrowSink) {
	for a := 1; a < len(s); a++ {
		for b := a; b > 0 && instrPos(s[b].Instr) < instrPos(s[b-1].Instr); b-- {
			s[b], s[b-1] = s[b-1], s[b]
		}
	}
}
