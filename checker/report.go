package main

import (
	"encoding/json"
	"fmt"
	"go/token"
	"os"
	"path/filepath"
	"sort"
	"strings"
	"time"
)

// Obligation is one rule instance, keyed by rule:construct (never by line).
type Obligation struct {
	Key    string   `json:"key"`
	Rule   string   `json:"rule"`
	Status string   `json:"status"` // pass | fail | undecided | known
	Sites  []string `json:"sites,omitempty"`
	Detail string   `json:"detail,omitempty"`
	Config string   `json:"config,omitempty"`
}

// Ctx accumulates the obligations of one property on one build configuration.
type Ctx struct {
	P    *Program
	Prop string
	Tier string
	Obs  []*Obligation
	// Analysed records what was looked at (functions, call sites) for evidence.
	Analysed map[string]bool
}

func NewCtx(p *Program, prop string) *Ctx {
	curProgram = p
	return &Ctx{P: p, Prop: prop, Analysed: map[string]bool{}}
}

func (c *Ctx) pos(pos token.Pos) string { return c.P.Pos(pos) }

func (c *Ctx) add(key, rule, status, detail string, sites ...string) *Obligation {
	o := &Obligation{Key: key, Rule: rule, Status: status, Detail: detail, Sites: sites, Config: c.P.Config}
	c.Obs = append(c.Obs, o)
	return o
}

// Pass records a discharged obligation that matched at least one real construct.
func (c *Ctx) Pass(key, rule, detail string, sites ...string) {
	if len(sites) == 0 {
		c.add(key, rule, "undecided", "obligation passed over zero sites (vacuous): "+detail)
		return
	}
	c.add(key, rule, "pass", detail, sites...)
}

func (c *Ctx) Fail(key, rule, detail string, sites ...string) {
	c.add(key, rule, "fail", detail, sites...)
}

// Undecided is a failure: the anchor could not be resolved or the idiom is not recognised.
func (c *Ctx) Undecided(key, rule, detail string, sites ...string) {
	c.add(key, rule, "undecided", detail, sites...)
}

// Check is sugar: ok → Pass, else Fail.
func (c *Ctx) Check(ok bool, key, rule, passDetail, failDetail string, sites ...string) bool {
	if ok {
		c.Pass(key, rule, passDetail, sites...)
	} else {
		c.Fail(key, rule, failDetail, sites...)
	}
	return ok
}

func (c *Ctx) Saw(what string) { c.Analysed[what] = true }

// ---- known findings -------------------------------------------------------

type Finding struct {
	Property string `json:"property"`
	Key      string `json:"key"`
	Status   string `json:"status"` // known | fixed
	Commit   string `json:"commit,omitempty"`
	What     string `json:"what"`
}

type FindingsFile struct {
	Findings []Finding `json:"findings"`
}

func loadFindings(path string) (*FindingsFile, error) {
	var ff FindingsFile
	b, err := os.ReadFile(path)
	if err != nil {
		if os.IsNotExist(err) {
			return &ff, nil
		}
		return nil, err
	}
	if err := json.Unmarshal(b, &ff); err != nil {
		return nil, err
	}
	return &ff, nil
}

// ---- evidence -------------------------------------------------------------

type evidence struct {
	PropertyID  string         `json:"property_id"`
	Tier        string         `json:"tier"`
	Seed        int            `json:"seed"`
	Level       string         `json:"level"`
	Coverage    map[string]any `json:"coverage"`
	Assumptions []string       `json:"assumptions"`
	WallS       float64        `json:"wall_s"`
	Violations  int            `json:"violations"`
}

type propSpec struct {
	ID          string
	Title       string
	Explanation string   // what is decided / not decided (rule texts are attached per obligation)
	Assumptions []string // trusted base
	MinObs      int      // floor on distinct obligation keys confirmed by hand on today's tree
	Run         func(c *Ctx)
}

type runResult struct {
	obs      []*Obligation
	analysed map[string]bool
	configs  []string
	nfuncs   int
	npkgs    int
}

func finish(spec *propSpec, tier string, seed int, rr *runResult, ff *FindingsFile, verifDir string, start time.Time, fatal string) int {
	viol := 0
	var violLines, knownLines []string
	known := map[string]Finding{}
	for _, f := range ff.Findings {
		if f.Property == spec.ID && f.Status == "known" {
			known[f.Key] = f
		}
	}
	distinct := map[string]bool{}
	statusCount := map[string]int{}
	seenKnown := map[string]bool{}
	seenViol := map[string]bool{}
	for _, o := range rr.obs {
		if o.Status == "fail" {
			if f, ok := known[o.Key]; ok {
				o.Status = "known"
				if !seenKnown[o.Key] {
					seenKnown[o.Key] = true
					knownLines = append(knownLines, fmt.Sprintf("KNOWN-FINDING: property=%s %s (%s)", spec.ID, o.Key, f.What))
				}
			}
		}
		statusCount[o.Status]++
		if o.Status == "pass" || o.Status == "known" || o.Status == "fail" {
			if len(o.Sites) > 0 {
				distinct[o.Key] = true
			}
		}
		if o.Status == "fail" || o.Status == "undecided" {
			k := o.Key + "|" + o.Detail
			if !seenViol[k] {
				seenViol[k] = true
				viol++
				site := "?"
				if len(o.Sites) > 0 {
					site = strings.Join(o.Sites, ",")
				}
				violLines = append(violLines, fmt.Sprintf("%s: %s: %s: %s [%s]", site, o.Status, o.Key, o.Detail, o.Config))
			}
		}
	}
	if fatal != "" {
		viol++
		violLines = append(violLines, "checker: "+fatal)
	}
	if fatal == "" && len(distinct) < spec.MinObs {
		viol++
		violLines = append(violLines, fmt.Sprintf("checker: only %d distinct obligations matched real constructs, floor is %d (a rule matched nothing: anchors moved or the matcher rotted)", len(distinct), spec.MinObs))
	}

	// samples: every obligation, compactly (first config only to keep the file readable).
	var samples []any
	firstCfg := ""
	if len(rr.configs) > 0 {
		firstCfg = rr.configs[0]
	}
	for _, o := range rr.obs {
		if o.Config != firstCfg && o.Status == "pass" {
			continue
		}
		samples = append(samples, o)
	}
	var analysed []string
	for k := range rr.analysed {
		analysed = append(analysed, k)
	}
	sort.Strings(analysed)

	ev := evidence{
		PropertyID: spec.ID,
		Tier:       tier,
		Seed:       seed,
		Level:      "other",
		Coverage: map[string]any{
			"explanation":         spec.Explanation + laterRules[spec.ID] + engineNote,
			"evaluations":         len(rr.obs),
			"distinct_nontrivial": len(distinct),
			"rule":                "one evaluation = one obligation (rule:construct) decided on one build configuration from the type-checked source / SSA of /repo; distinct_nontrivial = distinct obligation keys that matched at least one real construct in /repo (an obligation over zero sites is reported undecided, not counted)",
			"samples":             samples,
			"obligations":         len(rr.obs),
			"discharged":          statusCount["pass"],
			"known_findings":      statusCount["known"],
			"failed":              statusCount["fail"],
			"undecided":           statusCount["undecided"],
			"configurations":      rr.configs,
			"repo_packages":       rr.npkgs,
			"repo_functions_ssa":  rr.nfuncs,
			"analysed":            analysed,
			"exhaustive":          fatal == "",
			"checker_cmd":         strings.Join(os.Args, " "),
		},
		Assumptions: spec.Assumptions,
		WallS:       time.Since(start).Seconds(),
		Violations:  viol,
	}
	evDir := filepath.Join(verifDir, "evidence")
	os.MkdirAll(evDir, 0o755)
	b, _ := json.MarshalIndent(ev, "", " ")
	if err := os.WriteFile(filepath.Join(evDir, spec.ID+".json"), append(b, '\n'), 0o644); err != nil {
		fmt.Fprintln(os.Stderr, "cannot write evidence:", err)
		return 2
	}
	fmt.Printf("property=%s tier=%s configs=%v obligations=%d pass=%d known=%d fail=%d undecided=%d distinct=%d wall=%.1fs\n",
		spec.ID, tier, rr.configs, len(rr.obs), statusCount["pass"], statusCount["known"], statusCount["fail"], statusCount["undecided"], len(distinct), time.Since(start).Seconds())
	for _, l := range knownLines {
		fmt.Println(l)
	}
	vpath := filepath.Join(evDir, spec.ID+".violations.json")
	if viol > 0 {
		sort.Strings(violLines)
		vb, _ := json.MarshalIndent(map[string]any{"property_id": spec.ID, "violations": violLines}, "", " ")
		os.WriteFile(vpath, append(vb, '\n'), 0o644)
		for _, l := range violLines {
			fmt.Println(l)
		}
		fmt.Printf("VIOLATION property=%s replay=%s\n", spec.ID, vpath)
		return 1
	}
	os.Remove(vpath)
	return 0
}

// laterRules: rules added after the first build (DESIGN.md section 9), appended to each property's
// coverage explanation so that the evidence names everything that was evaluated.
var laterRules = map[string]string{
	"C01": " ALSO DECIDED: tolerance-two-sided (a float difference compared with a small positive tolerance goes through math.Abs or is bounded on both sides — the sine pacer's convergence test); float-precision (no run-time integer quotient feeds a float64 schedule formula); mul-wrap and overflow-guard follow single-site helpers of Pace; divisor facts established by the caller hold inside such helpers. overflow-guard also covers products computed in time.Duration.",
	"C02": " ALSO DECIDED: the sequence counter is identified structurally (the field loaded into Result.Seq) and must belong to the per-attack object; function-literal workers and deferred named shutdown helpers are recognised. dependencies (the rules of C01 that no shipped pacer method can panic and the lockset rule of C15 that the targeters release their lock on every path are obligations here too: a panicking pacer or a targeter returning with its mutex held prevents the clean end).",
	"C03": " ALSO DECIDED: ticks-unbuffered (the tick channel is a rendezvous); growth-condition (before the non-blocking offer the only extra branch condition is the spare-capacity test). refused-offer-must-spawn (after a refused non-blocking offer the blocking offer is reached only past a worker spawn, except on the pool-is-full edge of a counter-against-maximum test: a spawn inside a loop that may run zero times starts nobody).",
	"C04": " ALSO DECIDED: ticks-unbuffered; the start instant is written once in Attack from time.Now(); duration test in either polarity; three-clause for loops.",
	"C06": " ALSO DECIDED: request-untouched (hit assigns no field of the *http.Request except TransferEncoding; ContentLength is what bytes-out is read from). request-length (Target.Request stores neither ContentLength nor Body after http.NewRequest: bytes-out is read from ContentLength).",
	"C07": " ALSO DECIDED: complete-lines (shared with C09: the JSON decoder parses copied, newline-terminated lines of any length; bufio.Scanner framing is rejected); the header wire-format helper is recognised by effect, also when written in place. eof-unwrapped (the gob, CSV and JSON decoders never pass an error that may be io.EOF to an error-building call unless io.EOF was excluded first: consumers compare with io.EOF).",
	"C08": " ALSO DECIDED: output-truncated (os.Create or O_TRUNC); codec-table agreement of C07 and the complete-line rule of C09 (transcoding chains); table form of the -to selection. lexer-options (only the input of the jlexer.Lexer is set: UseMultipleErrors would turn type errors into non-fatal ones that Error() does not report). decode-sites (any further function of package main that calls a Decoder is held to the decode-loop rule). one-decoder-per-file also requires that DecoderFor is given the opened input itself, that no input is skipped, and that the decoder kept is the detected one on every path.",
	"C09": " ALSO DECIDED: sniff-replay of DecoderFor (shared with C08): the commands reach every decoder through it. decode-sites (any further function of package main that calls a Decoder is held to the decode-loop rule). one-decoder-per-file (DecoderFor is given the opened input itself: no reader in between completes a cut record).",
	"C10": " ALSO DECIDED: first-sample-marker (the field whose nil-ness Add uses as 'first sample' is written on the shared value only from Add); builtin min/max accumulator form; single-site helpers of Add are analysed as inlined. a min/max update written as a first-sample arm and a comparison arm on the two edges of one test is judged as one update. per-second-guard (every division by elapsed seconds reachable from Close is decided by Duration > 0 alone, in its own function or at every call site of a helper). end-definition (Result.End is Timestamp.Add(Latency) on every path).",
	"C11": " ALSO DECIDED: the t-digest adapter itself (not a wrapper around it) is what init installs. split-conversion (where the HDR reporter splits a duration into d/U and d%U the remainder is divided by the same U; a delegating constructor is followed).",
	"C12": " ALSO DECIDED: bucket fields are trimmed of all white space before time.ParseDuration; bounds come from ParseDuration unchanged (wrapper recognised); comparison polarity is tracked, the scan may live in a single-site helper. render-owned (MarshalJSON's result is not backed by a field of the histogram). pristine-receiver (the report command never stores into Histogram.Buckets itself: UnmarshalText appends to its receiver).",
	"C13": " ALSO DECIDED: the round-robin decoder decodes straight into the caller's Result; complete-lines and sniff-replay (records of any length, no fixed detection window). decode-sites (any further function of package main that calls a Decoder — a helper for -every, a background reader — is held to the decode-loop rule, so end-of-input cannot overtake queued records). one-decoder-per-file also requires that no input is skipped and that the decoder kept is the detected one on every path.",
	"C14": " ALSO DECIDED: header-case scope includes the JSON target codec and Target.Equal; clone helpers must clip the capacity of values carved from one array; variadic merge helpers are followed. body-ends-block (once a call has stored the target's own body it consumes no further line it has not peeked at); lookahead-skips-comments (the request-line test on the looked-ahead line is made on a line known not to be a comment, or is repeated after every comment skipped inside the block — finding F9); exhaustion in path form (ErrNoTargets test in either polarity, inside or after the loop). header-values-fresh (the slice stored under a header name by the JSON target decoder is built within the iteration of that name).",
	"C15": " ALSO DECIDED: source-stays-open (no Close in the targeters: every caller after exhaustion gets ErrNoTargets); inner targeter literal under a thin locked wrapper; self-locking helper types. one-critical-section (the lock is taken once per call: no second acquisition reachable from the first, none in a loop, counting the local function literals the targeter calls that lock by themselves). a shallow maps.Copy / maps.Clone of the default headers is itself an aliasing sink.",
	"C16": " ALSO DECIDED: scanner-split (a custom bufio.SplitFunc advances with every token); search-result, copy() and tested i+k bounds. a lookahead wrapper (Peek) counts as consuming when every path through it consumes, its failure returns the zero value and the loop repeats only under a test the zero value fails. library Must… calls with run-time arguments are panic sites. The bodies of main.report and main.decoder (and their single-site helpers) are in the panic-site scope.",
	"C17": " ALSO DECIDED: the reorder buffer is never reassigned after construction; release loop and row construction may live in single-site helpers. row-blank (every block of float64 cells a row is taken from is filled with NaN over its whole length before a row from it is appended; rows built by helpers or carved from a backing array are followed). iter-fresh (every batch the series iterator returns is backed by an array allocated in that call: Downsample still holds the previous batch). threshold-provenance (Plot.threshold is stored only from an option parameter as given: 0 keeps meaning no downsampling).",
	"C18": " ALSO DECIDED: dns-refresh (the refresh goroutine calls Resolver.Refresh(true) inside its ticker loop: no cache entry outlives a refresh interval unresolved); the connect-to mapping is consulted once per dial, not in a loop (a replacement that is itself a source address is not translated again); bound-method dial closures and value-form previous dialers are followed. both-families (inside DNSCaching the lookup backend of the dnscache.Resolver is never replaced and no family-pinned network name is used).",
	"C19": " ALSO DECIDED: special values store the parser's result through conversions only; validation in predicate or single-site helpers is followed by path exploration. strings.Cut form of the rate syntax, concatenated String form, ParseDuration through a returning helper, strings.Join over a constant re-slice of the parts. special-reaches-option (DNSCaching, MaxBody and Redirects never reassign the parameter carrying a special value before interpreting it). Every listed resolver address is kept (no iteration of normalizeAddrs skips to the next address).",
	"C20": " ALSO DECIDED: metric-opts (vectors are created with name, help and buckets only). register-error (no failure of Registerer.Register is dropped: on every path from the error edge the error value is wrapped, joined, stored or returned before the loop goes on or Register returns).",
}

const engineNote = " ENGINE: values are described by canonical, rename-proof paths; unexported helpers with a single call site — and function literals created once, held in a register and called from one place — are analysed as if inlined (parameters bound to arguments, caller facts, context-sensitive continuation at their returns); method-value closures, literal tables and typed atomics are normalised. Verdicts therefore do not depend on identifier names or on whether a step lives in a helper."
