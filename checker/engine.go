package main

import (
	"fmt"
	"go/constant"
	"go/token"
	"go/types"
	"strings"

	"golang.org/x/tools/go/ssa"
)

// ---------- naming ----------------------------------------------------------

func shortType(t types.Type) string {
	return types.TypeString(t, func(p *types.Package) string {
		if p.Path() == modPath {
			return "main"
		}
		return strings.TrimPrefix(p.Path(), modPath+"/")
	})
}

// callName gives a resolved, stable name for the callee of a call.
//
//	static:   "(*sync.Mutex).Lock", "time.Since", "(*lib.Attacker).Stop", "lib.NewCSVEncoder$1"
//	builtin:  "builtin:close"
//	invoke:   "invoke:lib.Pacer.Pace"
//	other:    "dynamic"
func callName(cc *ssa.CallCommon) string {
	if cc.IsInvoke() {
		return "invoke:" + shortType(cc.Value.Type()) + "." + cc.Method.Name()
	}
	if b, ok := cc.Value.(*ssa.Builtin); ok {
		return "builtin:" + b.Name()
	}
	if f := cc.StaticCallee(); f != nil {
		return shortFn(f)
	}
	return "dynamic"
}

func asCall(i ssa.Instruction) (ssa.CallInstruction, bool) {
	c, ok := i.(ssa.CallInstruction)
	return c, ok
}

// isCallTo reports whether instruction i is a call/defer/go whose resolved name is one of names.
func isCallTo(i ssa.Instruction, names ...string) bool {
	c, ok := asCall(i)
	if !ok {
		return false
	}
	n := callName(c.Common())
	for _, x := range names {
		if n == x {
			return true
		}
	}
	return false
}

func eachInstr(fn *ssa.Function, f func(ssa.Instruction)) {
	for _, b := range fn.Blocks {
		for _, i := range b.Instrs {
			f(i)
		}
	}
}

// eachInstrRegion visits fn, its closures and the same-package functions it calls statically.
func eachInstrRegion(fn *ssa.Function, f func(ssa.Instruction)) {
	for _, g := range region(fn) {
		eachInstr(g, f)
	}
}

// eachInstrI visits fn and, when the rule opted in with withInline, the single-site helpers fn
// calls (transitively), as if they had been inlined back.
func eachInstrI(fn *ssa.Function, f func(ssa.Instruction)) {
	if !inlineAware || curProgram == nil {
		eachInstr(fn, f)
		return
	}
	for _, g := range inlinedRegion(curProgram, fn) {
		eachInstr(g, f)
	}
}

// callsNamedI is callsNamed over eachInstrI.
func callsNamedI(fn *ssa.Function, names ...string) []ssa.Instruction {
	var out []ssa.Instruction
	eachInstrI(fn, func(i ssa.Instruction) {
		if ci, ok := i.(ssa.CallInstruction); ok {
			n := callName(ci.Common())
			for _, x := range names {
				if n == x {
					out = append(out, i)
				}
			}
		}
	})
	return out
}

func findInstrs(fn *ssa.Function, pred func(ssa.Instruction) bool) []ssa.Instruction {
	var out []ssa.Instruction
	eachInstr(fn, func(i ssa.Instruction) {
		if pred(i) {
			out = append(out, i)
		}
	})
	return out
}

func callsNamed(fn *ssa.Function, names ...string) []ssa.Instruction {
	return findInstrs(fn, func(i ssa.Instruction) bool { return isCallTo(i, names...) })
}

// withAnon returns fn and all functions nested in it.
func withAnon(fn *ssa.Function) []*ssa.Function {
	out := []*ssa.Function{fn}
	for _, a := range fn.AnonFuncs {
		out = append(out, withAnon(a)...)
	}
	return out
}

// ---------- positions -------------------------------------------------------

func instrPos(i ssa.Instruction) token.Pos {
	if i == nil {
		return token.NoPos
	}
	if p := i.Pos(); p.IsValid() {
		return p
	}
	// fall back: operands, then neighbours in the block, then the function
	for _, op := range i.Operands(nil) {
		if *op != nil && (*op).Pos().IsValid() {
			return (*op).Pos()
		}
	}
	if b := i.Block(); b != nil {
		k := indexIn(i)
		for j := k - 1; j >= 0; j-- {
			if p := b.Instrs[j].Pos(); p.IsValid() {
				return p
			}
		}
		for j := k + 1; j < len(b.Instrs); j++ {
			if p := b.Instrs[j].Pos(); p.IsValid() {
				return p
			}
		}
	}
	if i.Parent() != nil {
		return i.Parent().Pos()
	}
	return token.NoPos
}

func (c *Ctx) at(i ssa.Instruction) string { return c.P.Pos(instrPos(i)) }

func (c *Ctx) ats(is []ssa.Instruction) []string {
	var out []string
	for _, i := range is {
		out = append(out, c.at(i))
	}
	return out
}

func (c *Ctx) fnAt(fn *ssa.Function) string {
	if fn == nil {
		return "?"
	}
	return c.P.Pos(fn.Pos())
}

// ---------- dominance -------------------------------------------------------

func indexIn(i ssa.Instruction) int {
	b := i.Block()
	for k, x := range b.Instrs {
		if x == i {
			return k
		}
	}
	return -1
}

// instrDominates: a is executed before b on every path reaching b.
func instrDominates(a, b ssa.Instruction) bool {
	if a.Parent() != b.Parent() {
		if !inlineAware || curProgram == nil {
			return false
		}
		// b inside a single-site helper (transitively) of a's function: compare with the call
		for x := b; ; {
			cs := singleSite(curProgram, x.Parent())
			if cs == nil {
				break
			}
			if cs.Parent() == a.Parent() {
				return a == ssa.Instruction(cs) || instrDominates(a, cs)
			}
			x = cs
		}
		// a inside a single-site helper of b's function: a must run on every path through the
		// helper, and the call must dominate b
		for x := a; ; {
			cs := singleSite(curProgram, x.Parent())
			if cs == nil || !dominatesAllReturns(x) {
				break
			}
			if cs.Parent() == b.Parent() {
				return instrDominates(cs, b)
			}
			x = cs
		}
		return false
	}
	if a.Block() == b.Block() {
		return indexIn(a) < indexIn(b)
	}
	return a.Block().Dominates(b.Block())
}

// edgeDominates: every path to block b goes through the edge from→from.Succs[si].
func edgeDominates(from *ssa.BasicBlock, si int, b *ssa.BasicBlock) bool {
	if si >= len(from.Succs) {
		return false
	}
	s := from.Succs[si]
	if len(from.Succs) == 2 && from.Succs[0] == from.Succs[1] {
		return false
	}
	for _, p := range s.Preds {
		if p != from && !s.Dominates(p) {
			return false
		}
	}
	// if `from` appears twice in s.Preds (both edges) it was excluded above
	return s.Dominates(b)
}

type fact struct {
	Cond ssa.Value
	Val  bool
	If   *ssa.If
}

// factsAt returns the branch conditions known to hold on entry to block b:
// the conditions of dominating branch edges, expanded through short-circuit φs
// (x/tools lowers `a || b` in a condition to φ[true, b]) and negations.
func factsAt(b *ssa.BasicBlock) []fact {
	var out []fact
	seenFact := map[ssa.Value]bool{}
	var add func(v ssa.Value, val bool, ifi *ssa.If, depth int)
	var addBlockFacts func(blk *ssa.BasicBlock, depth int)
	seenBlk := map[*ssa.BasicBlock]bool{}
	add = func(v ssa.Value, val bool, ifi *ssa.If, depth int) {
		if v == nil || depth > 12 {
			return
		}
		if _, isConst := v.(*ssa.Const); isConst {
			return
		}
		if seenFact[v] {
			return
		}
		seenFact[v] = true
		out = append(out, fact{Cond: v, Val: val, If: ifi})
		switch x := v.(type) {
		case *ssa.UnOp:
			if x.Op == token.NOT {
				add(x.X, !val, ifi, depth+1)
			}
		case *ssa.Phi:
			// which incoming edges can produce val?
			cand := -1
			n := 0
			for k, e := range x.Edges {
				if cb, ok := constBool(e); ok && cb != val {
					continue
				}
				cand = k
				n++
			}
			if n == 1 {
				pred := x.Block().Preds[cand]
				add(x.Edges[cand], val, ifi, depth+1)
				// control came through pred: its own facts hold, and so does
				// the branch it took into the φ block.
				if len(pred.Instrs) > 0 {
					if pif, ok := pred.Instrs[len(pred.Instrs)-1].(*ssa.If); ok && pred.Succs[0] != pred.Succs[1] {
						for si := range pred.Succs {
							if pred.Succs[si] == x.Block() {
								add(pif.Cond, si == 0, pif, depth+1)
							}
						}
					}
				}
				addBlockFacts(pred, depth+1)
			}
		}
	}
	addBlockFacts = func(blk *ssa.BasicBlock, depth int) {
		for cur := blk; cur != nil && !seenBlk[cur]; cur = cur.Idom() {
			seenBlk[cur] = true
			for _, p := range cur.Preds {
				if len(p.Instrs) == 0 {
					continue
				}
				ifi, ok := p.Instrs[len(p.Instrs)-1].(*ssa.If)
				if !ok {
					continue
				}
				for si := range p.Succs {
					if p.Succs[si] == cur && edgeDominates(p, si, cur) {
						add(ifi.Cond, si == 0, ifi, depth)
					}
				}
			}
		}
	}
	addBlockFacts(b, 0)
	for _, f := range callerFacts(b) {
		if !seenFact[f.Cond] {
			seenFact[f.Cond] = true
			out = append(out, f)
		}
	}
	return out
}

// factsAtLocal is factsAt restricted to b's own function.
func factsAtLocal(b *ssa.BasicBlock) []fact {
	old := inlineAware
	inlineAware = false
	defer func() { inlineAware = old }()
	return factsAt(b)
}

// sameLoadedValue: a and b are the same value, or loads of the same local cell with no store in between
// being visible to this cheap test (same block, or the cell is written once).
func sameLoadedValue(a, b ssa.Value) bool {
	if a == b {
		return true
	}
	la, okA := isLoad(a)
	lb, okB := isLoad(b)
	if !okA || !okB || la.X != lb.X {
		return false
	}
	if _, isAlloc := la.X.(*ssa.Alloc); !isAlloc {
		return false
	}
	if la.Block() == lb.Block() {
		lo, hi := indexIn(la), indexIn(lb)
		if lo > hi {
			lo, hi = hi, lo
		}
		for _, i := range la.Block().Instrs[lo:hi] {
			if st, ok := i.(*ssa.Store); ok && st.Addr == la.X {
				return false
			}
		}
		return true
	}
	// different blocks: accept when no store to the cell lies in a block strictly between them
	// (the tested load dominates the returned one and the cell is not written in that region)
	if !la.Block().Dominates(lb.Block()) && !lb.Block().Dominates(la.Block()) {
		return false
	}
	first, second := la, lb
	if lb.Block().Dominates(la.Block()) {
		first, second = lb, la
	}
	for _, r := range refs(la.X) {
		if st, ok := r.(*ssa.Store); ok && st.Addr == la.X {
			if first.Block().Dominates(st.Block()) && st.Block() != first.Block() && (st.Block() == second.Block() || st.Block().Dominates(second.Block())) {
				return false
			}
			if st.Block() == first.Block() && indexIn(st) > indexIn(first) {
				return false
			}
			if st.Block() == second.Block() && indexIn(st) < indexIn(second) {
				return false
			}
		}
	}
	return true
}

// trueImpliesIf returns the If instruction whose true branch is taken whenever
// boolean v evaluates to true, looking through `||` φs: for `if a || b {T}`
// both a and b map to the If that guards T.
func trueImpliesIf(v ssa.Value) *ssa.If {
	return implIf(v, true, 0)
}

// falseImpliesIf is the dual for `&&`.
func falseImpliesIf(v ssa.Value) *ssa.If {
	return implIf(v, false, 0)
}

func implIf(v ssa.Value, val bool, depth int) *ssa.If {
	if depth > 8 {
		return nil
	}
	for _, r := range refs(v) {
		switch x := r.(type) {
		case *ssa.If:
			if x.Cond != v || x.Block().Succs[0] == x.Block().Succs[1] {
				continue
			}
			si := 0
			if !val {
				si = 1
			}
			tgt := x.Block().Succs[si]
			// does the edge feed a short-circuit φ with the constant val?
			if len(tgt.Instrs) > 0 {
				if phi, ok := tgt.Instrs[0].(*ssa.Phi); ok {
					for k, p := range tgt.Preds {
						if p == x.Block() {
							if cb, ok := constBool(phi.Edges[k]); ok && cb == val {
								if inner := implIf(phi, val, depth+1); inner != nil {
									return inner
								}
							}
						}
					}
				}
			}
			return x
		case *ssa.Phi:
			// v is an operand of a short-circuit φ: when v's block falls
			// straight into the φ block through v's own edge, φ == v.
			for k, e := range x.Edges {
				if e != v {
					continue
				}
				pred := x.Block().Preds[k]
				if len(pred.Succs) != 1 {
					continue
				}
				vi, isInstr := v.(ssa.Instruction)
				if isInstr && vi.Block() != pred && !vi.Block().Dominates(pred) {
					continue
				}
				if inner := implIf(x, val, depth+1); inner != nil {
					return inner
				}
			}
		}
	}
	return nil
}

// ---------- forward exploration --------------------------------------------

// explore walks forward from the instruction after start (or from start itself
// when inclusive) and returns every instruction reachable without executing an
// instruction for which stop returns true (stop instructions themselves are not
// included and cut the path).
// exploreSkipEdge, when set, removes control-flow edges from explore's view (a rule that regards one
// outcome of a test as out of scope sets it for the duration of one exploration).
var exploreSkipEdge func(from, to *ssa.BasicBlock) bool

func exploreWithout(skip func(from, to *ssa.BasicBlock) bool, start ssa.Instruction, inclusive bool, stop func(ssa.Instruction) bool) map[ssa.Instruction]bool {
	old := exploreSkipEdge
	exploreSkipEdge = skip
	defer func() { exploreSkipEdge = old }()
	return explore(start, inclusive, stop)
}

func explore(start ssa.Instruction, inclusive bool, stop func(ssa.Instruction) bool) map[ssa.Instruction]bool {
	reached := map[ssa.Instruction]bool{}
	if !inlineAware || curProgram == nil {
		// visited is keyed by (block, predecessor) only where the predecessor decides a flag test
		// (`released := false … released = true … if !released {…}`): a φ of boolean constants
		// tested in its own block is resolved per incoming edge.
		type visitKey struct {
			b    *ssa.BasicBlock
			pred *ssa.BasicBlock
		}
		visited := map[visitKey]bool{}
		var walk func(b *ssa.BasicBlock, from int, pred *ssa.BasicBlock)
		walk = func(b *ssa.BasicBlock, from int, pred *ssa.BasicBlock) {
			for k := from; k < len(b.Instrs); k++ {
				i := b.Instrs[k]
				if stop != nil && stop(i) {
					return
				}
				reached[i] = true
			}
			succs := b.Succs
			if pred != nil {
				if val, known := flagTestOnEdge(b, pred); known {
					if val {
						succs = b.Succs[:1]
					} else {
						succs = b.Succs[1:]
					}
				}
			}
			for _, s := range succs {
				if exploreSkipEdge != nil && exploreSkipEdge(b, s) {
					continue
				}
				key := visitKey{s, nil}
				if _, flagged := flagTestOnEdge(s, b); flagged {
					key.pred = b
				}
				if !visited[key] {
					visited[key] = true
					walk(s, 0, b)
				}
			}
		}
		k := indexIn(start)
		if !inclusive {
			k++
		}
		walk(start.Block(), k, nil)
		return reached
	}
	// Inline-aware: a call of a single-site helper continues inside the helper, and each of the
	// helper's returns continues after that call knowing which values that return produced (so a
	// caller's `if err != nil` after `x, err := helper()` follows only the matching edge).
	type binding struct {
		call *ssa.Call
		ret  *ssa.Return
	}
	budget := 4000
	var walk func(b *ssa.BasicBlock, from int, env []binding, visited map[*ssa.BasicBlock]bool)
	decide := func(cond ssa.Value, env []binding) (bool, bool) {
		var resultOf func(v ssa.Value) (ssa.Value, bool)
		resultOf = func(v ssa.Value) (ssa.Value, bool) {
			// `x, err = helper()` with err a captured variable: the test reads the cell just stored
			if ld, isL := isLoad(v); isL {
				blk := ld.Block()
				for j := indexIn(ld) - 1; j >= 0; j-- {
					if st, isSt := blk.Instrs[j].(*ssa.Store); isSt && st.Addr == ld.X {
						return resultOf(st.Val)
					}
				}
				return nil, false
			}
			for k := len(env) - 1; k >= 0; k-- {
				e := env[k]
				if ex, ok := v.(*ssa.Extract); ok && ex.Tuple == ssa.Value(e.call) && ex.Index < len(e.ret.Results) {
					return e.ret.Results[ex.Index], true
				}
				if v == ssa.Value(e.call) && len(e.ret.Results) == 1 {
					return e.ret.Results[0], true
				}
			}
			return nil, false
		}
		if r, ok := resultOf(cond); ok {
			if cb, isC := constBool(r); isC {
				return cb, true
			}
			return false, false
		}
		bo, ok := cond.(*ssa.BinOp)
		if !ok || (bo.Op != token.EQL && bo.Op != token.NEQ) || !isNilConst(bo.Y) {
			return false, false
		}
		r, ok := resultOf(bo.X)
		if !ok {
			return false, false
		}
		// a function with defers returns through a spill cell: `*t0 = err; rundefers; t = *t0; return t`
		if ld, isL := isLoad(r); isL {
			if _, isAl := ld.X.(*ssa.Alloc); isAl {
				blk := ld.Block()
				for j := indexIn(ld) - 1; j >= 0; j-- {
					if st, isSt := blk.Instrs[j].(*ssa.Store); isSt && st.Addr == ld.X {
						r = st.Val
						break
					}
				}
			}
		}
		switch {
		case isNilConst(r):
			return bo.Op == token.EQL, true
		case definitelyNonNil(r):
			return bo.Op == token.NEQ, true
		}
		// `if err != nil { return x, err }`: the returned value is known non-nil where it is returned
		for k := len(env) - 1; k >= 0; k-- {
			for _, f := range factsAtLocal(env[k].ret.Block()) {
				fb, isB := f.Cond.(*ssa.BinOp)
				if !isB || !isNilConst(fb.Y) || !sameLoadedValue(fb.X, r) {
					continue
				}
				isNil := fb.Op == token.EQL && f.Val || fb.Op == token.NEQ && !f.Val
				notNil := fb.Op == token.NEQ && f.Val || fb.Op == token.EQL && !f.Val
				if isNil {
					return bo.Op == token.EQL, true
				}
				if notNil {
					return bo.Op == token.NEQ, true
				}
			}
		}
		return false, false
	}
	walk = func(b *ssa.BasicBlock, from int, env []binding, visited map[*ssa.BasicBlock]bool) {
		if budget--; budget < 0 {
			return
		}
		for k := from; k < len(b.Instrs); k++ {
			i := b.Instrs[k]
			if stop != nil && stop(i) {
				return
			}
			if call, ok := i.(*ssa.Call); ok {
				if h := call.Call.StaticCallee(); h != nil && len(h.Blocks) > 0 && singleSite(curProgram, h) == call {
					reached[i] = true
					walk(h.Blocks[0], 0, env, map[*ssa.BasicBlock]bool{h.Blocks[0]: true})
					return
				}
			}
			if ret, ok := i.(*ssa.Return); ok {
				if cs := singleSite(curProgram, b.Parent()); cs != nil {
					walk(cs.Block(), indexIn(cs)+1, append(append([]binding(nil), env...), binding{cs, ret}), map[*ssa.BasicBlock]bool{})
					return
				}
			}
			reached[i] = true
		}
		succs := b.Succs
		if len(b.Instrs) > 0 && len(env) > 0 {
			if ifi, ok := b.Instrs[len(b.Instrs)-1].(*ssa.If); ok && len(b.Succs) == 2 {
				if val, known := decide(ifi.Cond, env); known {
					delete(reached, ssa.Instruction(ifi)) // not a branch in the inlined view
					if val {
						succs = b.Succs[:1]
					} else {
						succs = b.Succs[1:]
					}
				}
			}
		}
		for _, s := range succs {
			if exploreSkipEdge != nil && exploreSkipEdge(b, s) {
				continue
			}
			if !visited[s] {
				visited[s] = true
				walk(s, 0, env, visited)
			}
		}
	}
	k := indexIn(start)
	if !inclusive {
		k++
	}
	walk(start.Block(), k, nil, map[*ssa.BasicBlock]bool{})
	return reached
}

// flagTestOnEdge: block b ends in an If on (the negation of) a φ of b whose incoming value from pred
// is a boolean constant; returns the outcome of the test when b is entered from pred.
func flagTestOnEdge(b, pred *ssa.BasicBlock) (bool, bool) {
	if len(b.Instrs) == 0 || len(b.Succs) != 2 {
		return false, false
	}
	ifi, ok := b.Instrs[len(b.Instrs)-1].(*ssa.If)
	if !ok {
		return false, false
	}
	cond := ifi.Cond
	neg := false
	for {
		if u, isU := cond.(*ssa.UnOp); isU && u.Op == token.NOT {
			cond = u.X
			neg = !neg
			continue
		}
		break
	}
	phi, ok := cond.(*ssa.Phi)
	if !ok || phi.Block() != b {
		return false, false
	}
	for k, p := range b.Preds {
		if p == pred && k < len(phi.Edges) {
			if v, isC := constBool(phi.Edges[k]); isC {
				return v != neg, true
			}
		}
	}
	return false, false
}

// definitelyNonNil: a value that cannot be nil (a freshly built error or object).
func definitelyNonNil(v ssa.Value) bool {
	switch x := v.(type) {
	case *ssa.Call:
		switch callName(&x.Call) {
		case "fmt.Errorf", "errors.New":
			return true
		}
	case *ssa.MakeInterface:
		return definitelyNonNil(x.X) || !isNilConst(x.X) && func() bool { _, isC := x.X.(*ssa.Const); return isC }()
	case *ssa.Alloc, *ssa.MakeClosure, *ssa.MakeMap, *ssa.MakeSlice, *ssa.MakeChan, *ssa.Function:
		return true
	}
	return false
}

// exploreBlock is explore from the first instruction of b.
func exploreBlock(b *ssa.BasicBlock, stop func(ssa.Instruction) bool) map[ssa.Instruction]bool {
	if len(b.Instrs) == 0 {
		return nil
	}
	return explore(b.Instrs[0], true, stop)
}

func returnsIn(set map[ssa.Instruction]bool) []ssa.Instruction {
	var out []ssa.Instruction
	for i := range set {
		if _, ok := i.(*ssa.Return); ok {
			out = append(out, i)
		}
	}
	sortInstrs(out)
	return out
}

func sortInstrs(is []ssa.Instruction) {
	for a := 1; a < len(is); a++ {
		for b := a; b > 0 && instrLess(is[b], is[b-1]); b-- {
			is[b], is[b-1] = is[b-1], is[b]
		}
	}
}

func instrLess(a, b ssa.Instruction) bool {
	if a.Block() != b.Block() {
		return a.Block().Index < b.Block().Index
	}
	return indexIn(a) < indexIn(b)
}

// isSyntheticSelectPanic recognises the trailing panic block of a blocking select.
func isSyntheticSelectPanic(i ssa.Instruction) bool {
	p, ok := i.(*ssa.Panic)
	if !ok {
		return false
	}
	if mi, ok := p.X.(*ssa.MakeInterface); ok {
		if c, ok := mi.X.(*ssa.Const); ok && c.Value != nil && c.Value.Kind() == constant.String {
			return strings.Contains(constant.StringVal(c.Value), "blocking select matched no case")
		}
	}
	return false
}

// ---------- values ----------------------------------------------------------

// strip peels value-preserving wrappers.
func strip(v ssa.Value) ssa.Value {
	for {
		switch x := v.(type) {
		case *ssa.ChangeType:
			v = x.X
		case *ssa.MakeInterface:
			v = x.X
		case *ssa.ChangeInterface:
			v = x.X
		default:
			return v
		}
	}
}

// stripConv additionally peels numeric conversions.
func stripConv(v ssa.Value) ssa.Value {
	for {
		v = strip(v)
		if c, ok := v.(*ssa.Convert); ok {
			v = c.X
			continue
		}
		return v
	}
}

func isLoad(v ssa.Value) (*ssa.UnOp, bool) {
	u, ok := v.(*ssa.UnOp)
	if ok && u.Op == token.MUL {
		return u, true
	}
	return nil, false
}

func fieldName(t types.Type, idx int) string {
	if p, ok := t.Underlying().(*types.Pointer); ok {
		t = p.Elem()
	}
	if s, ok := t.Underlying().(*types.Struct); ok && idx < s.NumFields() {
		return s.Field(idx).Name()
	}
	return fmt.Sprintf("#%d", idx)
}

// path gives an access path for a value or address that is unique within its
// function (identity): two values with the same path denote the same cell / the
// same load of that cell as long as no store intervenes (callers check stores
// where it matters).
func path(v ssa.Value) string { return pathMode(v, false) }

// canonPath renders the same access path for comparison with expected
// descriptions: parameters by position, locals and captured variables by type,
// so that renaming identifiers changes nothing.
func canonPath(v ssa.Value) string { return pathMode(v, true) }

func pathMode(v ssa.Value, canon bool) string {
	switch x := v.(type) {
	case *ssa.Parameter:
		if canon {
			if arg := inlineArg(x); arg != nil {
				return describeVal(arg)
			}
		}
		return paramName(x)
	case *ssa.FreeVar:
		if canon {
			t := x.Type()
			if p, ok := t.(*types.Pointer); ok {
				t = p.Elem()
			}
			return "cap<" + shortType(t) + ">"
		}
		return x.Name()
	case *ssa.Global:
		return x.Name()
	case *ssa.Alloc:
		if canon {
			// a spilled parameter keeps the parameter's positional name
			var spilled *ssa.Parameter
			nst := 0
			for _, r := range refs(x) {
				if st, ok := r.(*ssa.Store); ok && st.Addr == ssa.Value(x) {
					nst++
					spilled, _ = st.Val.(*ssa.Parameter)
				}
			}
			if nst == 1 && spilled != nil {
				return "&" + paramName(spilled)
			}
			t := x.Type().(*types.Pointer).Elem()
			if x.Comment != "" && x.Comment != "complit" && x.Comment != "varargs" && x.Comment != "slicelit" {
				return "&var<" + shortType(t) + ">"
			}
			return "&lit<" + shortType(t) + ">"
		}
		return "&" + x.Name()
	case *ssa.UnOp:
		if x.Op == token.MUL {
			p := pathMode(x.X, canon)
			if strings.HasPrefix(p, "&") {
				return p[1:]
			}
			return "*" + p
		}
	case *ssa.FieldAddr:
		p := pathMode(x.X, canon)
		if strings.HasPrefix(p, "&") {
			p = p[1:]
		}
		return "&" + p + "." + fieldName(x.X.Type(), x.Field)
	case *ssa.Field:
		return pathMode(x.X, canon) + "." + fieldName(x.X.Type(), x.Field)
	case *ssa.ChangeType:
		return pathMode(x.X, canon)
	case *ssa.Const:
		if x.Value == nil {
			return "nil"
		}
		return x.Value.ExactString()
	}
	return "%" + v.Name()
}

// paramName renders a parameter positionally: "recv" for a method receiver,
// "arg<i>" otherwise — so renaming parameters does not change any description.
func paramName(p *ssa.Parameter) string {
	fn := p.Parent()
	idx := -1
	for k, q := range fn.Params {
		if q == p {
			idx = k
		}
	}
	if fn.Signature.Recv() != nil {
		if idx == 0 {
			return "recv"
		}
		idx--
	}
	return fmt.Sprintf("arg%d", idx)
}

// constInt returns the integer value of a constant operand.
func constInt(v ssa.Value) (int64, bool) {
	c, ok := stripConv(v).(*ssa.Const)
	if !ok || c.Value == nil {
		return 0, false
	}
	if c.Value.Kind() != constant.Int {
		if c.Value.Kind() == constant.Float {
			f, _ := constant.Float64Val(c.Value)
			if f == float64(int64(f)) {
				return int64(f), true
			}
		}
		return 0, false
	}
	i, ok := constant.Int64Val(c.Value)
	if !ok {
		// large uint64 such as MaxUint64
		u, ok2 := constant.Uint64Val(c.Value)
		return int64(u), ok2
	}
	return i, true
}

func constString(v ssa.Value) (string, bool) {
	c, ok := strip(v).(*ssa.Const)
	if !ok || c.Value == nil || c.Value.Kind() != constant.String {
		return "", false
	}
	return constant.StringVal(c.Value), true
}

func constBool(v ssa.Value) (bool, bool) {
	c, ok := strip(v).(*ssa.Const)
	if !ok || c.Value == nil || c.Value.Kind() != constant.Bool {
		return false, false
	}
	return constant.BoolVal(c.Value), true
}

// refs returns the referrers of a value (nil-safe).
func refs(v ssa.Value) []ssa.Instruction {
	r := v.Referrers()
	if r == nil {
		return nil
	}
	return *r
}

// storesToPath lists the stores in fn (and nested closures when deep) whose address has the given path.
func storesToPath(fns []*ssa.Function, p string) []*ssa.Store {
	var out []*ssa.Store
	for _, fn := range fns {
		eachInstr(fn, func(i ssa.Instruction) {
			if s, ok := i.(*ssa.Store); ok && path(s.Addr) == p {
				out = append(out, s)
			}
		})
	}
	return out
}

// flowsFrom reports whether v is data-dependent on a value satisfying src,
// following operands through pure instructions, φ, loads of local cells
// (through their stores) and call arguments (a call result depends on its
// arguments and receiver). Bounded by a visited set.
func flowsFrom(v ssa.Value, src func(ssa.Value) bool) bool {
	seen := map[ssa.Value]bool{}
	var rec func(v ssa.Value) bool
	rec = func(v ssa.Value) bool {
		if v == nil || seen[v] {
			return false
		}
		seen[v] = true
		if src(v) {
			return true
		}
		switch x := v.(type) {
		case *ssa.Parameter:
			// parameter of a single-site helper: the argument of that call
			if arg := inlineArg(x); arg != nil {
				return rec(arg)
			}
		case *ssa.UnOp:
			if x.Op == token.MUL {
				// load: follow stores into the same local alloc
				if a, ok := x.X.(*ssa.Alloc); ok {
					for _, r := range refs(a) {
						if s, ok := r.(*ssa.Store); ok && s.Addr == a && rec(s.Val) {
							return true
						}
						// whole-struct load: any field store contributes
						if fa, ok := r.(*ssa.FieldAddr); ok {
							for _, rr := range refs(fa) {
								if s, ok := rr.(*ssa.Store); ok && s.Addr == ssa.Value(fa) && rec(s.Val) {
									return true
								}
							}
						}
					}
				}
				if fa, ok := x.X.(*ssa.FieldAddr); ok {
					if a, ok := fa.X.(*ssa.Alloc); ok {
						// field of a local struct: follow the stores into the same field
						for _, r := range refs(a) {
							if fa2, ok := r.(*ssa.FieldAddr); ok && fa2.Field == fa.Field {
								for _, rr := range refs(fa2) {
									if s, ok := rr.(*ssa.Store); ok && s.Addr == ssa.Value(fa2) && rec(s.Val) {
										return true
									}
								}
							}
							if s, ok := r.(*ssa.Store); ok && s.Addr == ssa.Value(a) && rec(s.Val) {
								return true
							}
						}
					}
				}
				return rec(x.X)
			}
			return rec(x.X)
		case *ssa.Phi:
			for _, e := range x.Edges {
				if rec(e) {
					return true
				}
			}
		case *ssa.Extract:
			// result k of a same-package helper: follow that result only
			if call, ok := x.Tuple.(*ssa.Call); ok {
				if cal := call.Call.StaticCallee(); cal != nil && len(cal.Blocks) > 0 && call.Parent() != nil && cal.Pkg == call.Parent().Pkg && len(seen) < 4000 {
					seen[call] = true
					for _, a := range call.Call.Args {
						if rec(a) {
							return true
						}
					}
					for _, b := range cal.Blocks {
						if ret, ok := b.Instrs[len(b.Instrs)-1].(*ssa.Return); ok && x.Index < len(ret.Results) {
							if rec(ret.Results[x.Index]) {
								return true
							}
						}
					}
					return false
				}
			}
			return rec(x.Tuple)
		case *ssa.Call:
			for _, a := range x.Call.Args {
				if rec(a) {
					return true
				}
			}
			if x.Call.IsInvoke() || x.Call.StaticCallee() == nil {
				return rec(x.Call.Value)
			}
			// a helper of the same package: what it returns also contributes
			if cal := x.Call.StaticCallee(); cal != nil && len(cal.Blocks) > 0 && x.Parent() != nil && cal.Pkg == x.Parent().Pkg && len(seen) < 4000 {
				for _, b := range cal.Blocks {
					if ret, ok := b.Instrs[len(b.Instrs)-1].(*ssa.Return); ok {
						for _, r := range ret.Results {
							if rec(r) {
								return true
							}
						}
					}
				}
			}
		case ssa.Instruction:
			for _, op := range x.Operands(nil) {
				if *op != nil && rec(*op) {
					return true
				}
			}
		}
		return false
	}
	return rec(v)
}

// literalOf: the function literal a called value denotes, also when it is held in a local that is
// assigned once, possibly a local of the enclosing function seen through a free variable
// (`finish := func() {…}; go func() { defer finish(); … }()`).
func literalOf(v ssa.Value) *ssa.Function {
	if f := closureOf(v); f != nil {
		return f
	}
	if f := closureOf(resolveOnceV(v)); f != nil {
		return f
	}
	if ld, isL := isLoad(v); isL {
		if fv, isFV := ld.X.(*ssa.FreeVar); isFV {
			if al, isAl := bindingOf(fv).(*ssa.Alloc); isAl {
				var stored ssa.Value
				ns := 0
				for _, r := range refs(al) {
					if st, isSt := r.(*ssa.Store); isSt && st.Addr == ssa.Value(al) {
						stored = st.Val
						ns++
					}
				}
				if ns == 1 {
					return closureOf(stored)
				}
			}
		}
	}
	return nil
}

// closureOf returns the function literal a value denotes (MakeClosure or bare *ssa.Function).
func closureOf(v ssa.Value) *ssa.Function {
	switch x := strip(v).(type) {
	case *ssa.MakeClosure:
		if f, ok := x.Fn.(*ssa.Function); ok {
			return f
		}
	case *ssa.Function:
		return x
	}
	return nil
}

// boundMethod: v is a method value x.m (a closure over go/ssa's synthetic $bound wrapper) of a
// same-package method with a body; returns that method.
func boundMethod(v ssa.Value) *ssa.Function {
	mc, ok := strip(v).(*ssa.MakeClosure)
	if !ok {
		return nil
	}
	w, ok := mc.Fn.(*ssa.Function)
	if !ok || w.Synthetic == "" || !strings.HasSuffix(w.Name(), "$bound") {
		return nil
	}
	var m *ssa.Function
	eachInstr(w, func(i ssa.Instruction) {
		if call, isCall := i.(*ssa.Call); isCall {
			if f := call.Call.StaticCallee(); f != nil && len(f.Blocks) > 0 {
				m = f
			}
		}
	})
	return m
}

// userParam returns the i-th parameter of fn not counting a method receiver, so that rules written
// for `func(r *Result) error` closures also read methods `func (d *dec) decode(r *Result) error`.
func userParam(fn *ssa.Function, i int) *ssa.Parameter {
	if fn.Signature.Recv() != nil {
		i++
	}
	if i < len(fn.Params) {
		return fn.Params[i]
	}
	return nil
}

// bindingOf maps a free variable of a closure to the value bound at its (single) MakeClosure site.
func bindingOf(fv *ssa.FreeVar) ssa.Value {
	fn := fv.Parent()
	par := fn.Parent()
	if par == nil {
		return nil
	}
	idx := -1
	for k, f := range fn.FreeVars {
		if f == fv {
			idx = k
		}
	}
	var out ssa.Value
	eachInstr(par, func(i ssa.Instruction) {
		if mc, ok := i.(*ssa.MakeClosure); ok && mc.Fn == fn && idx >= 0 && idx < len(mc.Bindings) {
			out = mc.Bindings[idx]
		}
	})
	return out
}

// rootCell resolves an address through closure bindings to the outermost cell
// (Alloc, Parameter, Global) it denotes, e.g. the free variable `results` in
// Attack$1$1 to the Alloc in Attack.
var recvFieldRep = map[*ssa.Parameter]map[int]*ssa.FieldAddr{}

// recvFieldCell: the state of a method-value "closure" lives in receiver fields; all addresses
// of one receiver field are identified with one representative instruction, so that they compare
// equal the way loads of one captured variable do.
func recvFieldCell(fa *ssa.FieldAddr) ssa.Value {
	p, ok := fa.X.(*ssa.Parameter)
	if !ok || p.Parent().Signature.Recv() == nil || p != p.Parent().Params[0] {
		return fa
	}
	m := recvFieldRep[p]
	if m == nil {
		m = map[int]*ssa.FieldAddr{}
		eachInstr(p.Parent(), func(i ssa.Instruction) {
			if f, isFA := i.(*ssa.FieldAddr); isFA && f.X == ssa.Value(p) {
				if _, have := m[f.Field]; !have {
					m[f.Field] = f
				}
			}
		})
		recvFieldRep[p] = m
	}
	if rep := m[fa.Field]; rep != nil {
		return rep
	}
	return fa
}

func rootCell(v ssa.Value) ssa.Value {
	for k := 0; k < 8; k++ {
		if fa, isFA := v.(*ssa.FieldAddr); isFA {
			return recvFieldCell(fa)
		}
		// a pointer parameter of a helper invoked from exactly one place (`defer finish(&res, &err)`)
		// is the cell whose address is passed there
		if p, isP := v.(*ssa.Parameter); isP {
			if arg := uniqueSiteArg(p); arg != nil {
				if _, isPtr := p.Type().Underlying().(*types.Pointer); isPtr {
					v = arg
					continue
				}
			}
			return v
		}
		fv, ok := v.(*ssa.FreeVar)
		if !ok {
			return v
		}
		b := bindingOf(fv)
		if b == nil {
			return v
		}
		v = b
	}
	return v
}

// loadedCell: if v is a load (*addr) returns rootCell(addr).
func loadedCell(v ssa.Value) ssa.Value {
	if u, ok := isLoad(strip(v)); ok {
		return rootCell(u.X)
	}
	return nil
}

// valueOrCell canonicalises a value for identity comparison across a function
// and its closures: a load of a captured cell is identified with the cell.
func valueOrCell(v ssa.Value) ssa.Value {
	v = strip(v)
	// a parameter of a helper invoked from exactly one place stands for the argument given there
	for k := 0; k < 4; k++ {
		p, ok := v.(*ssa.Parameter)
		if !ok {
			break
		}
		arg := uniqueSiteArg(p)
		if arg == nil {
			break
		}
		v = strip(arg)
	}
	if c := loadedCell(v); c != nil {
		return c
	}
	return rootCell(v)
}

func isNamedType(t types.Type, pkgPathSuffix, name string) bool {
	if p, ok := t.(*types.Pointer); ok {
		t = p.Elem()
	}
	n, ok := t.(*types.Named)
	if !ok || n.Obj().Pkg() == nil {
		return false
	}
	return n.Obj().Name() == name && (n.Obj().Pkg().Path() == pkgPathSuffix || strings.HasSuffix(n.Obj().Pkg().Path(), "/"+pkgPathSuffix))
}

func isInteger(t types.Type) bool {
	b, ok := t.Underlying().(*types.Basic)
	return ok && b.Info()&types.IsInteger != 0
}

func intSize(t types.Type) int {
	b, ok := t.Underlying().(*types.Basic)
	if !ok {
		return 0
	}
	switch b.Kind() {
	case types.Int8, types.Uint8:
		return 8
	case types.Int16, types.Uint16:
		return 16
	case types.Int32, types.Uint32:
		return 32
	case types.Int64, types.Uint64:
		return 64
	case types.Int, types.Uint, types.Uintptr:
		return 32 // conservative lower bound
	}
	return 0
}

// returnedClosure: the function literal that a constructor returns (possibly
// converted to a named func type), however many other closures it defines.
func returnedClosure(outer *ssa.Function) *ssa.Function {
	if outer == nil {
		return nil
	}
	var out *ssa.Function
	n := 0
	eachInstr(outer, func(i ssa.Instruction) {
		if r, ok := i.(*ssa.Return); ok && len(r.Results) >= 1 {
			if cl := closureOf(resolveOnceV(r.Results[0])); cl != nil && cl.Parent() == outer {
				if out != cl {
					n++
				}
				out = cl
			} else if m := boundMethod(resolveOnceV(r.Results[0])); m != nil && m.Pkg == outer.Pkg {
				// `return obj.method`: the state lives in a struct instead of captured variables
				if out != m {
					n++
				}
				out = m
			}
		}
	})
	if n != 1 {
		return nil
	}
	return out
}

// resolveOnceV is resolveOnce for values that may be closures stored in a local first.
func resolveOnceV(v ssa.Value) ssa.Value {
	v = strip(v)
	if closureOf(v) != nil {
		return v
	}
	return strip(resolveOnce(v))
}

// region returns fn, its nested closures, and the same-package functions it
// statically calls (transitively) — the code a maintainer may have spread a
// formerly single function over by extracting helpers.
func region(fn *ssa.Function) []*ssa.Function {
	seen := map[*ssa.Function]bool{}
	var out []*ssa.Function
	var visit func(f *ssa.Function)
	visit = func(f *ssa.Function) {
		if f == nil || seen[f] || len(f.Blocks) == 0 || f.Pkg != fn.Pkg {
			return
		}
		seen[f] = true
		out = append(out, f)
		eachInstr(f, func(i ssa.Instruction) {
			if ci, ok := i.(ssa.CallInstruction); ok {
				if cal := ci.Common().StaticCallee(); cal != nil {
					visit(cal)
				}
			}
			if mc, ok := i.(*ssa.MakeClosure); ok {
				if cf, ok := mc.Fn.(*ssa.Function); ok {
					visit(cf)
				}
			}
		})
	}
	visit(fn)
	return out
}

// isFreshSlice: v is a newly allocated slice that shares no backing array with
// anything else: make, append onto nil / onto a fresh slice, slices.Clone.
func isFreshSlice(v ssa.Value) bool {
	switch x := v.(type) {
	case *ssa.MakeSlice:
		return true
	case *ssa.Call:
		switch callName(&x.Call) {
		case "slices.Clone", "bytes.Clone":
			return true
		case "builtin:append":
			if k, ok := x.Call.Args[0].(*ssa.Const); ok && k.Value == nil {
				return true
			}
			return isFreshSlice(x.Call.Args[0])
		}
	case *ssa.Slice:
		// make(...)[:0]
		if x.Low == nil {
			return isFreshSlice(x.X)
		}
	case *ssa.Phi:
		for _, e := range x.Edges {
			if !isFreshSlice(e) {
				return false
			}
		}
		return len(x.Edges) > 0
	}
	return false
}

// branchOn returns the blocks entered when boolean v is true / false, looking
// through a negation (`if !v`) and short-circuit φs.
func branchOn(v ssa.Value) (onTrue, onFalse *ssa.BasicBlock, ifi *ssa.If) {
	if i := trueImpliesIf(v); i != nil {
		return i.Block().Succs[0], i.Block().Succs[1], i
	}
	for _, r := range refs(v) {
		if u, ok := r.(*ssa.UnOp); ok && u.Op == token.NOT {
			if i := trueImpliesIf(u); i != nil {
				return i.Block().Succs[1], i.Block().Succs[0], i
			}
		}
	}
	return nil, nil, nil
}

func isNilConst(v ssa.Value) bool {
	k, ok := v.(*ssa.Const)
	return ok && k.Value == nil
}

// atomicKind classifies a call as a sync/atomic operation, in either spelling:
// atomic.AddUint64(&x, 1) or x.Add(1) on an atomic.Uint64/Int64/… value. It returns the kind
// ("add", "load", "store", "swap", "cas", "other"), or "" when the call is not atomic.
func atomicKind(cc *ssa.CallCommon) string {
	n := callName(cc)
	var op string
	switch {
	case strings.HasPrefix(n, "sync/atomic."):
		op = strings.TrimPrefix(n, "sync/atomic.")
	case strings.HasPrefix(n, "(*sync/atomic."):
		if k := strings.Index(n, ")."); k >= 0 {
			op = n[k+2:]
		}
	default:
		return ""
	}
	switch {
	case strings.HasPrefix(op, "Add"):
		return "add"
	case strings.HasPrefix(op, "Load"):
		return "load"
	case strings.HasPrefix(op, "Store"):
		return "store"
	case strings.HasPrefix(op, "CompareAndSwap"):
		return "cas"
	case strings.HasPrefix(op, "Swap"):
		return "swap"
	}
	return "other"
}

func isAtomicCall(i ssa.Instruction) (*ssa.Call, bool) {
	call, ok := i.(*ssa.Call)
	if !ok || atomicKind(&call.Call) == "" {
		return nil, false
	}
	return call, true
}
