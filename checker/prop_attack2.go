package main

import (
	"fmt"
	"go/token"
	"go/types"
	"strings"

	"golang.org/x/tools/go/ssa"
)

// ---------------------------------------------------------------- C03

func attackerFieldLoad(v ssa.Value, field string) bool {
	u, ok := isLoad(stripConv(v))
	if !ok {
		return false
	}
	fa, ok := u.X.(*ssa.FieldAddr)
	return ok && isNamedType(fa.X.Type(), "lib", "Attacker") && fieldName(fa.X.Type(), fa.Field) == field
}

// workersCell finds the local counter cell of Attack that is initialised from a.workers.
func workersCell(a *attackAnchors) *ssa.Alloc {
	var cell *ssa.Alloc
	eachInstr(a.Attack, func(i ssa.Instruction) {
		if st, ok := i.(*ssa.Store); ok {
			fromWorkers := attackerFieldLoad(st.Val, "workers")
			if call, isCall := st.Val.(*ssa.Call); isCall && callName(&call.Call) == "builtin:min" {
				for _, arg := range call.Call.Args {
					fromWorkers = fromWorkers || attackerFieldLoad(arg, "workers")
				}
			}
			if al, ok := st.Addr.(*ssa.Alloc); ok && fromWorkers {
				cell = al
			}
		}
	})
	return cell
}

// ticksUnbuffered: the on-demand growth (a refused non-blocking offer means "every worker is
// busy") and the pacing (a tick is handed over only when a worker takes it, so the hit starts when
// the pacer said) both rest on the tick channel being a rendezvous.
func ticksUnbuffered(c *Ctx, a *attackAnchors) {
	const rule = "the tick channel is unbuffered: a tick is handed over only to a worker that is ready to fire it, so a refused offer means all workers are busy and no tick outlives the loop's decision to stop"
	key := "ticks-unbuffered:" + shortFn(a.Attack)
	var makes []*ssa.MakeChan
	switch t := a.Ticks.(type) {
	case *ssa.MakeChan:
		makes = append(makes, t)
	case *ssa.Alloc:
		for _, r := range refs(t) {
			if st, ok := r.(*ssa.Store); ok && st.Addr == ssa.Value(t) {
				if mk, ok := st.Val.(*ssa.MakeChan); ok {
					makes = append(makes, mk)
				} else {
					c.Fail(key, rule, "the tick channel is not created by make in Attack", c.at(st))
					return
				}
			}
		}
	}
	if len(makes) != 1 {
		c.Undecided(key, rule, fmt.Sprintf("%d make(chan) sites for the tick channel", len(makes)), c.fnAt(a.Attack))
		return
	}
	n, isConst := constInt(makes[0].Size)
	c.Check(isConst && n == 0, key, rule, "make(chan struct{}) with no buffer", "the tick channel is buffered ("+describeVal(makes[0].Size)+" slots): paced ticks queue up without a ready worker, hits start later than the pacer scheduled and queued ticks still fire after the loop decided to stop", c.at(makes[0]))
}

func runC03(c *Ctx) {
	a := resolveAttack(c)
	if !a.ok(c, "C03") {
		return
	}
	ticksUnbuffered(c, a)
	const rCap = "workers are started only (i) in a counting loop bounded by a counter clamped to min(a.workers, a.maxWorkers) and (ii) under `counter < a.maxWorkers` with exactly one `counter+1` store per spawn; nothing else writes the counter or starts workers"
	cell := workersCell(a)
	if cell == nil {
		c.Undecided("spawn-cap:"+shortFn(a.Attack), rCap, "no local counter initialised from a.workers", c.fnAt(a.Attack))
		return
	}
	a.Workers = cell
	isCellLoad := func(v ssa.Value) bool { return loadedCell(stripConv(v)) == ssa.Value(cell) }

	// stores to the counter
	var storesAttack, storesLoop, storesOther []*ssa.Store
	for _, fn := range withAnon(a.Attack) {
		eachInstr(fn, func(i ssa.Instruction) {
			if st, ok := i.(*ssa.Store); ok && rootCell(st.Addr) == ssa.Value(cell) {
				switch fn {
				case a.Attack:
					storesAttack = append(storesAttack, st)
				case a.Loop:
					storesLoop = append(storesLoop, st)
				default:
					storesOther = append(storesOther, st)
				}
			}
		})
	}
	// (i) clamp: after the stores in Attack the counter is ≤ a.maxWorkers
	key := "spawn-cap:clamp:" + shortFn(a.Attack)
	clampOK := len(storesAttack) > 0
	clampWhy := "the counter is never initialised in Attack"
	// the maximum itself, or the counter while it still holds the maximum (`workers := a.maxWorkers;
	// if a.workers < workers { workers = a.workers }`): a load of the cell that follows a store of
	// a.maxWorkers and precedes every other store
	isMax := func(v ssa.Value) bool {
		if attackerFieldLoad(v, "maxWorkers") {
			return true
		}
		ld, isL := stripConv(v).(*ssa.UnOp)
		if !isL || !isCellLoad(v) {
			return false
		}
		holds := false
		for _, st := range storesAttack {
			if attackerFieldLoad(st.Val, "maxWorkers") && instrDominates(st, ld) {
				holds = true
			} else if !instrDominates(ld, st) {
				return false
			}
		}
		return holds
	}
	geFact := func(b *ssa.BasicBlock, subject func(ssa.Value) bool, wantGreater bool) bool {
		// is `subject > a.maxWorkers` known true (wantGreater) / known false (!wantGreater) at b?
		for _, f := range factsAt(b) {
			bo, ok := f.Cond.(*ssa.BinOp)
			if !ok {
				continue
			}
			var op token.Token
			switch {
			case subject(bo.X) && isMax(bo.Y):
				op = bo.Op
			case subject(bo.Y) && isMax(bo.X):
				op = flipOp(bo.Op)
			default:
				continue
			}
			greater := (op == token.GTR || op == token.GEQ) && f.Val || (op == token.LEQ || op == token.LSS) && !f.Val
			notGreater := (op == token.GTR) && !f.Val || (op == token.LEQ || op == token.LSS) && f.Val
			if wantGreater && greater {
				return true
			}
			if !wantGreater && notGreater {
				return true
			}
		}
		return false
	}
	isWorkersField := func(v ssa.Value) bool { return attackerFieldLoad(v, "workers") }
	isCellOrWorkers := func(v ssa.Value) bool { return isCellLoad(v) || isWorkersField(v) }
	var unguardedWorkersStore *ssa.Store
	var overwrite *ssa.Store
	for _, st := range storesAttack {
		switch {
		case attackerFieldLoad(st.Val, "maxWorkers"):
			if geFact(st.Block(), func(v ssa.Value) bool { return isCellOrWorkers(v) && !isMax(v) }, true) {
				overwrite = st
			}
			// storing maxWorkers itself always satisfies counter ≤ maxWorkers
		case isWorkersField(st.Val):
			if !geFact(st.Block(), isWorkersField, false) {
				unguardedWorkersStore = st
			}
		default:
			if call, ok := st.Val.(*ssa.Call); ok && callName(&call.Call) == "builtin:min" {
				hasW, hasM := false, false
				for _, arg := range call.Call.Args {
					hasW = hasW || attackerFieldLoad(arg, "workers")
					hasM = hasM || attackerFieldLoad(arg, "maxWorkers")
				}
				if hasW && hasM {
					continue
				}
			}
			clampOK, clampWhy = false, "the counter is initialised from something other than a.workers / a.maxWorkers"
		}
	}
	if clampOK && unguardedWorkersStore != nil {
		// `workers := a.workers; if workers > a.maxWorkers { workers = a.maxWorkers }`
		okLater := overwrite != nil && instrDominates(unguardedWorkersStore, overwrite)
		if okLater {
			okLater = false
			for _, f := range factsAt(overwrite.Block()) {
				if f.If != nil && dominatesAllReturns(f.If) {
					okLater = true
				}
			}
		}
		if !okLater {
			clampOK, clampWhy = false, "the initial worker count is not clamped to a.maxWorkers"
		}
	}
	c.Check(clampOK, key, rCap, "counter = min(a.workers, a.maxWorkers)", clampWhy, c.at(cell))

	// initial spawn loop
	type spawnAt struct {
		at  ssa.Instruction
		blk *ssa.BasicBlock
	}
	var goAttack, goLoop []spawnAt
	for _, sp := range a.Spawns {
		if sp.Fn == a.Attack {
			goAttack = append(goAttack, spawnAt{sp.At, sp.At.Block()})
		} else {
			goLoop = append(goLoop, spawnAt{sp.At, sp.At.Block()})
		}
	}
	for k, g := range goAttack {
		key := fmt.Sprintf("spawn-cap:initial:%s#%d", shortFn(a.Attack), k)
		ok := false
		why := "the go statement is not inside `for i := 0; i < counter; i++`"
		for _, f := range factsAt(g.blk) {
			bo, isBo := f.Cond.(*ssa.BinOp)
			if !isBo || !f.Val || !isCellLoad(bo.Y) {
				continue
			}
			// `i < n`, or `i != n` for an unsigned counter stepping by one from zero
			if bo.Op != token.LSS {
				b, isB := bo.X.Type().Underlying().(*types.Basic)
				if bo.Op != token.NEQ || !isB || b.Info()&types.IsUnsigned == 0 {
					continue
				}
			}
			// classic φ[0, φ+1] or the rotated `for range n` form (index = φ+1 with φ[-1, φ+1])
			if !rangeIndexValue(bo.X) {
				continue
			}
			phi, isPhi := bo.X.(*ssa.Phi)
			if !isPhi {
				phi, _ = bo.X.(*ssa.BinOp).X.(*ssa.Phi)
			}
			if phi == nil || len(phi.Edges) != 2 {
				continue
			}
			// exactly one go-worker per iteration: the go's block is inside the loop headed by the φ
			if loopHeaderOf(g.blk) == phi.Block() {
				ok = true
			}
			// the clamp must precede the loop
			for _, st := range storesAttack {
				if phi.Block().Dominates(st.Block()) {
					ok = false
					why = "a store to the counter does not precede the spawn loop"
				}
			}
		}
		if !ok {
			// countdown: `for n := counter; n > 0; n-- { spawn }` — φ[counter, φ-1] tested against zero
			for _, f := range factsAt(g.blk) {
				bo, isBo := f.Cond.(*ssa.BinOp)
				if !isBo || !f.Val {
					continue
				}
				z, isZ := constInt(bo.Y)
				if !isZ || z != 0 {
					continue
				}
				if bo.Op != token.GTR {
					b, isB := bo.X.Type().Underlying().(*types.Basic)
					if bo.Op != token.NEQ || !isB || b.Info()&types.IsUnsigned == 0 {
						continue
					}
				}
				phi, isPhi := bo.X.(*ssa.Phi)
				if !isPhi || len(phi.Edges) != 2 || loopHeaderOf(g.blk) != phi.Block() {
					continue
				}
				fromCounter, stepDown := false, false
				for _, e := range phi.Edges {
					if isCellLoad(e) {
						fromCounter = true
					}
					if sub, isSub := e.(*ssa.BinOp); isSub && sub.Op == token.SUB && sub.X == ssa.Value(phi) {
						if one, isOne := constInt(sub.Y); isOne && one == 1 {
							stepDown = true
						}
					}
				}
				if fromCounter && stepDown {
					ok = true
					for _, st := range storesAttack {
						if phi.Block().Dominates(st.Block()) {
							ok, why = false, "a store to the counter does not precede the spawn loop"
						}
					}
				}
			}
		}
		if !ok {
			// `for range n` over an integer: do-while shape, body φ[0, φ+1] entered under 0 < n and repeated under φ+1 < n
			if n := rangeIntBound(g.blk); n != nil && isCellLoad(n) {
				ok = true
				for _, st := range storesAttack {
					if g.blk.Dominates(st.Block()) {
						ok, why = false, "a store to the counter does not precede the spawn loop"
					}
				}
			}
		}
		c.Check(ok, key, rCap, "inside the counting loop bounded by the clamped counter", why, c.at(g.at))
	}
	if len(goAttack) == 0 {
		c.Fail("spawn-cap:initial:"+shortFn(a.Attack), rCap, "no initial worker is started in Attack", c.fnAt(a.Attack))
	}

	// (ii) on-demand spawn
	for k, g := range goLoop {
		key := fmt.Sprintf("spawn-cap:on-demand:%s#%d", shortFn(a.Loop), k)
		guarded := false
		for _, f := range factsAt(g.blk) {
			bo, isBo := f.Cond.(*ssa.BinOp)
			if !isBo || !f.Val {
				continue
			}
			if bo.Op == token.LSS && isCellLoad(bo.X) && attackerFieldLoad(bo.Y, "maxWorkers") {
				guarded = true
			}
			if bo.Op == token.GTR && isCellLoad(bo.Y) && attackerFieldLoad(bo.X, "maxWorkers") {
				guarded = true
			}
		}
		if !guarded {
			c.Fail(key, rCap, "the on-demand spawn is not dominated by `workers < a.maxWorkers` (strict)", c.at(g.at))
			continue
		}
		// exactly one increment store in the same block
		n := 0
		okInc := true
		for _, st := range storesLoop {
			if st.Block() == g.blk {
				n++
				bo, ok := st.Val.(*ssa.BinOp)
				if !ok || bo.Op != token.ADD || !isCellLoad(bo.X) {
					okInc = false
				} else if one, ok := constInt(bo.Y); !ok || one != 1 {
					okInc = false
				}
			}
		}
		// no store between the guard and the spawn other than this one: all loop stores are in spawn blocks
		for _, st := range storesLoop {
			inSpawn := false
			for _, g2 := range goLoop {
				if g2.blk == st.Block() {
					inSpawn = true
				}
			}
			if !inSpawn {
				okInc = false
			}
		}
		c.Check(n == 1 && okInc, key, rCap, "guarded by workers < a.maxWorkers; counter incremented once", "the counter is not incremented exactly once (by 1) with each on-demand spawn, or is written elsewhere in the loop", c.at(g.at))
	}
	if len(goLoop) == 0 {
		c.Fail("spawn-cap:on-demand:"+shortFn(a.Loop), rCap, "no on-demand spawn in the loop (free capacity would never be used)", c.fnAt(a.Loop))
	}
	if len(storesOther) > 0 {
		c.Fail("spawn-cap:counter-writes", rCap, "the counter is written outside Attack and its loop", c.at(storesOther[0]))
	}
	// a.maxWorkers is not written during an attack
	const rMW = "Attacker.maxWorkers and Attacker.workers are written only by their option closures (and NewAttacker's literal)"
	okMW := true
	var mwSites []string
	for _, fn := range c.P.RepoFuncs("lib") {
		eachInstr(fn, func(i ssa.Instruction) {
			st, ok := i.(*ssa.Store)
			if !ok {
				return
			}
			fa, ok := st.Addr.(*ssa.FieldAddr)
			if !ok || !isNamedType(fa.X.Type(), "lib", "Attacker") {
				return
			}
			f := fieldName(fa.X.Type(), fa.Field)
			if f != "maxWorkers" && f != "workers" {
				return
			}
			mwSites = append(mwSites, c.at(st))
			name := shortFn(fn)
			want := map[string]string{"maxWorkers": "lib.MaxWorkers$1", "workers": "lib.Workers$1"}[f]
			if name == "lib.NewAttacker" {
				return
			}
			if name != want {
				okMW = false
				return
			}
			// the closure stores the option's own parameter
			if paramOfCell(st.Val) == nil {
				okMW = false
			}
		})
	}
	c.Check(okMW, "option-plumbing:lib.Workers/MaxWorkers", rMW, "only option closures write the limits", "a.workers/a.maxWorkers is written elsewhere or not from the option's parameter", mwSites...)

	// one hit per worker at a time
	c02OneResultPerTick(c, a)

	// grow on demand shape
	const rGrow = "the on-demand spawn happens only after a non-blocking offer of the tick (which also watched stopch) found no idle worker, and control continues to the blocking offer"
	for k, g := range goLoop {
		key := fmt.Sprintf("grow-on-demand:%s#%d", shortFn(a.Loop), k)
		var nb *tickOffer
		for oi := range a.Offers {
			o := &a.Offers[oi]
			if !o.Blocking && instrDominates(o.At, g.at) {
				nb = o
			}
		}
		if nb == nil {
			c.Fail(key, rGrow, "the spawn is not preceded by a non-blocking select that offers the tick", c.at(g.at))
			continue
		}
		if !nb.HasStop {
			c.Fail(key, rGrow, "the non-blocking select does not watch stopch", c.at(nb.At))
			continue
		}
		// growth depends on nothing but spare capacity: compared with the blocking offer (which every
		// iteration reaches), the only additional branch condition is the counter-below-maximum test
		{
			var blocking *tickOffer
			for oi := range a.Offers {
				if a.Offers[oi].Blocking {
					blocking = &a.Offers[oi]
				}
			}
			common := map[ssa.Value]bool{}
			if blocking != nil {
				for _, f := range factsAt(blocking.At.Block()) {
					common[f.Cond] = true
				}
			}
			extra := ""
			for _, f := range factsAt(nb.At.Block()) {
				if common[f.Cond] {
					continue
				}
				if bo, isBo := f.Cond.(*ssa.BinOp); isBo {
					if (bo.Op == token.LSS || bo.Op == token.GTR || bo.Op == token.GEQ || bo.Op == token.LEQ) && (attackerFieldLoad(bo.X, "maxWorkers") || attackerFieldLoad(bo.Y, "maxWorkers")) {
						continue
					}
				}
				if _, isPhi := f.Cond.(*ssa.Phi); isPhi {
					continue // the && itself; its operands are judged individually
				}
				extra = describeVal(f.Cond)
			}
			if extra != "" {
				c.Fail(key, rGrow, "growing the pool is additionally conditional on "+extra+": with spare capacity and all workers busy a due tick can still wait for a worker to finish", c.at(nb.At))
				continue
			}
		}
		// the spawn is reachable only when neither the send nor the stop case fired:
		// from the sent / stopped outcomes the spawn must be unreachable within this iteration
		inDefault := true
		for _, out := range []*ssa.BasicBlock{nb.Sent, nb.Stopped} {
			if out == nil {
				continue
			}
			set := exploreBlock(out, func(i ssa.Instruction) bool { return i == ssa.Instruction(a.Pace) })
			if set[g.at] {
				inDefault = false
			}
		}
		if !inDefault {
			c.Fail(key, rGrow, "the spawn is not confined to the default outcome (it would run even when an idle worker took the tick)", c.at(g.at))
			continue
		}
		// the refused offer always starts a worker: from the non-blocking offer, leaving aside the
		// "sent" and "stopped" outcomes, the blocking offer is unreachable without passing a spawn
		// (a spawn inside a loop that may run zero times starts nobody: with no worker at all the
		// blocking send then waits forever)
		{
			firstOf := func(b *ssa.BasicBlock) ssa.Instruction {
				if b == nil || len(b.Instrs) == 0 {
					return nil
				}
				return b.Instrs[0]
			}
			sentI, stopI := firstOf(nb.Sent), firstOf(nb.Stopped)
			// at capacity nothing can be started: the "pool is full" edge of a counter-against-maximum
			// test is a legitimate way to the blocking offer (`default: if workers < max { spawn }`)
			type edge struct{ from, to *ssa.BasicBlock }
			full := map[edge]bool{}
			for _, b := range g.at.Parent().Blocks {
				ifi, isIf := b.Instrs[len(b.Instrs)-1].(*ssa.If)
				if !isIf {
					continue
				}
				bo, isBo := ifi.Cond.(*ssa.BinOp)
				if !isBo {
					continue
				}
				op := bo.Op
				switch {
				case attackerFieldLoad(bo.Y, "maxWorkers"):
				case attackerFieldLoad(bo.X, "maxWorkers"):
					op = map[token.Token]token.Token{token.LSS: token.GTR, token.GTR: token.LSS, token.LEQ: token.GEQ, token.GEQ: token.LEQ, token.EQL: token.EQL, token.NEQ: token.NEQ}[op]
				default:
					continue
				}
				// op reads `workers op max`
				switch op {
				case token.LSS, token.NEQ:
					full[edge{b, b.Succs[1]}] = true
				case token.GEQ, token.EQL:
					full[edge{b, b.Succs[0]}] = true
				}
			}
			refused := exploreWithout(func(from, to *ssa.BasicBlock) bool { return full[edge{from, to}] }, nb.At, false, func(i ssa.Instruction) bool {
				if i == sentI || i == stopI {
					return true
				}
				for _, gg := range goLoop {
					if i == gg.at {
						return true
					}
				}
				return false
			})
			starved := false
			for _, o := range a.Offers {
				if o.Blocking && refused[o.At] {
					starved = true
				}
			}
			if starved {
				c.Fail(key, rGrow, "after a refused non-blocking offer the loop can reach the blocking send without having started a worker (e.g. the spawn sits in a loop that may run zero times): with no workers running the attack blocks forever", c.at(nb.At))
				continue
			}
		}
		// continues to a blocking offer without passing Pace
		set := explore(g.at, false, func(i ssa.Instruction) bool {
			for _, o := range a.Offers {
				if o.Blocking && i == o.At {
					return true
				}
			}
			return false
		})
		if set[ssa.Instruction(a.Pace)] || len(returnsIn(set)) > 0 {
			c.Fail(key, rGrow, "after spawning, the tick is not handed over by the blocking select", c.at(g.at))
			continue
		}
		c.Pass(key, rGrow, "default outcome → spawn → blocking offer", c.at(nb.At), c.at(g.at))
	}

	// flags
	const rFlag = "-workers / -max-workers are bound to the attackOpts fields that are passed to vegeta.Workers / vegeta.MaxWorkers"
	fp := flagPlumbing(c)
	for _, w := range []struct{ flag, opt string }{{"workers", "lib.Workers"}, {"max-workers", "lib.MaxWorkers"}} {
		key := "flag-plumbing:" + w.flag
		f, ok := fp.flagField[w.flag]
		if !ok {
			c.Fail(key, rFlag, "flag not registered", c.fnAt(c.P.Func("", "attackCmd")))
			continue
		}
		got, ok := fp.optionField[w.opt]
		c.Check(ok && got == f, key, rFlag, fmt.Sprintf("-%s → opts.%s → %s", w.flag, f, w.opt), fmt.Sprintf("-%s is bound to opts.%s but %s receives opts.%s", w.flag, f, w.opt, got), fp.sites[w.flag], fp.sites[w.opt])
	}
}

// paramOfCell: v is a parameter, or a load of a cell whose only store is a parameter.
func paramOfCell(v ssa.Value) *ssa.Parameter {
	if p, ok := strip(v).(*ssa.Parameter); ok {
		return p
	}
	cell := loadedCell(v)
	switch x := cell.(type) {
	case *ssa.Parameter:
		return x
	case *ssa.Alloc:
		var p *ssa.Parameter
		n := 0
		for _, r := range refs(x) {
			if st, ok := r.(*ssa.Store); ok && st.Addr == ssa.Value(x) {
				n++
				p, _ = st.Val.(*ssa.Parameter)
			}
		}
		if n == 1 {
			return p
		}
	}
	return nil
}

// flagPlumb extracts, from main.attackCmd and main.attack, which attackOpts
// field each flag name is bound to and which field each call of a lib option
// constructor (or other consumer) receives.
type flagPlumb struct {
	flagField   map[string]string // flag name → opts field
	optionField map[string]string // callee name → opts field (first field-derived argument)
	optionArgs  map[string][]string
	sites       map[string]string
	flagCount   map[string]int
}

func optsFieldOf(v ssa.Value) (string, bool) {
	seen := map[ssa.Value]bool{}
	var rec func(v ssa.Value) (string, bool)
	rec = func(v ssa.Value) (string, bool) {
		if v == nil || seen[v] {
			return "", false
		}
		seen[v] = true
		switch x := v.(type) {
		case *ssa.FieldAddr:
			if isNamedType(x.X.Type(), "", "attackOpts") || isNamedTypeMain(x.X.Type(), "attackOpts") {
				return fieldName(x.X.Type(), x.Field), true
			}
			return rec(x.X)
		case *ssa.Field:
			return rec(x.X)
		case *ssa.UnOp:
			return rec(x.X)
		case *ssa.ChangeType:
			return rec(x.X)
		case *ssa.Convert:
			return rec(x.X)
		case *ssa.MakeInterface:
			return rec(x.X)
		case *ssa.Alloc:
			// wrapper literal: &rateFlag{&opts.rate}: look at stores into its fields
			for _, r := range refs(x) {
				if fa, ok := r.(*ssa.FieldAddr); ok {
					for _, rr := range refs(fa) {
						if st, ok := rr.(*ssa.Store); ok && st.Addr == ssa.Value(fa) {
							if f, ok := rec(st.Val); ok {
								return f, true
							}
						}
					}
				}
				if st, ok := r.(*ssa.Store); ok && st.Addr == ssa.Value(x) {
					if f, ok := rec(st.Val); ok {
						return f, true
					}
				}
			}
		case *ssa.Phi:
			for _, e := range x.Edges {
				if f, ok := rec(e); ok {
					return f, true
				}
			}
		}
		return "", false
	}
	return rec(v)
}

func isNamedTypeMain(t types.Type, name string) bool {
	if p, ok := t.(*types.Pointer); ok {
		t = p.Elem()
	}
	n, ok := t.(*types.Named)
	return ok && n.Obj().Pkg() != nil && n.Obj().Pkg().Path() == modPath && n.Obj().Name() == name
}

func flagPlumbing(c *Ctx) *flagPlumb {
	fp := &flagPlumb{flagField: map[string]string{}, optionField: map[string]string{}, optionArgs: map[string][]string{}, sites: map[string]string{}, flagCount: map[string]int{}}
	for _, name := range []string{"attackCmd", "systemSpecificFlags"} {
		fn := c.P.Func("", name)
		if fn == nil {
			continue
		}
		c.Saw("function " + shortFn(fn))
		for _, f := range withAnon(fn) {
			eachInstr(f, func(i ssa.Instruction) {
				call, ok := i.(*ssa.Call)
				if !ok {
					return
				}
				n := callName(&call.Call)
				if !strings.HasPrefix(n, "(*flag.FlagSet).") {
					return
				}
				args := call.Call.Args
				if len(args) < 3 {
					return
				}
				fname, ok := constString(args[2])
				if !ok {
					return
				}
				field, ok := optsFieldOf(args[1])
				if !ok {
					return
				}
				fp.flagField[fname] = field
				fp.flagCount[fname]++
				fp.sites[fname] = c.at(call)
			})
		}
	}
	if fn := c.P.Func("", "attack"); fn != nil {
		c.Saw("function " + shortFn(fn))
		// consumers may be called from single-site helpers of attack (newTargeter(opts, …))
		var region []*ssa.Function
		withInline(func() { region = inlinedRegion(c.P, fn) }, fn)
		isRegion := map[*ssa.Function]bool{}
		for _, g := range region {
			isRegion[g] = true
		}
		eachInRegion := func(f func(ssa.Instruction)) {
			for _, g := range region {
				eachInstr(g, f)
			}
		}
		eachInRegion(func(i ssa.Instruction) {
			call, ok := i.(*ssa.Call)
			if !ok {
				return
			}
			if h := call.Call.StaticCallee(); h != nil && h != fn && isRegion[h] {
				return // the helper itself is not a consumer
			}
			n := callName(&call.Call)
			var fields []string
			for _, arg := range call.Call.Args {
				if f, ok := optsFieldOf(arg); ok {
					fields = append(fields, f)
				} else {
					fields = append(fields, "")
				}
			}
			any := false
			for _, f := range fields {
				if f != "" {
					any = true
				}
			}
			if !any {
				return
			}
			if _, dup := fp.optionArgs[n]; dup {
				n = n + "#2"
			}
			fp.optionArgs[n] = fields
			for _, f := range fields {
				if f != "" {
					fp.optionField[n] = f
					break
				}
			}
			fp.sites[n] = c.at(call)
		})
	}
	return fp
}

// ---------------------------------------------------------------- C04

func runC04(c *Ctx) {
	a := resolveAttack(c)
	if !a.ok(c, "C04") {
		return
	}
	ticksUnbuffered(c, a)
	fn := a.Loop
	pace := a.Pace
	if pace == nil {
		c.Undecided("pace-once:"+shortFn(fn), "exactly one Pacer.Pace call per iteration", "no Pace call", c.fnAt(fn))
		return
	}
	nPace := len(callsNamed(fn, "invoke:lib.Pacer.Pace"))
	c.Check(nPace == 1, "pace-once:"+shortFn(fn), "the loop consults the pacer at exactly one call site", "one Pace invoke", fmt.Sprintf("%d Pace invokes", nPace), c.at(pace))

	// the Pace receiver is the Attack's pacer parameter
	const rRecv = "the pacer consulted is the one passed to Attack"
	recvCell := loadedCell(pace.Call.Value)
	okRecv := false
	if al, ok := recvCell.(*ssa.Alloc); ok {
		for _, r := range refs(al) {
			if st, ok := r.(*ssa.Store); ok && st.Addr == ssa.Value(al) {
				if p, ok := st.Val.(*ssa.Parameter); ok && isNamedType(p.Type(), "lib", "Pacer") {
					okRecv = true
				} else {
					okRecv = false
					break
				}
			}
		}
	}
	c.Check(okRecv, "pace-receiver:"+shortFn(fn), rRecv, "receiver is Attack's parameter p", "Pace is invoked on something other than Attack's Pacer parameter", c.at(pace))

	// (1) elapsed = time.Since(atk.began) in the same iteration
	const rElapsed = "Pace's elapsed argument is time.Since(atk.began) evaluated in the same loop iteration; attack.began is written once, from time.Now(), in Attack's composite literal"
	elapsed := pace.Call.Args[0]
	keyE := "pace-elapsed:" + shortFn(fn)
	header := loopHeaderOf(pace.Block())
	var clock *ssa.Call // the clock read of this iteration
	okElapsed, whyElapsed := false, "elapsed is not time.Since(atk.began) / time.Now().Sub(atk.began)"
	clockOf := func(v ssa.Value) (*ssa.Call, bool) {
		call, ok := v.(*ssa.Call)
		if !ok {
			return nil, false
		}
		switch callName(&call.Call) {
		case "time.Since":
			if beganValue(call.Call.Args[0], a) {
				return call, true
			}
			whyElapsed = "time.Since is not applied to this attack's began (attack.began of the object created in Attack)"
		case "(time.Time).Sub":
			if now, isNow := call.Call.Args[0].(*ssa.Call); isNow && callName(&now.Call) == "time.Now" && beganValue(call.Call.Args[1], a) {
				return now, true
			}
		}
		return nil, false
	}
	if cl, ok := clockOf(elapsed); ok {
		clock, okElapsed = cl, true
		if header == nil || !header.Dominates(clock.Block()) {
			okElapsed, whyElapsed = false, "elapsed is computed outside the loop (once, not per iteration)"
		} else if !instrDominates(clock, pace) {
			okElapsed, whyElapsed = false, "elapsed is not computed before Pace"
		}
	} else if phi, isPhi := elapsed.(*ssa.Phi); isPhi && header != nil && phi.Block() == header {
		// three-clause for: `for elapsed := since(); cond; elapsed = since()`: a fresh clock read on
		// the way in and one per trip round the loop
		okElapsed = true
		for k, e := range phi.Edges {
			cl, ok := clockOf(e)
			if !ok {
				okElapsed = false
				break
			}
			pred := header.Preds[k]
			if header.Dominates(pred) {
				// back edge: read inside the loop, after the iteration's work (in the post block)
				if !header.Dominates(cl.Block()) || cl.Block() != pred {
					okElapsed, whyElapsed = false, "the elapsed value carried round the loop is not re-read at the end of each iteration"
				}
			} else if cl.Block() != pred {
				okElapsed, whyElapsed = false, "the first elapsed value is not read right before the loop"
			}
			clock = cl
		}
	}
	c.Check(okElapsed, keyE, rElapsed, "elapsed since atk.began, read per iteration", whyElapsed, c.at(pace))
	c04BeganWriteOnce(c, a)

	// (2) counter
	const rCount = "Pace's hits argument is a counter that is 0 on entry and incremented by exactly one on exactly the 'sent' outcome of a send on ticks; every back edge of the loop comes from such an outcome"
	keyC := "pace-count:" + shortFn(fn)
	phi, ok := pace.Call.Args[1].(*ssa.Phi)
	if !ok {
		c.Fail(keyC, rCount, "hits argument is not the loop counter φ", c.at(pace))
	} else {
		okC := true
		why := ""
		sentBlocks := map[*ssa.BasicBlock]bool{}
		for _, o := range a.Offers {
			if o.Sent != nil {
				sentBlocks[o.Sent] = true
			}
		}
		nInc := 0
		// a three-clause `for` routes every `continue` through a post block (elapsed = time.Since(…))
		// that merges the incremented counters in a φ of its own: look through it
		type inEdge struct {
			v    ssa.Value
			pred *ssa.BasicBlock
		}
		var edges []inEdge
		through := map[*ssa.BasicBlock]bool{phi.Block(): true}
		var collect func(p *ssa.Phi, depth int)
		collect = func(p *ssa.Phi, depth int) {
			for k, e := range p.Edges {
				pred := p.Block().Preds[k]
				if inner, isPhi := e.(*ssa.Phi); isPhi && depth < 2 && inner.Block() == pred && len(pred.Succs) == 1 && pred.Succs[0] == p.Block() && p.Block().Dominates(pred) {
					through[pred] = true
					collect(inner, depth+1)
					continue
				}
				edges = append(edges, inEdge{e, pred})
			}
		}
		collect(phi, 0)
		for _, ie := range edges {
			e, pred := ie.v, ie.pred
			if z, isC := constInt(e); isC {
				if z != 0 || phi.Block().Dominates(pred) {
					okC, why = false, "counter does not start at 0 / is reset inside the loop"
				}
				continue
			}
			add, isAdd := e.(*ssa.BinOp)
			if !isAdd || add.Op != token.ADD || add.X != ssa.Value(phi) {
				okC, why = false, "a back edge carries something other than count+1"
				continue
			}
			if one, isC := constInt(add.Y); !isC || one != 1 {
				okC, why = false, "counter is not incremented by exactly 1"
				continue
			}
			if !sentBlocks[add.Block()] {
				okC, why = false, "the counter is incremented outside the 'tick sent' case"
				continue
			}
			if pred != add.Block() {
				// the increment's block must flow straight back
				okC, why = false, "increment block is not the back-edge block"
			}
			nInc++
		}
		if nInc != len(sentBlocks) {
			okC, why = false, fmt.Sprintf("%d 'tick sent' outcomes but %d counter increments (a sent tick is not counted)", len(sentBlocks), nInc)
		}
		// every sent block jumps straight to the header (or to the loop's post block)
		for b := range sentBlocks {
			if len(b.Succs) != 1 || !through[b.Succs[0]] {
				okC, why = false, "after a tick is sent control does not return directly to the loop head"
			}
		}
		if header != phi.Block() {
			okC, why = false, "counter φ is not at the head of the pacing loop"
		}
		if !okC && header == phi.Block() {
			// path form (e.g. a `released` flag joining both offers before one `count++`): every way
			// from a sent outcome back to the loop head passes exactly one count+1 and no further offer;
			// no way round the loop increments without a sent outcome; nothing else reaches the head.
			var incs []ssa.Instruction
			okForm := true
			for _, ie := range edges {
				if z, isC := constInt(ie.v); isC {
					if z != 0 || phi.Block().Dominates(ie.pred) {
						okForm = false
					}
					continue
				}
				add, isAdd := ie.v.(*ssa.BinOp)
				one := int64(0)
				if isAdd {
					one, _ = constInt(add.Y)
				}
				if !isAdd || add.Op != token.ADD || add.X != ssa.Value(phi) || one != 1 {
					okForm = false
					continue
				}
				incs = append(incs, add)
			}
			isInc := func(i ssa.Instruction) bool {
				for _, x := range incs {
					if x == i {
						return true
					}
				}
				return false
			}
			isOffer := func(i ssa.Instruction) bool {
				for _, o := range a.Offers {
					if o.At == i {
						return true
					}
				}
				return false
			}
			atHead := func(set map[ssa.Instruction]bool) bool {
				for i := range set {
					if i.Block() == header {
						return true
					}
				}
				return false
			}
			whyP := ""
			if okForm && len(incs) > 0 && len(sentBlocks) > 0 {
				for b := range sentBlocks {
					set := exploreBlock(b, isInc)
					if atHead(set) || len(returnsIn(set)) > 0 {
						okForm, whyP = false, "a sent tick can reach the next iteration (or leave) without being counted"
					}
					for i := range set {
						if isOffer(i) {
							okForm, whyP = false, "after a tick was sent another tick can be offered in the same iteration"
						}
					}
				}
				for _, inc := range incs {
					set := explore(inc, false, func(i ssa.Instruction) bool { return i.Block() == header })
					for i := range set {
						if isInc(i) || isOffer(i) {
							okForm, whyP = false, "the counter is incremented twice, or a tick is offered after counting, within one iteration"
						}
					}
				}
				// from the loop head, the increment is unreachable unless a sent outcome was passed
				set := exploreBlock(header, func(i ssa.Instruction) bool {
					for b := range sentBlocks {
						if len(b.Instrs) > 0 && i == b.Instrs[0] {
							return true
						}
					}
					return false
				})
				for i := range set {
					if isInc(i) {
						okForm, whyP = false, "the counter can be incremented without a tick having been sent"
					}
				}
			} else {
				okForm = false
			}
			if okForm {
				okC, why = true, ""
				nInc = len(incs)
			} else if whyP != "" {
				why = whyP
			}
		}
		c.Check(okC, keyC, rCount, fmt.Sprintf("φ[0, +1 on %d sent outcomes]", nInc), why, c.at(pace))
	}

	// (3) sleep before send
	const rSleep = "every send on ticks is dominated by time.Sleep(wait) where wait is the first result of this iteration's Pace call"
	keyS := "sleep-before-send:" + shortFn(fn)
	var sleep *ssa.Call
	nSleep := 0
	eachInstr(fn, func(i ssa.Instruction) {
		if call, ok := i.(*ssa.Call); ok && callName(&call.Call) == "time.Sleep" {
			nSleep++
			if ex, ok := call.Call.Args[0].(*ssa.Extract); ok && ex.Tuple == ssa.Value(pace) && ex.Index == 0 {
				sleep = call
			}
		}
	})
	if sleep == nil {
		c.Fail(keyS, rSleep, "no time.Sleep on the wait returned by Pace", c.at(pace))
	} else {
		okS := instrDominates(pace, sleep)
		var sendSites []string
		for _, o := range a.Offers {
			sendSites = append(sendSites, c.at(o.At))
			if !instrDominates(sleep, o.At) {
				okS = false
			}
		}
		eachInstr(fn, func(i ssa.Instruction) {
			if x, ok := i.(*ssa.Send); ok {
				sendSites = append(sendSites, c.at(x))
				if !instrDominates(sleep, x) {
					okS = false
				}
			}
		})
		c.Check(okS && len(sendSites) > 0, keyS, rSleep, "Sleep(wait) dominates all tick sends", "a tick can be sent without first sleeping for the wait Pace returned", append([]string{c.at(sleep)}, sendSites...)...)
	}

	// (4) duration
	const rDur = "Pace is reachable only through the false edge of `du > 0 && elapsed > du` on the same elapsed value; the true edge returns"
	keyD := "duration-check:" + shortFn(fn)
	var cmpE, cmpD *ssa.BinOp
	excOnTrue, posOnTrue := true, true
	// the test may live in a single-site predicate helper (expired(du, elapsed)): analysed as inlined
	oldInline := inlineAware
	inlineAware = true
	inlineRoots[fn] = true
	defer func() { inlineAware = oldInline; delete(inlineRoots, fn) }()
	eachInstrI(fn, func(i ssa.Instruction) {
		bo, ok := i.(*ssa.BinOp)
		if !ok {
			return
		}
		isDu := func(v ssa.Value) bool {
			v = rootVal(v)
			cell := loadedCell(v)
			al, ok := cell.(*ssa.Alloc)
			if !ok {
				return false
			}
			for _, r := range refs(al) {
				if st, ok := r.(*ssa.Store); ok && st.Addr == ssa.Value(al) {
					if p, ok := st.Val.(*ssa.Parameter); ok && isNamedType(p.Type(), "time", "Duration") {
						return true
					}
				}
			}
			return false
		}
		// either polarity: `du > 0 && elapsed > du → stop` or `du <= 0 || elapsed <= du → go on`
		isEl := func(v ssa.Value) bool { return rootVal(v) == elapsed }
		switch {
		case bo.Op == token.GTR && isEl(bo.X) && isDu(bo.Y), bo.Op == token.LSS && isEl(bo.Y) && isDu(bo.X):
			cmpE, excOnTrue = bo, true
		case bo.Op == token.LEQ && isEl(bo.X) && isDu(bo.Y), bo.Op == token.GEQ && isEl(bo.Y) && isDu(bo.X):
			cmpE, excOnTrue = bo, false
		case bo.Op == token.GTR && isDu(bo.X):
			if z, ok := constInt(bo.Y); ok && z == 0 {
				cmpD, posOnTrue = bo, true
			}
		case bo.Op == token.LEQ && isDu(bo.X):
			if z, ok := constInt(bo.Y); ok && z == 0 {
				cmpD, posOnTrue = bo, false
			}
		}
	})
	directIf := func(v ssa.Value) *ssa.If {
		for _, r := range refs(v) {
			if ifi, ok := r.(*ssa.If); ok {
				return ifi
			}
		}
		return nil
	}
	succOf := func(ifi *ssa.If, onTrue bool) *ssa.BasicBlock {
		if onTrue {
			return ifi.Block().Succs[0]
		}
		return ifi.Block().Succs[1]
	}
	switch {
	case cmpE == nil:
		c.Fail(keyD, rDur, "no `elapsed > du` test on the elapsed value given to Pace", c.at(pace))
	case cmpD == nil:
		c.Fail(keyD, rDur, "no `du > 0` test", c.at(pace))
	default:
		ifD, ifE := directIf(cmpD), directIf(cmpE)
		if ifD == nil {
			ifD = implIf(cmpD, posOnTrue, 0)
		}
		if ifE == nil {
			ifE = implIf(cmpE, excOnTrue, 0)
		}
		var predicateExceeded *ssa.BasicBlock
		if ifE == nil && cmpE.Parent() != fn {
			// `return elapsed > du` in a predicate helper: the caller branches on the helper's result
			if cs := singleSite(c.P, cmpE.Parent()); cs != nil && cs.Parent() == fn {
				returned := false
				eachInstr(cmpE.Parent(), func(j ssa.Instruction) {
					if r, isR := j.(*ssa.Return); isR && len(r.Results) == 1 && r.Results[0] == ssa.Value(cmpE) {
						returned = true
					}
				})
				if cif := trueImpliesIf(cs); returned && cif != nil && excOnTrue {
					ifE = cif
					predicateExceeded = cif.Block().Succs[0]
				}
			}
		}
		okD := ifD != nil && ifE != nil && instrDominates(ifD, pace)
		why := "the duration test does not dominate the Pace call"
		var exceeded *ssa.BasicBlock
		if okD {
			if ifD == ifE {
				// `&&` / `||` lowered to a φ: the edge meaning "limited and exceeded" must not be the one leading to Pace
				exceeded = succOf(ifE, excOnTrue)
				okD = exceeded != pace.Block()
			} else if succOf(ifD, posOnTrue) != cmpE.Block() {
				okD, why = false, "`elapsed > du` is not evaluated on the `du > 0` edge"
			} else {
				exceeded = succOf(ifE, excOnTrue)
				if predicateExceeded != nil {
					exceeded = predicateExceeded
				}
				for _, i := range cmpE.Block().Instrs {
					switch i.(type) {
					case *ssa.UnOp, *ssa.BinOp, *ssa.If, *ssa.FieldAddr, *ssa.Jump, *ssa.Phi, *ssa.Convert, *ssa.ChangeType, *ssa.Return:
					default:
						okD, why = false, "side effects between the two halves of the duration test"
					}
				}
			}
		}
		if okD {
			set := exploreBlock(exceeded, nil)
			if set[ssa.Instruction(pace)] || len(returnsIn(set)) == 0 {
				okD, why = false, "when the duration has elapsed the loop still reaches Pace"
			}
			for i := range set {
				for _, o := range a.Offers {
					if i == o.At {
						okD, why = false, "when the duration has elapsed a tick can still be sent"
					}
				}
			}
		}
		c.Check(okD, keyD, rDur, "du > 0 && elapsed > du → return, dominates Pace", why, c.at(cmpD), c.at(cmpE))
	}

	// (5) pacer stop
	const rStop = "the true edge of Pace's stop result returns with no tick send reachable"
	keyP := "pacer-stop:" + shortFn(fn)
	var stopEx *ssa.Extract
	for _, r := range refs(pace) {
		if ex, ok := r.(*ssa.Extract); ok && ex.Index == 1 {
			stopEx = ex
		}
	}
	if stopEx == nil {
		c.Fail(keyP, rStop, "the stop result of Pace is ignored", c.at(pace))
	} else if ifS := trueImpliesIf(stopEx); ifS == nil {
		c.Fail(keyP, rStop, "the stop result does not control a branch", c.at(pace))
	} else {
		set := exploreBlock(ifS.Block().Succs[0], nil)
		bad := len(returnsIn(set)) == 0
		for i := range set {
			if _, isSend := i.(*ssa.Send); isSend {
				bad = true
			}
			for _, o := range a.Offers {
				if i == o.At {
					bad = true
				}
			}
			if i == ssa.Instruction(pace) {
				bad = true
			}
		}
		okDom := sleep == nil || edgeDominates(ifS.Block(), 1, sleep.Block())
		c.Check(!bad && okDom, keyP, rStop, "stop → return; sleeping/sending only on the not-stop edge", "after the pacer says stop a tick can still be released", c.at(ifS))
	}
}

// loopHeaderOf returns the innermost loop header h such that b belongs to h's
// loop: h dominates b, h has a back edge, and b can reach h again.
func loopHeaderOf(b *ssa.BasicBlock) *ssa.BasicBlock {
	reach := map[*ssa.BasicBlock]bool{}
	var walk func(x *ssa.BasicBlock)
	walk = func(x *ssa.BasicBlock) {
		for _, s := range x.Succs {
			if !reach[s] {
				reach[s] = true
				walk(s)
			}
		}
	}
	walk(b)
	for cur := b; cur != nil; cur = cur.Idom() {
		if !reach[cur] {
			continue
		}
		for _, p := range cur.Preds {
			if cur.Dominates(p) {
				return cur
			}
		}
	}
	return nil
}

// beganValue: v is the attack's began instant — a load of attack.began, possibly
// hoisted into a local before the loop (began is write-once, checked separately).
func beganValue(v ssa.Value, a *attackAnchors) bool {
	if isAttackBeganLoad(v, a) {
		return true
	}
	r := resolveOnce(v)
	return r != v && isAttackBeganLoad(r, a)
}

// isAttackBeganLoad: v is a load of <atk>.began where <atk> is the attack object of this Attack call / hit parameter.
func isAttackBeganLoad(v ssa.Value, a *attackAnchors) bool {
	u, ok := isLoad(v)
	if !ok {
		return false
	}
	fa, ok := u.X.(*ssa.FieldAddr)
	if !ok || !a.atkField(fa, "began") {
		return false
	}
	return true
}

func c04BeganWriteOnce(c *Ctx, a *attackAnchors) {
	const rule = "attack.began is written exactly once, in Attack's composite literal, from time.Now()"
	key := "began-write-once:lib.attack.began"
	var stores []*ssa.Store
	for _, fn := range c.P.RepoFuncs("lib") {
		eachInstr(fn, func(i ssa.Instruction) {
			if st, ok := i.(*ssa.Store); ok {
				if fa, ok := st.Addr.(*ssa.FieldAddr); ok && a.atkField(fa, "began") {
					stores = append(stores, st)
				}
			}
		})
	}
	ok := len(stores) == 1 && stores[0].Parent() == a.Attack
	if ok {
		call, isCall := stores[0].Val.(*ssa.Call)
		ok = isCall && callName(&call.Call) == "time.Now"
	}
	var sites []string
	for _, s := range stores {
		sites = append(sites, c.at(s))
	}
	if len(sites) == 0 {
		sites = []string{c.fnAt(a.Attack)}
	}
	c.Check(ok, key, rule, "single store of time.Now() in Attack", fmt.Sprintf("%d stores to attack.began; want one, of time.Now(), in Attack", len(stores)), sites...)
}

// ---------------------------------------------------------------- C05

func resultFieldStore(i ssa.Instruction, field string) (*ssa.Store, bool) {
	st, ok := i.(*ssa.Store)
	if !ok {
		return nil, false
	}
	fa, ok := st.Addr.(*ssa.FieldAddr)
	if !ok || !isNamedType(fa.X.Type(), "lib", "Result") || fieldName(fa.X.Type(), fa.Field) != field {
		return nil, false
	}
	return st, true
}

func runC05(c *Ctx) {
	a := resolveAttack(c)
	if !a.ok(c, "C05") {
		return
	}
	sf := c02SeqLockset(c, a)
	c04BeganWriteOnce(c, a)
	if !sf.ok {
		return
	}
	hit := a.Hit
	// timestamp store(s)
	const rTS = "Result.Timestamp is stored exactly once per hit, inside the critical section that assigns the sequence number, from began.Add(time.Since(began)) on this attack's write-once began"
	keyTS := "timestamp-in-critical-section:" + shortFn(hit)
	var tsStores []*ssa.Store
	for _, fn := range region(hit) {
		eachInstr(fn, func(i ssa.Instruction) {
			if st, ok := resultFieldStore(i, "Timestamp"); ok {
				tsStores = append(tsStores, st)
			}
		})
	}
	if len(tsStores) != 1 {
		c.Fail(keyTS, rTS, fmt.Sprintf("%d stores to Result.Timestamp in hit (want exactly one)", len(tsStores)), c.fnAt(hit))
		return
	}
	ts := tsStores[0]
	// position of the critical section as seen from hit
	var tsInHit ssa.Instruction = ts
	if sf.site != nil {
		tsInHit = sf.site
	}
	if ts.Parent() != hit && ts.Parent() != sf.fn {
		c.Fail(keyTS, rTS, "Result.Timestamp is stored in "+shortFn(ts.Parent())+", neither hit nor the function holding the sequence lock", c.at(ts))
		return
	}
	// the timestamp expression, wherever it is computed: began.Add(<clock read relative to began>)
	var add, clock *ssa.Call
	nClock := 0
	flowsFrom(ts.Val, func(v ssa.Value) bool {
		call, ok := v.(*ssa.Call)
		if !ok {
			return false
		}
		switch callName(&call.Call) {
		case "(time.Time).Add":
			if add == nil {
				add = call
			}
		case "time.Since", "time.Now":
			nClock++
			clock = call
		}
		return false
	})
	okBase := false
	why := "the timestamp is not began.Add(<monotonic duration since began>)"
	if add != nil && beganValue(add.Call.Args[0], a) && nClock == 1 {
		if d, ok := add.Call.Args[1].(*ssa.Call); ok {
			switch callName(&d.Call) {
			case "time.Since":
				okBase = d == clock && beganValue(d.Call.Args[0], a)
			case "(time.Time).Sub":
				okBase = d.Call.Args[0] == ssa.Value(clock) && callName(&clock.Call) == "time.Now" && beganValue(d.Call.Args[1], a)
			}
		} else if flowsFrom(add.Call.Args[1], func(v ssa.Value) bool { return v == ssa.Value(clock) }) && callName(&clock.Call) == "time.Since" && beganValue(clock.Call.Args[0], a) {
			// the elapsed duration travels through a parameter / local before being added
			okBase = true
		}
	} else if add == nil && nClock == 1 && callName(&clock.Call) == "time.Now" {
		why = "the timestamp is a fresh wall-clock time.Now() rather than began + monotonic elapsed"
	} else if nClock > 1 {
		why = "the timestamp depends on more than one clock read"
	}
	c.Check(okBase, "timestamp-monotonic-base:"+shortFn(hit), "timestamps derive from the attack's start instant plus a monotonic elapsed time", "began.Add(time.Since(began))", why, c.at(ts))
	if !okBase {
		return
	}
	if clock.Parent() != sf.fn {
		c.Fail(keyTS, rTS, "the clock is read in "+shortFn(clock.Parent())+", outside the function that holds the sequence lock (an argument evaluated before the lock is taken): two workers can obtain timestamps and sequence numbers in opposite orders", c.at(clock))
		return
	}
	// one critical section
	events := []ssa.Instruction{clock, sf.seqLoadToResult, sf.seqStore}
	names := []string{"clock read", "seq load", "seq increment"}
	if ts.Parent() == sf.fn {
		events = append(events, ts)
		names = append(names, "timestamp store")
	}
	okCS := true
	whyCS := ""
	for k, e := range events {
		if !sf.ls.HeldHas(e, sf.mu) {
			okCS, whyCS = false, names[k]+" happens without "+sf.mu+" held"
		}
	}
	if okCS {
		// no unlock of mu between any two events
		for _, u := range sf.ls.Unlocks {
			if mutexPath(u.(*ssa.Call).Call.Args[0]) != sf.mu {
				continue
			}
			after, before := false, false
			for _, e := range events {
				if instrDominates(e, u) {
					after = true
				}
				if instrDominates(u, e) {
					before = true
				}
			}
			if after && before {
				okCS, whyCS = false, "the mutex is released between taking the timestamp and assigning the sequence number"
			}
		}
		// and no second Lock between them
		for _, l := range sf.ls.Locks {
			after, before := false, false
			for _, e := range events {
				if instrDominates(e, l) {
					after = true
				}
				if instrDominates(l, e) {
					before = true
				}
			}
			if after && before {
				okCS, whyCS = false, "the critical section is split in two"
			}
		}
	}
	c.Check(okCS, keyTS, rTS, "clock read, seq load and increment under one hold of "+sf.mu, whyCS, c.at(clock), c.at(ts), c.at(sf.seqLoadToResult), c.at(sf.seqStore))

	// latency
	const rLat = "Result.Latency = time.Since(Result.Timestamp) is stored by a closure deferred before every return that follows the critical section; it is the only store to Latency; the critical section precedes the transport call"
	keyL := "latency-deferred:" + shortFn(hit)
	var latStores []*ssa.Store
	latScope := withAnon(hit)
	if a.HitDefer != nil && a.HitDefer.Parent() == nil {
		latScope = append(latScope, a.HitDefer) // `defer finishResult(&res, &err)`: a named function
	}
	for _, fn := range latScope {
		eachInstr(fn, func(i ssa.Instruction) {
			if st, ok := resultFieldStore(i, "Latency"); ok {
				latStores = append(latStores, st)
			}
		})
	}
	okL := len(latStores) == 1 && a.HitDefer != nil && latStores[0].Parent() == a.HitDefer
	whyL := fmt.Sprintf("%d stores to Result.Latency; want exactly one, in the deferred closure", len(latStores))
	explicitLatency := false
	if !okL && len(latStores) == 1 && latStores[0].Parent() == hit {
		// error-return style: hit hands the exchange to a helper and assigns the latency right after
		// the helper returned, on the one path every return of hit goes through
		st := latStores[0]
		explicitLatency = true
		okE := false
		whyL = "latency is not time.Since(this result's Timestamp)"
		if call, isCall := st.Val.(*ssa.Call); isCall && callName(&call.Call) == "time.Since" {
			if u, isL := isLoad(call.Call.Args[0]); isL {
				if fa, isFA := u.X.(*ssa.FieldAddr); isFA && isNamedType(fa.X.Type(), "lib", "Result") && fieldName(fa.X.Type(), fa.Field) == "Timestamp" && rootCell(fa.X) == rootCell(ts.Addr.(*ssa.FieldAddr).X) {
					okE = true
				}
			}
		}
		if okE {
			eachInstr(hit, func(i ssa.Instruction) {
				if r, isR := i.(*ssa.Return); isR && !instrDominates(st, r) {
					okE, whyL = false, "a return of hit is not preceded by the latency assignment"
				}
			})
		}
		if okE {
			// everything that takes time (the transport call, wherever it lives) has returned before
			withInline(func() {
				dos := callsNamedI(hit, "(*net/http.Client).Do")
				if len(dos) == 0 {
					okE, whyL = false, "no client.Do reachable from hit"
				}
				for _, d := range dos {
					site := d
					for k := 0; k < 4 && site.Parent() != hit; k++ {
						cs := singleSite(c.P, site.Parent())
						if cs == nil {
							break
						}
						site = cs
					}
					if site.Parent() != hit || !instrDominates(site, st) || !instrDominates(tsInHit, site) {
						okE, whyL = false, "the latency is taken before the exchange has returned (or the exchange starts before the timestamp)"
					}
				}
			}, hit)
		}
		okL = okE
	}
	if okL && !explicitLatency {
		st := latStores[0]
		call, isCall := st.Val.(*ssa.Call)
		okL = isCall && callName(&call.Call) == "time.Since"
		if okL {
			u, isL := isLoad(call.Call.Args[0])
			okL = isL
			if isL {
				fa, isFA := u.X.(*ssa.FieldAddr)
				okL = isFA && isNamedType(fa.X.Type(), "lib", "Result") && fieldName(fa.X.Type(), fa.Field) == "Timestamp" && rootCell(fa.X) == rootCell(ts.Addr.(*ssa.FieldAddr).X)
			}
		}
		whyL = "latency is not time.Since(this result's Timestamp)"
		if okL {
			// unconditional in the closure
			okL = st.Block() == a.HitDefer.Blocks[0]
			whyL = "the latency store is conditional"
		}
	}
	if okL && !explicitLatency {
		var def *ssa.Defer
		eachInstr(hit, func(i ssa.Instruction) {
			if d, ok := i.(*ssa.Defer); ok && closureOf(d.Call.Value) == a.HitDefer {
				def = d
			}
		})
		okL = def != nil
		whyL = "the latency closure is not deferred"
		if okL {
			eachInstr(hit, func(i ssa.Instruction) {
				if r, ok := i.(*ssa.Return); ok && len(r.Block().Preds) > 0 || (ok && r.Block() == hit.Blocks[0]) {
					if !instrDominates(def, r) {
						okL, whyL = false, "a return is not preceded by the defer of the latency closure"
					}
				}
			})
			if !instrDominates(tsInHit, def) {
				okL, whyL = false, "the latency closure is deferred before the timestamp is taken"
			}
		}
	}
	c.Check(okL, keyL, rLat, "deferred on every exit; only store to Latency", whyL, c.fnAt(hit))

	// critical section precedes transport
	keyT := "timestamp-before-transport:" + shortFn(hit)
	var dos []ssa.Instruction
	okT := false
	withInline(func() {
		dos = callsNamedI(hit, "(*net/http.Client).Do")
		okT = len(dos) >= 1
		for _, d := range dos {
			if !instrDominates(tsInHit, d) {
				okT = false
			}
		}
	}, hit)
	c.Check(okT, keyT, "the timestamp is taken before the request is handed to the transport", "critical section dominates client.Do", "client.Do is not dominated by the timestamp store", c.atsOr(dos, hit)...)

	// End = Timestamp.Add(Latency)
	const rEnd = "Result.End returns Timestamp.Add(Latency) of the receiver"
	end := c.P.Func("lib", "Result.End")
	keyEnd := "end-definition:(*lib.Result).End"
	if end == nil {
		c.Undecided(keyEnd, rEnd, "Result.End not found")
	} else {
		okE := false
		eachInstr(end, func(i ssa.Instruction) {
			if r, ok := i.(*ssa.Return); ok && len(r.Results) == 1 {
				if call, ok := r.Results[0].(*ssa.Call); ok && callName(&call.Call) == "(time.Time).Add" {
					p0, p1 := path(call.Call.Args[0]), path(call.Call.Args[1])
					okE = p0 == "*recv.Timestamp" || p0 == "recv.Timestamp"
					okE = okE && (p1 == "*recv.Latency" || p1 == "recv.Latency")
				}
			}
		})
		c.Check(okE, keyEnd, rEnd, "Timestamp.Add(Latency)", "End is not Timestamp.Add(Latency)", c.fnAt(end))
	}
}

// rangeIntBound recognises the body block of `for range n` / `for i := range n` over an integer
// (go/ssa's rotated form): a φ[0, φ+1] whose every incoming edge is the true edge of `x < n` with
// x the value the φ takes on that edge. It returns n.
func rangeIntBound(b *ssa.BasicBlock) ssa.Value {
	for _, in := range b.Instrs {
		phi, ok := in.(*ssa.Phi)
		if !ok {
			break
		}
		if len(phi.Edges) != len(b.Preds) {
			continue
		}
		var bound ssa.Value
		good := true
		sawZero, sawInc := false, false
		for k, e := range phi.Edges {
			p := b.Preds[k]
			ifi, isIf := p.Instrs[len(p.Instrs)-1].(*ssa.If)
			if !isIf || p.Succs[0] != b {
				good = false
				break
			}
			cmp, isCmp := ifi.Cond.(*ssa.BinOp)
			if !isCmp || cmp.Op != token.LSS {
				good = false
				break
			}
			if z, isZ := constInt(e); isZ && z == 0 {
				if zz, isZZ := constInt(cmp.X); !isZZ || zz != 0 {
					good = false
				}
				sawZero = true
			} else if add, isAdd := e.(*ssa.BinOp); isAdd && add.Op == token.ADD && add.X == ssa.Value(phi) && cmp.X == e {
				if one, isOne := constInt(add.Y); !isOne || one != 1 {
					good = false
				}
				sawInc = true
			} else {
				good = false
			}
			if bound == nil {
				bound = cmp.Y
			} else if bound != cmp.Y {
				good = false
			}
		}
		if good && sawZero && sawInc {
			return bound
		}
	}
	return nil
}
